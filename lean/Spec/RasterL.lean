/-
  Spec.RasterL — the format readers of Spec/Raster.lean once more, as structurally recursive functions
  on LISTS of bytes / characters (no `ByteArray`, no `String` operations, no loops): PBM (P4, P1), PPM
  (P6), PAM (P7), XBM, XPM (the small C tokenizer as a state machine), ANSI terminal, compact terminal,
  the line structure of TXT, and PNG (signature, chunk walk with every CRC-32, IHDR / PLTE / tRNS / pHYs,
  chunk order, zlib header + Adler-32, scanline filters 0-4).  They return the decoded picture as rows
  of pixels.  The theorems of Props/C09Docs.lean are about these readers; the judge command `c09l`
  (Spec/RasterLJudge.lean) runs them side by side with the readers of Spec/Raster.lean (the ones that
  judge the real files) on every real file and on damaged copies and reports any difference.
  Hand-written from the format specifications; imports nothing generated and nothing from the model.
-/
import Spec.Raster

namespace Spec.L

open Spec

deriving instance DecidableEq for RGBA

/-- a decoded picture: `h` rows of `w` pixels; `none` = a sample that has no meaning in the format -/
structure Pic where
  w : Nat
  h : Nat
  px : List (List (Option RGBA))
  deriving DecidableEq, Repr

/-- `n` consecutive pieces of length `k` -/
def chunks {α : Type} (k : Nat) : Nat → List α → List (List α)
  | 0, _ => []
  | n + 1, l => l.take k :: chunks k n (l.drop k)

/-- black for 1, white for anything else (PBM, XBM, terminal) -/
def bw (c : Nat) : Option RGBA := some (if c == 1 then black else white)

/-! ## Netpbm -/

/-- skips white space and `#` comments (to the end of the line) -/
def skipWs : Bool → List Nat → List Nat
  | _, [] => []
  | true, c :: r => if c == 10 || c == 13 then skipWs false r else skipWs true r
  | false, c :: r => if c == 35 then skipWs true r else if isWs c then skipWs false r else c :: r

def digitsVal (ds : List Nat) : Nat := ds.foldl (fun v c => v * 10 + (c - 48)) 0

/-- an unsigned decimal number after white space / comments, followed by white space or the end -/
def readNum (bs : List Nat) : Option (Nat × List Nat) :=
  let q := skipWs false bs
  let ds := q.takeWhile isDigitB
  let rest := q.dropWhile isDigitB
  if ds.isEmpty then none
  else match rest with
    | [] => some (digitsVal ds, [])
    | c :: _ => if isWs c then some (digitsVal ds, rest) else none

def readPbm (f : List Nat) : Except String Pic :=
  match f with
  | 80 :: kind :: rest =>
    if kind != 52 && kind != 49 then .error "pbm-magic"
    else if !isWs (rest.headD 0) then .error "pbm-magic"
    else match readNum rest with
      | none => .error "pbm-header-width"
      | some (w, r1) =>
        match readNum r1 with
        | none => .error "pbm-header-height"
        | some (h, r2) =>
          if w == 0 || h == 0 then .error "pbm-zero-dimension"
          else if kind == 52 then
            let raster := r2.drop 1
            let rowBytes := (w + 7) / 8
            if r2.isEmpty || raster.length != rowBytes * h then .error "pbm-raster-size"
            else .ok { w := w, h := h, px := (chunks rowBytes h raster).map (fun row => (unpackRow 1 w row).map bw) }
          else
            if r2.any (fun c => !(c == 48 || c == 49 || isWs c)) then .error "pbm-plain-raster-character"
            else
              let bits := (r2.filter (fun c => c == 48 || c == 49)).map (· - 48)
              if bits.length != w * h then .error "pbm-raster-size"
              else .ok { w := w, h := h, px := (chunks w h bits).map (fun row => row.map bw) }
  | _ => .error "pbm-magic"

/-- a colour component `v` of a picture with maximum value `mx`, on the scale 0..255 (exact only) -/
def scaleTo255 (mx v : Nat) : Option Nat := if v > mx || v * 255 % mx != 0 then none else some (v * 255 / mx)

def ppmPixel (mx : Nat) (p : List Nat) : Option RGBA :=
  match p with
  | [r, g, b] =>
    (scaleTo255 mx r).bind (fun r' => (scaleTo255 mx g).bind (fun g' => (scaleTo255 mx b).map (fun b' => (⟨r', g', b', 255⟩ : RGBA))))
  | _ => none

def readPpm (f : List Nat) : Except String Pic :=
  match f with
  | 80 :: 54 :: rest =>
    if !isWs (rest.headD 0) then .error "ppm-magic"
    else match readNum rest with
      | none => .error "ppm-header-width"
      | some (w, r1) =>
        match readNum r1 with
        | none => .error "ppm-header-height"
        | some (h, r2) =>
          match readNum r2 with
          | none => .error "ppm-header-maxval"
          | some (mx, r3) =>
            if w == 0 || h == 0 then .error "ppm-zero-dimension"
            else if mx == 0 || mx > 255 then .error "ppm-maxval"
            else
              let raster := r3.drop 1
              if r3.isEmpty || raster.length != 3 * w * h then .error "ppm-raster-size"
              else .ok { w := w, h := h, px := (chunks (3 * w) h raster).map (fun row => (chunks 3 w row).map (ppmPixel mx)) }
  | _ => .error "ppm-magic"

/-- the header lines of a PAM file up to the line `ENDHDR`, and the raster behind it -/
def pamLines : List Nat → List Nat → List (List Nat) → Option (List (List Nat) × List Nat)
  | [], _, _ => none
  | c :: r, cur, acc =>
    if c == 10 then
      if cur.reverse == [69, 78, 68, 72, 68, 82] then some (acc.reverse, r) else pamLines r [] (cur.reverse :: acc)
    else pamLines r (c :: cur) acc

/-- the non-empty pieces between occurrences of `sep` (`cur`: the piece being read, reversed) -/
def splitOn (sep : Nat) : List Nat → List Nat → List (List Nat)
  | [], cur => if cur.isEmpty then [] else [cur.reverse]
  | c :: r, cur =>
    if c == sep then (if cur.isEmpty then splitOn sep r [] else cur.reverse :: splitOn sep r []) else splitOn sep r (c :: cur)

def natOf? (ds : List Nat) : Option Nat := if !ds.isEmpty && ds.all isDigitB then some (digitsVal ds) else none

structure PamHdr where
  w : Option Nat := none
  h : Option Nat := none
  depth : Option Nat := none
  maxval : Option Nat := none
  tupl : List Nat := []
  deriving DecidableEq, Repr

def joinSp : List (List Nat) → List Nat
  | [] => []
  | [x] => x
  | x :: rest => x ++ 32 :: joinSp rest

def pamHeaderLine (hd : PamHdr) (line : List Nat) : Except String PamHdr :=
  match splitOn 32 line [] with
  | [] => .ok hd
  | key :: rest =>
    if key.head? == some 35 then .ok hd
    else if key == [84, 85, 80, 76, 84, 89, 80, 69] then       -- TUPLTYPE
      .ok { hd with tupl := if hd.tupl.isEmpty then joinSp rest else hd.tupl ++ 32 :: joinSp rest }
    else match rest with
      | [v] =>
        match natOf? v with
        | none => .error "pam-header-not-a-number"
        | some n =>
          if key == [87, 73, 68, 84, 72] then (if hd.w.isSome then .error "pam-header-duplicate" else .ok { hd with w := some n })
          else if key == [72, 69, 73, 71, 72, 84] then (if hd.h.isSome then .error "pam-header-duplicate" else .ok { hd with h := some n })
          else if key == [68, 69, 80, 84, 72] then (if hd.depth.isSome then .error "pam-header-duplicate" else .ok { hd with depth := some n })
          else if key == [77, 65, 88, 86, 65, 76] then (if hd.maxval.isSome then .error "pam-header-duplicate" else .ok { hd with maxval := some n })
          else .error "pam-header-unknown"
      | _ => .error "pam-header-value"

def pamHeader : List (List Nat) → PamHdr → Except String PamHdr
  | [], hd => .ok hd
  | l :: rest, hd => match pamHeaderLine hd l with
    | .error e => .error e
    | .ok hd' => pamHeader rest hd'

/-- the number of components the tuple type prescribes -/
def pamWantDepth (tupl : List Nat) : Option Nat :=
  if tupl == [66, 76, 65, 67, 75, 65, 78, 68, 87, 72, 73, 84, 69] then some 1                    -- BLACKANDWHITE
  else if tupl == [71, 82, 65, 89, 83, 67, 65, 76, 69] then some 1                                -- GRAYSCALE
  else if tupl == [82, 71, 66] then some 3                                                        -- RGB
  else if tupl == [66, 76, 65, 67, 75, 65, 78, 68, 87, 72, 73, 84, 69, 95, 65, 76, 80, 72, 65] then some 2   -- BLACKANDWHITE_ALPHA
  else if tupl == [71, 82, 65, 89, 83, 67, 65, 76, 69, 95, 65, 76, 80, 72, 65] then some 2        -- GRAYSCALE_ALPHA
  else if tupl == [82, 71, 66, 95, 65, 76, 80, 72, 65] then some 4                                -- RGB_ALPHA
  else none

def pamPixel (mx : Nat) (p : List Nat) : Option RGBA :=
  match p with
  | [g] => (scaleTo255 mx g).map (fun g' => (⟨g', g', g', 255⟩ : RGBA))
  | [g, a] => (scaleTo255 mx g).bind (fun g' => (scaleTo255 mx a).map (fun a' => (⟨g', g', g', a'⟩ : RGBA)))
  | [r, g, b] =>
    (scaleTo255 mx r).bind (fun r' => (scaleTo255 mx g).bind (fun g' => (scaleTo255 mx b).map (fun b' => (⟨r', g', b', 255⟩ : RGBA))))
  | [r, g, b, a] =>
    (scaleTo255 mx r).bind (fun r' => (scaleTo255 mx g).bind (fun g' => (scaleTo255 mx b).bind (fun b' =>
      (scaleTo255 mx a).map (fun a' => (⟨r', g', b', a'⟩ : RGBA)))))
  | _ => none

def readPam (f : List Nat) : Except String Pic :=
  match f with
  | 80 :: 55 :: 10 :: rest =>
    match pamLines rest [] [] with
    | none => .error "pam-endhdr-missing"
    | some (lines, raster) =>
      match pamHeader lines {} with
      | .error e => .error e
      | .ok hd =>
        match hd.w, hd.h, hd.depth, hd.maxval with
        | some w, some h, some depth, some mx =>
          if w == 0 || h == 0 || depth == 0 then .error "pam-zero-dimension"
          else if mx == 0 || mx > 255 then .error "pam-maxval"
          else match pamWantDepth hd.tupl with
            | none => .error "pam-tupltype"
            | some wd =>
              if wd != depth then .error "pam-depth"
              else if hd.tupl.take 13 == [66, 76, 65, 67, 75, 65, 78, 68, 87, 72, 73, 84, 69] && mx != 1 then .error "pam-blackandwhite-maxval"
              else if raster.length != w * h * depth then .error "pam-raster-size"
              else .ok { w := w, h := h, px := (chunks (w * depth) h raster).map (fun row => (chunks depth w row).map (pamPixel mx)) }
        | _, _, _, _ => .error "pam-header-field-missing"
  | _ => .error "pam-magic"

/-! ## C-source formats: a small C tokenizer as a state machine, XBM, XPM -/

inductive Tok where
  | ident (s : List Char)
  | num (n : Nat)
  | str (s : List Char)
  | punct (c : Char)
  | comment (s : List Char)
  | bad (s : String)
  deriving DecidableEq, Repr

inductive TState where
  | idle
  | ident (acc : List Char)                       -- characters read, reversed
  | num (acc : List Char)                         -- decimal digits read, reversed
  | hex (acc : List Char)                         -- hexadecimal digits read after `0x`, reversed
  | slash                                         -- a `/` that may open a comment
  | comment (body : List Char) (star : Bool)      -- body reversed; `star`: the last character was a `*` (not yet in the body)
  | str (body : List Char) (esc : Bool)           -- body reversed; `esc`: the last character was a backslash
  | dead                                          -- after a malformed token: nothing more is read
  deriving DecidableEq, Repr

def decVal (ds : List Char) : Nat := ds.foldl (fun a x => a * 10 + (x.toNat - 48)) 0
def hexVal (ds : List Char) : Nat := ds.foldl (fun a x => a * 16 + (hexDigit? x).getD 0) 0

/-- a character read between tokens -/
def stepIdle (c : Char) : List Tok × TState :=
  if c == ' ' || c == '\n' || c == '\t' || c == '\r' then ([], .idle)
  else if c == '/' then ([], .slash)
  else if c == '"' then ([], .str [] false)
  else if c.isDigit then ([], .num [c])
  else if isIdentStart c then ([], .ident [c])
  else ([.punct c], .idle)

def step (st : TState) (c : Char) : List Tok × TState :=
  match st with
  | .idle => stepIdle c
  | .ident acc =>
    if isIdentChar c then ([], .ident (c :: acc)) else (.ident acc.reverse :: (stepIdle c).1, (stepIdle c).2)
  | .num acc =>
    if acc == ['0'] && (c == 'x' || c == 'X') then ([], .hex [])
    else if c.isDigit then ([], .num (c :: acc))
    else if c == '.' then ([.bad "decimal-point-in-number"], .dead)          -- `17.0` is not an integer
    else (.num (decVal acc.reverse) :: (stepIdle c).1, (stepIdle c).2)
  | .hex acc =>
    if (hexDigit? c).isSome then ([], .hex (c :: acc))
    else if acc.isEmpty then ([.bad "hex-number"], .dead)
    else (.num (hexVal acc.reverse) :: (stepIdle c).1, (stepIdle c).2)
  | .slash => if c == '*' then ([], .comment [] false) else (.punct '/' :: (stepIdle c).1, (stepIdle c).2)
  | .comment body star =>
    if star && c == '/' then ([.comment body.reverse], .idle)
    else
      let body' := if star then '*' :: body else body
      if c == '*' then ([], .comment body' true) else ([], .comment (c :: body') false)
  | .str body esc =>
    if esc then ([], .str (c :: body) false)
    else if c == '"' then ([.str body.reverse], .idle)
    else if c == '\\' then ([], .str body true)
    else ([], .str (c :: body) false)
  | .dead => ([], .dead)

/-- what is pending at the end of the text -/
def finish : TState → List Tok
  | .idle => []
  | .ident acc => [.ident acc.reverse]
  | .num acc => [.num (decVal acc.reverse)]
  | .hex acc => if acc.isEmpty then [.bad "hex-number"] else [.num (hexVal acc.reverse)]
  | .slash => [.punct '/']
  | .comment body star => [.comment (if star then '*' :: body else body).reverse]
  | .str _ _ => [.bad "unterminated-string"]
  | .dead => []

def run : TState → List Char → List Tok
  | st, [] => finish st
  | st, c :: r => (step st c).1 ++ run (step st c).2 r

/-- identifiers, decimal / hexadecimal numbers, string literals, `/* */` comments, punctuation -/
def cTokens (src : List Char) : List Tok := run .idle src

def Tok.isComment : Tok → Bool
  | .comment _ => true
  | _ => false

def Tok.isBad : Tok → Bool
  | .bad _ => true
  | _ => false

/-- numbers separated by commas (an optional comma after the last one), then `}` `;` and nothing else -/
def xbmArray : List Tok → Except String (List Nat)
  | [] => .error "xbm-array-not-closed"
  | [.punct a, .punct b] => if a == '}' && b == ';' then .ok [] else .error "xbm-array-syntax"
  | .num n :: .punct p :: more =>
    if n > 255 then .error "xbm-byte-out-of-range"
    else if p == ',' then
      match xbmArray more with
      | .ok l => .ok (n :: l)
      | .error e => .error e
    else if p == '}' && more == [.punct ';'] then .ok [n]
    else .error "xbm-array-syntax"
  | _ => .error "xbm-array-syntax"

/-- the part of an XBM file behind the two `#define` lines: `static [unsigned] char NAME_bits[] = {` -/
def xbmDecl (name : List Char) (toks : List Tok) : Except String (List Tok) :=
  match toks with
  | .ident s :: rest =>
    if s != "static".toList then .error "xbm-declaration"
    else
      let rest := match rest with
        | .ident u :: r => if u == "unsigned".toList then r else rest
        | _ => rest
      match rest with
      | .ident ch :: .ident c :: .punct p1 :: .punct p2 :: .punct p3 :: .punct p4 :: rest =>
        if ch == "char".toList && p1 == '[' && p2 == ']' && p3 == '=' && p4 == '{' then
          (if c == name ++ "_bits".toList then .ok rest else .error "xbm-bits-identifier")
        else .error "xbm-declaration"
      | _ => .error "xbm-declaration"
  | _ => .error "xbm-declaration"

/-- X BitMap: `#define N_width W`, `#define N_height H`, `static [unsigned] char N_bits[] = { … };`
    bit k of byte m of a row (least significant first) is pixel 8m+k; 1 = foreground -/
def readXbm (src name : List Char) : Except String Pic :=
  let toks := (cTokens src).filter (fun t => !t.isComment)
  if toks.any Tok.isBad then .error "xbm-token"
  else match toks with
    | .punct h1 :: .ident d1 :: .ident a :: .num w :: .punct h2 :: .ident d2 :: .ident b :: .num h :: rest =>
      if !(h1 == '#' && d1 == "define".toList && h2 == '#' && d2 == "define".toList) then .error "xbm-defines"
      else if a != name ++ "_width".toList then .error "xbm-width-identifier"
      else if b != name ++ "_height".toList then .error "xbm-height-identifier"
      else match xbmDecl name rest with
        | .error e => .error e
        | .ok rest =>
          if w == 0 || h == 0 then .error "xbm-zero-dimension"
          else match xbmArray rest with
            | .error e => .error e
            | .ok bytes =>
              let rowBytes := (w + 7) / 8
              if bytes.length != rowBytes * h then .error "xbm-array-size"
              else .ok { w := w, h := h, px := (chunks rowBytes h bytes).map (fun row => (unpackRowXbm w row).map bw) }
    | _ => .error "xbm-defines"

/-- string literals separated by commas (an optional comma after the last one), then `}` `;` and nothing else -/
def xpmStrings : List Tok → Except String (List (List Char))
  | [] => .error "xpm-array-not-closed"
  | [.punct a, .punct b] => if a == '}' && b == ';' then .ok [] else .error "xpm-array-syntax"
  | .str s :: .punct p :: more =>
    if p == ',' then
      match xpmStrings more with
      | .ok l => .ok (s :: l)
      | .error e => .error e
    else if p == '}' && more == [.punct ';'] then .ok [s]
    else .error "xpm-array-syntax"
  | _ => .error "xpm-array-syntax"

def isWsChar (c : Char) : Bool := c == ' ' || c == '\t' || c == '\r' || c == '\n'

def trimWs (s : List Char) : List Char := ((s.dropWhile isWsChar).reverse.dropWhile isWsChar).reverse

/-- the non-empty pieces between the characters for which `sep` holds -/
def splitChars (sep : Char → Bool) : List Char → List Char → List (List Char)
  | [], cur => if cur.isEmpty then [] else [cur.reverse]
  | c :: r, cur =>
    if sep c then (if cur.isEmpty then splitChars sep r [] else cur.reverse :: splitChars sep r []) else splitChars sep r (c :: cur)

def charsNat? (ds : List Char) : Option Nat := if !ds.isEmpty && ds.all Char.isDigit then some (decVal ds) else none

/-- `static [const] char * NAME [] = {` -/
def xpmDecl (name : List Char) (toks : List Tok) : Except String (List Tok) :=
  let tail (n : List Char) (ps : List Char) (rest : List Tok) : Except String (List Tok) :=
    if ps != ['*', '[', ']', '=', '{'] then .error "xpm-declaration"
    else if n != name then .error "xpm-identifier" else .ok rest
  match toks with
  | .ident s :: .ident c1 :: .ident c2 :: .punct p0 :: .ident n :: .punct p1 :: .punct p2 :: .punct p3 :: .punct p4 :: rest =>
    if s == "static".toList && c1 == "const".toList && c2 == "char".toList then tail n [p0, p1, p2, p3, p4] rest
    else .error "xpm-declaration"
  | .ident s :: .ident c1 :: .punct p0 :: .ident n :: .punct p1 :: .punct p2 :: .punct p3 :: .punct p4 :: rest =>
    if s == "static".toList && c1 == "char".toList then tail n [p0, p1, p2, p3, p4] rest
    else .error "xpm-declaration"
  | _ => .error "xpm-declaration"

/-- `#RGB`, `#RGBA`, `#RRGGBB`, `#RRGGBBAA` (the `#` is optional) -/
def parseHexColour (cs : List Char) : Option RGBA :=
  let cs := match cs with | '#' :: rest => rest | _ => cs
  match cs.mapM hexDigit? with
  | some [r, g, b] => some ⟨r * 17, g * 17, b * 17, 255⟩
  | some [r, g, b, a] => some ⟨r * 17, g * 17, b * 17, a * 17⟩
  | some [r1, r2, g1, g2, b1, b2] => some ⟨r1 * 16 + r2, g1 * 16 + g2, b1 * 16 + b2, 255⟩
  | some [r1, r2, g1, g2, b1, b2, a1, a2] => some ⟨r1 * 16 + r2, g1 * 16 + g2, b1 * 16 + b2, a1 * 16 + a2⟩
  | _ => none

def lowerChars (s : List Char) : List Char := s.map (fun c => if 'A' ≤ c && c ≤ 'Z' then Char.ofNat (c.toNat + 32) else c)

/-- CSS3 colour keyword (case-insensitive) or hexadecimal notation -/
def parseColourChars (s : List Char) : Option RGBA :=
  match css3.find? (fun e => e.1.toList == lowerChars s) with
  | some (_, r, g, b) => some ⟨r, g, b, 255⟩
  | none => parseHexColour s

/-- the value of the `c` (colour visual) entry of a colour line: pairs of (context key, colour) -/
def findC : List (List Char) → Option (List Char)
  | k :: v :: more => if k == ['c'] then some v else findC more
  | _ => none

/-- one line of the colour table (behind the `cpp` key characters) -/
def xpmColour (spec : List Char) : Except String (Option RGBA) :=
  match findC (splitChars (fun c => c == ' ' || c == '\t') spec []) with
  | none => .error "xpm-colour-line-without-c"
  | some cv =>
    if lowerChars cv == "none".toList then .ok (some ⟨0, 0, 0, 0⟩)
    else match parseColourChars cv with
      | none => .error "xpm-colour"
      | some c =>
        if cv.head? == some '#' && cv.length != 7 && cv.length != 4 && cv.length != 13 then .error "xpm-colour" else .ok (some c)

/-- the colour table: keys and colours -/
def xpmTable (cpp : Nat) : List (List Char) → List (List Char) → Except String (List (List Char × Option RGBA))
  | [], _ => .ok []
  | line :: more, seen =>
    if line.length < cpp then .error "xpm-colour-line-short"
    else if seen.contains (line.take cpp) then .error "xpm-duplicate-colour-key"
    else match xpmColour (line.drop cpp) with
      | .error e => .error e
      | .ok col =>
        match xpmTable cpp more (line.take cpp :: seen) with
        | .error e => .error e
        | .ok t => .ok ((line.take cpp, col) :: t)

/-- the pixels of one row: `w` keys of `cpp` characters -/
def xpmRowPixels (table : List (List Char × Option RGBA)) : List (List Char) → Except String (List (Option RGBA))
  | [] => .ok []
  | key :: more =>
    match table.find? (fun e => e.1 == key) with
    | none => .error "xpm-undefined-key"
    | some e =>
      match xpmRowPixels table more with
      | .error e => .error e
      | .ok l => .ok (e.2 :: l)

def xpmRows (table : List (List Char × Option RGBA)) (w cpp : Nat) : List (List Char) → Except String (List (List (Option RGBA)))
  | [] => .ok []
  | row :: more =>
    if row.length != w * cpp then .error "xpm-row-length"
    else match xpmRowPixels table (chunks cpp w row) with
      | .error e => .error e
      | .ok r =>
        match xpmRows table w cpp more with
        | .error e => .error e
        | .ok l => .ok (r :: l)

/-- X PixMap (XPM3): `/* XPM */ static char *N[] = { "W H ncolors cpp", colours…, rows… };` -/
def readXpm (src name : List Char) : Except String Pic :=
  let toks := cTokens src
  if toks.any Tok.isBad then .error "xpm-token"
  else match toks with
    | .comment c :: rest =>
      if trimWs c != "XPM".toList then .error "xpm-magic-comment"
      else match xpmDecl name (rest.filter (fun t => !t.isComment)) with
        | .error e => .error e
        | .ok rest =>
          match xpmStrings rest with
          | .error e => .error e
          | .ok [] => .error "xpm-values-missing"
          | .ok (values :: strs) =>
            let nums := (splitChars (fun c => c == ' ') values []).map charsNat?
            match (match nums with
                   | [some w, some h, some nc, some cpp] => some (w, h, nc, cpp)
                   | [some w, some h, some nc, some cpp, some _, some _] => some (w, h, nc, cpp)
                   | _ => none) with
            | none => .error "xpm-values"
            | some (w, h, nc, cpp) =>
              if w == 0 || h == 0 || nc == 0 || cpp == 0 then .error "xpm-zero-value"
              else if strs.length != nc + h then .error "xpm-string-count"
              else match xpmTable cpp (strs.take nc) [] with
                | .error e => .error e
                | .ok table =>
                  match xpmRows table w cpp (strs.drop nc) with
                  | .error e => .error e
                  | .ok px => .ok { w := w, h := h, px := px }
    | _ => .error "xpm-magic-comment"

/-! ## text formats -/

/-- the lines of a text each of which is terminated by a line feed (`cur`: the line being read, reversed) -/
def linesT : List Char → List Char → Option (List (List Char))
  | [], cur => if cur.isEmpty then some [] else none
  | c :: r, cur =>
    if c == '\n' then
      match linesT r [] with
      | some l => some (cur.reverse :: l)
      | none => none
    else linesT r (c :: cur)

inductive AState where
  | text
  | esc                 -- after ESC
  | csi (code : Nat)    -- after ESC [ and the digits read so far
  deriving DecidableEq, Repr

/-- one line of an ANSI terminal picture: SGR sequences `ESC [ n m` (7 = reverse video, 27 = reverse off,
    0 = reset, 49 = default background); a cell is two spaces, light in reverse video, dark otherwise.
    `rev`: reverse video is on, `run`: spaces seen since the last sequence -/
def ansiRow : List Char → AState → Bool → Nat → Except String (List Nat)
  | [], st, _, run =>
    if st != .text then .error "ansi-escape-sequence" else if run % 2 != 0 then .error "ansi-odd-number-of-spaces" else .ok []
  | c :: r, .text, rev, run =>
    if c == '\x1b' then (if run % 2 != 0 then .error "ansi-odd-number-of-spaces" else ansiRow r .esc rev 0)
    else if c == ' ' then
      if (run + 1) % 2 == 0 then
        match ansiRow r .text rev (run + 1) with
        | .ok l => .ok ((if rev then 0 else 1) :: l)
        | .error e => .error e
      else ansiRow r .text rev (run + 1)
    else .error "ansi-character"
  | c :: r, .esc, rev, run => if c == '[' then ansiRow r (.csi 0) rev run else .error "ansi-character"
  | c :: r, .csi code, rev, run =>
    if c.isDigit then ansiRow r (.csi (code * 10 + (c.toNat - 48))) rev run
    else if c == 'm' then
      if code == 7 then ansiRow r .text true run
      else if code == 0 || code == 27 then ansiRow r .text false run
      else if code == 49 then ansiRow r .text rev run
      else .error "ansi-sgr-code"
    else .error "ansi-escape-sequence"

def mapExcept {α β : Type} (f : α → Except String β) : List α → Except String (List β)
  | [] => .ok []
  | x :: rest =>
    match f x with
    | .error e => .error e
    | .ok y =>
      match mapExcept f rest with
      | .error e => .error e
      | .ok l => .ok (y :: l)

/-- a picture from rows of 0 / 1 codes (all of one width) -/
def picOfRows (what : String) (rows : List (List Nat)) : Except String Pic :=
  let w := (rows.headD []).length
  if rows.any (fun r => r.length != w) then .error (what ++ "-ragged-lines")
  else .ok { w := w, h := rows.length, px := rows.map (fun r => r.map bw) }

def readAnsi (s : List Char) : Except String Pic :=
  match linesT s [] with
  | none => .error "ansi-last-line-not-terminated"
  | some lines =>
    match mapExcept (fun l => ansiRow l .text false 0) lines with
    | .error e => .error e
    | .ok rows => picOfRows "ansi" rows

/-- compact terminal: a character shows two modules (upper, lower); the block characters draw the LIGHT parts -/
def compactCell (c : Char) : Except String (Nat × Nat) :=
  if c == ' ' then .ok (1, 1) else if c == '▀' then .ok (0, 1) else if c == '▄' then .ok (1, 0) else if c == '█' then .ok (0, 0)
  else .error "compact-character"

/-- the two pixel rows of every text line -/
def compactRows : List (List Char) → Except String (List (List Nat))
  | [] => .ok []
  | line :: more =>
    match mapExcept compactCell line with
    | .error e => .error e
    | .ok cells =>
      match compactRows more with
      | .error e => .error e
      | .ok l => .ok (cells.map (·.1) :: cells.map (·.2) :: l)

def readCompact (s : List Char) : Except String Pic :=
  match linesT s [] with
  | none => .error "compact-last-line-not-terminated"
  | some lines =>
    match compactRows lines with
    | .error e => .error e
    | .ok rows => picOfRows "compact" rows

/-! ## PNG -/

def be32 (bs : List Nat) : Nat :=
  ((bs.getD 0 0 * 256 + bs.getD 1 0) * 256 + bs.getD 2 0) * 256 + bs.getD 3 0

/-- ISO 3309 / PNG CRC-32 of a list of bytes (bit by bit: `Spec.crc32Step`) -/
def crc32 (bs : List Nat) : Nat :=
  ((bs.foldl (fun c b => crc32Step c (UInt8.ofNat b)) 0xFFFFFFFF) ^^^ 0xFFFFFFFF).toNat

/-- Adler-32 (RFC 1950) -/
def adler32 (bs : List Nat) : Nat :=
  let p := bs.foldl (fun (s : Nat × Nat) b => ((s.1 + b) % 65521, (s.2 + (s.1 + b) % 65521) % 65521)) (1, 0)
  p.2 * 65536 + p.1

structure ChunkL where
  name : List Nat
  data : List Nat
  deriving DecidableEq, Repr

def isAlphaByte (c : Nat) : Bool := (65 ≤ c && c ≤ 90) || (97 ≤ c && c ≤ 122)

/-- the chunks behind the signature: length, name, data, CRC-32 of name and data — every CRC is verified -/
def pngChunks : Nat → List Nat → Except String (List ChunkL)
  | _, [] => .ok []
  | 0, _ :: _ => .error "png-truncated-chunk"
  | fuel + 1, bs =>
    if bs.length < 12 then .error "png-truncated-chunk"
    else
      let len := be32 bs
      if 12 + len > bs.length then .error "png-chunk-length-exceeds-file"
      else
        let name := (bs.drop 4).take 4
        let data := (bs.drop 8).take len
        if !name.all isAlphaByte then .error "png-chunk-name"
        else if crc32 (name ++ data) != be32 (bs.drop (8 + len)) then .error "png-crc"
        else match pngChunks fuel (bs.drop (12 + len)) with
          | .error e => .error e
          | .ok l => .ok ({ name := name, data := data } :: l)

def nIHDR : List Nat := [73, 72, 68, 82]
def nPLTE : List Nat := [80, 76, 84, 69]
def nIDAT : List Nat := [73, 68, 65, 84]
def nIEND : List Nat := [73, 69, 78, 68]
def ntRNS : List Nat := [116, 82, 78, 83]
def npHYs : List Nat := [112, 72, 89, 115]

/-- what the container of a PNG file holds -/
structure PngL where
  hdr : PngHeader
  plte : List RGBA              -- palette entries with their tRNS alpha
  greyTrans : Option Nat
  phys : Option (Nat × Nat × Nat)
  comp : List Nat               -- the concatenated data of the IDAT chunks
  deriving Repr

/-- undoes the scanline filter `ft` (one byte per pixel or less): `a` = the reconstructed byte to the left,
    `c` = the byte above that one -/
def unfilterGo (ft : Nat) : List Nat → List Nat → Nat → Nat → List Nat
  | [], _, _, _ => []
  | x :: raw, prev, a, c =>
    let b := prev.headD 0
    let v := match ft with
      | 0 => x
      | 1 => (x + a) % 256
      | 2 => (x + b) % 256
      | 3 => (x + (a + b) / 2) % 256
      | _ => (x + paeth a b c) % 256
    v % 256 :: unfilterGo ft raw prev.tail (v % 256) b

/-- the reconstructed scanlines of the inflated stream: `h` lines of a filter type byte and `rowBytes` bytes -/
def scanlines (rowBytes : Nat) : Nat → List Nat → List Nat → Except String (List (List Nat))
  | 0, _, _ => .ok []
  | h + 1, idat, prev =>
    let ft := idat.headD 0
    if ft > 4 then .error "png-filter-type"
    else
      let row := unfilterGo ft ((idat.drop 1).take rowBytes) prev 0 0
      match scanlines rowBytes h (idat.drop (rowBytes + 1)) row with
      | .error e => .error e
      | .ok l => .ok (row :: l)

/-- the container of a PNG file: signature, chunks with their CRCs, IHDR first, IEND last, chunk order,
    PLTE / tRNS / pHYs contents -/
def readPngContainer (f : List Nat) : Except String PngL :=
  if f.take 8 != [137, 80, 78, 71, 13, 10, 26, 10] then .error "png-signature"
  else match pngChunks f.length (f.drop 8) with
    | .error e => .error e
    | .ok cs =>
      let names := cs.map (·.name)
      match cs.head? with
      | none => .error "png-no-chunks"
      | some first =>
        if first.name != nIHDR || first.data.length != 13 then .error "png-ihdr-missing"
        else if names.getLast? != some nIEND || (cs.getLast?.map (·.data.length)) != some 0 then .error "png-iend-missing"
        else if (names.filter (· == nIHDR)).length != 1 || (names.filter (· == nIEND)).length != 1 then .error "png-duplicate-ihdr-iend"
        else
          let d := first.data
          let hdr : PngHeader := { width := be32 d, height := be32 (d.drop 4), depth := d.getD 8 0, ctype := d.getD 9 0 }
          if d.getD 10 0 != 0 || d.getD 11 0 != 0 then .error "png-compression-or-filter-method"
          else if d.getD 12 0 != 0 then .error "png-interlaced-not-supported"
          else if hdr.width == 0 || hdr.height == 0 then .error "png-zero-dimension"
          else if !(hdr.ctype == 0 || hdr.ctype == 3) then .error "png-colour-type-not-supported"
          else if !([1, 2, 4, 8].contains hdr.depth) then .error "png-bit-depth"
          else if names.any (fun n => !([nIHDR, nPLTE, nIDAT, nIEND].contains n) && (65 ≤ n.headD 97 && n.headD 97 ≤ 90)) then
            .error "png-unknown-critical-chunk"
          else
            let firstIdat := names.idxOf nIDAT
            if firstIdat ≥ names.length then .error "png-no-idat"
            else
              let nIdat := (names.filter (· == nIDAT)).length
              if ((names.drop firstIdat).take nIdat).any (· != nIDAT) then .error "png-idat-not-consecutive"
              else if [nPLTE, ntRNS, npHYs].any (fun n => (names.filter (· == n)).length > 1) then .error "png-duplicate-chunk"
              else if [nPLTE, ntRNS, npHYs].any (fun n => names.idxOf n < names.length && names.idxOf n > firstIdat) then .error "png-chunk-after-idat"
              else
                let plteData := (cs.find? (·.name == nPLTE)).map (·.data)
                if (match plteData with | some p => p.length % 3 != 0 || p.length == 0 | none => false) then .error "png-plte-length"
                else
                  let plteRaw := (chunks 3 ((plteData.getD []).length / 3) (plteData.getD []) : List (List Nat))
                  if hdr.ctype == 3 && plteRaw.isEmpty then .error "png-plte-missing"
                  else if hdr.ctype == 0 && !plteRaw.isEmpty then .error "png-plte-in-greyscale"
                  else if plteRaw.length > 2 ^ hdr.depth then .error "png-plte-larger-than-bit-depth"
                  else
                    let trns := (cs.find? (·.name == ntRNS)).map (·.data)
                    let bad : Option String := match trns with
                      | none => none
                      | some t =>
                        if hdr.ctype == 0 then
                          (if t.length != 2 then some "png-trns-length" else if t.getD 0 0 * 256 + t.getD 1 0 ≥ 2 ^ hdr.depth then some "png-trns-grey-out-of-range" else none)
                        else if t.length > plteRaw.length || t.length == 0 then some "png-trns-length"
                        else if names.idxOf ntRNS < names.idxOf nPLTE then some "png-trns-before-plte" else none
                    match bad with
                    | some e => .error e
                    | none =>
                      let greyTrans := if hdr.ctype == 0 then trns.map (fun t => t.getD 0 0 * 256 + t.getD 1 0) else none
                      let alphas := if hdr.ctype == 0 then [] else trns.getD []
                      let plte := plteRaw.zipIdx.map (fun (e, k) => (⟨e.getD 0 0, e.getD 1 0, e.getD 2 0, alphas.getD k 255⟩ : RGBA))
                      let physData := (cs.find? (·.name == npHYs)).map (·.data)
                      if (match physData with | some p => p.length != 9 | none => false) then .error "png-phys-length"
                      else
                        .ok { hdr := hdr, plte := plte, greyTrans := greyTrans,
                              phys := physData.map (fun p => (be32 p, be32 (p.drop 4), p.getD 8 0)),
                              comp := (cs.filter (·.name == nIDAT)).flatMap (·.data) }

/-- the colour of a sample -/
def pngColour (p : PngL) (code : Nat) : Option RGBA :=
  if p.hdr.ctype == 0 then
    let g := code * 255 / (2 ^ p.hdr.depth - 1)
    some ⟨g, g, g, if p.greyTrans == some code then 0 else 255⟩
  else p.plte[code]?

/-- reads a PNG file; `idat` is the inflated content of the IDAT data (inflating is a service of the
    caller; the zlib header and the Adler-32 check value are verified here) -/
def readPng (f idat : List Nat) : Except String (PngL × Pic) :=
  match readPngContainer f with
  | .error e => .error e
  | .ok p =>
    let comp := p.comp
    if comp.length < 6 then .error "png-idat-too-short"
    else if comp.getD 0 0 % 16 != 8 || comp.getD 0 0 / 16 > 7 || (comp.getD 0 0 * 256 + comp.getD 1 0) % 31 != 0 || comp.getD 1 0 / 32 % 2 != 0 then
      .error "png-zlib-header"
    else if adler32 idat != be32 (comp.drop (comp.length - 4)) then .error "png-zlib-adler32"
    else
      let rowBytes := (p.hdr.width * p.hdr.depth + 7) / 8
      if idat.length != p.hdr.height * (rowBytes + 1) then .error "png-idat-size"
      else match scanlines rowBytes p.hdr.height idat (List.replicate rowBytes 0) with
        | .error e => .error e
        | .ok rows =>
          .ok (p, { w := p.hdr.width, h := p.hdr.height,
                    px := rows.map (fun row => (unpackRow p.hdr.depth p.hdr.width row).map (pngColour p)) })

end Spec.L
