/-
  Spec.Sizing — C04 / C05 / C07 as stated: mode applicability, bit counts (ISO 7.4), admissible
  versions, smallest fitting version, highest fitting level.  Independent of the encoder model.
-/
import Spec.Decode

namespace Spec

/-! ### C07: mode applicability -/

def isDigit (b : Nat) : Bool := 48 ≤ b && b ≤ 57
def isAlnum (b : Nat) : Bool := alnumChars.any (fun c => c.toNat == b)

/-- valid double-byte Shift JIS character in 8140–9FFC / E040–EBBF (trail byte 40–FC except 7F) -/
def isKanjiPair (hi lo : Nat) : Bool :=
  let code := hi * 256 + lo
  ((0x8140 ≤ code && code ≤ 0x9ffc) || (0xe040 ≤ code && code ≤ 0xebbf)) && 0x40 ≤ lo && lo ≤ 0xfc && lo != 0x7f

/-- GB2312 character encodable in Hanzi mode: A1A1–AAFE / B0A1–FAFE with trail byte A1–FE -/
def isHanziPair (hi lo : Nat) : Bool :=
  let code := hi * 256 + lo
  ((0xa1a1 ≤ code && code ≤ 0xaafe) || (0xb0a1 ≤ code && code ≤ 0xfafe)) && 0xa1 ≤ lo && lo ≤ 0xfe

def allPairs (p : Nat → Nat → Bool) : List Nat → Bool
  | [] => true
  | [_] => false
  | a :: b :: rest => p a b && allPairs p rest

/-- can `data` be represented in `mode`? -/
def representable (mode : Nat) (data : List Nat) : Bool :=
  match mode with
  | 1 => !data.isEmpty && data.all isDigit
  | 2 => !data.isEmpty && data.all isAlnum
  | 4 => true
  | 8 => allPairs isKanjiPair data          -- empty content is (vacuously) representable
  | 13 => allPairs isHanziPair data
  | _ => false

/-- the automatically chosen mode: first applicable of numeric, alphanumeric, kanji (non-empty), byte -/
def autoMode (data : List Nat) : Nat :=
  if representable 1 data then 1 else if representable 2 data then 2
  else if !data.isEmpty && representable 8 data then 8 else 4

/-! ### bit counts -/

def charCount (mode : Nat) (nbytes : Nat) : Nat := if mode == 8 || mode == 13 then nbytes / 2 else nbytes

/-- payload bits of `count` characters -/
def payloadBits (mode count : Nat) : Nat :=
  match mode with
  | 1 => 10 * (count / 3) + (if count % 3 == 1 then 4 else if count % 3 == 2 then 7 else 0)
  | 2 => 11 * (count / 2) + 6 * (count % 2)
  | 4 => 8 * count
  | _ => 13 * count

structure SegInfo where
  mode : Nat
  count : Nat
  eci : Bool       -- preceded by an ECI header
  deriving Repr, BEq, Inhabited

/-- bits needed in version `v`; `none` if a mode is not available there -/
def neededBits (v : Int) (segs : List SegInfo) (sa : Bool) : Option Nat := do
  let per ← segs.mapM (fun s => do
    let w ← cciBits s.mode v
    pure (modeBits v + w + payloadBits s.mode s.count + (if s.eci then 12 else 0) + (if s.mode == 13 then 4 else 0)))
  pure (per.foldl (· + ·) 0 + (if sa then 20 else 0))

def versionOrder : List Int := [-3, -2, -1, 0] ++ (List.range 40).map (fun k => Int.ofNat k + 1)

/-- admissible versions in order: Micro only if micro ≠ false and no ECI requested (mode availability
    is part of `neededBits`); QR only if micro ≠ true; M1 only when no level is requested -/
def admissible (micro : Option Bool) (eciRequested : Bool) (reqLevel : Option Nat) (v : Int) : Bool :=
  if v < 1 then micro != some false && !eciRequested && (v != -3 || reqLevel.isNone)
  else micro != some true

/-- level used for sizing version v: the requested one, default L; none for M1 -/
def sizingLevel (reqLevel : Option Nat) (v : Int) : Int :=
  if v == -3 then -1 else match reqLevel with | some l => (l : Int) | none => 1

def fits (v : Int) (lvl : Int) (segs : List SegInfo) (sa : Bool) : Bool :=
  match capacityOf v lvl, neededBits v segs sa with
  | some cap, some need => need ≤ cap
  | _, _ => false

/-- C04: the first admissible version that holds the content, or none (= DataOverflowError) -/
def expectedVersion (micro : Option Bool) (eciRequested : Bool) (reqLevel : Option Nat) (segs : List SegInfo) (sa : Bool) : Option Int :=
  versionOrder.find? (fun v => admissible micro eciRequested reqLevel v && fits v (sizingLevel reqLevel v) segs sa)

/-- order of the levels L < M < Q < H as ranks -/
def levelRank (l : Int) : Nat := if l == 1 then 0 else if l == 0 then 1 else if l == 3 then 2 else if l == 2 then 3 else 0
def levelsAscending : List Int := [1, 0, 3, 2]

/-- C05: with boosting (single segment): the highest level defined for v, not below the request,
    whose capacity holds the content; without: exactly the requested / default level -/
def expectedLevel (v : Int) (reqLevel : Option Nat) (boost : Bool) (segs : List SegInfo) (sa : Bool) : Int :=
  let base := sizingLevel reqLevel v
  if !boost || segs.length != 1 || base == -1 then base else
  let cands := levelsAscending.filter (fun l => levelRank l ≥ levelRank base && fits v l segs sa)
  -- "highest level … whose data capacity still holds the content"
  (cands.getLast?).getD base

end Spec
