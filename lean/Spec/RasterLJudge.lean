/-
  Spec.RasterLJudge — judge command `c09l`: runs the list-level readers of Spec/RasterL.lean (the ones the
  theorems of Props/C09Docs.lean are stated for) side by side with the readers of Spec/Raster.lean (the
  ones that judge the real files) on one file and reports whether they agree: both refuse, or both accept
  with the same dimensions and the same colour for every pixel (PNG: also the same header fields, palette,
  tRNS grey value and pHYs).  `eq=ok` / `eq=<first difference>`.
-/
import Spec.RasterL
import Spec.RasterJudge

namespace Spec.RasterL

open Spec

def bytesOf (b : ByteArray) : List Nat := b.toList.map (·.toNat)

/-- first pixel on which the two decoded pictures differ -/
def comparePics (img : Img) (pic : L.Pic) : String := Id.run do
  if img.w != pic.w || img.h != pic.h then return s!"dimensions-{img.w}x{img.h}-vs-{pic.w}x{pic.h}"
  if pic.px.length != pic.h then return s!"list-reader-row-count-{pic.px.length}"
  let rows := pic.px.toArray.map (·.toArray)
  for y in [0:img.h] do
    let row := rows.getD y #[]
    if row.size != pic.w then return s!"list-reader-row-{y}-length-{row.size}"
    for x in [0:img.w] do
      if img.colour (img.sample x y) != row.getD x none then return s!"pixel-{x}-{y}"
  return "ok"

def verdict (a : Except String Img) (b : Except String L.Pic) : String :=
  match a, b with
  | .error _, .error _ => "ok both=refused"
  | .ok _, .error e => s!"list-reader-refuses-{e}"
  | .error e, .ok _ => s!"list-reader-accepts-judge-reader-refuses-{e}"
  | .ok img, .ok pic => let v := comparePics img pic; if v == "ok" then "ok both=accepted" else v

def handle (cmd : String) (r : Req) : Option String :=
  let id := r.getD "id" "?"
  match cmd with
  | "c09l" =>
    let fmt := r.getD "fmt" ""
    let file := byteArrayOfHex (r.getD "file" "")
    let name := stringOfHex (r.getD "name" "696d67")
    let text : Except String String := Raster.textOfHex (r.getD "file" "")
    let out : String :=
      match fmt with
      | "pbm" => verdict (readPbm file) (L.readPbm (bytesOf file))
      | "ppm" => verdict (readPpm file) (L.readPpm (bytesOf file))
      | "pam" => verdict (readPam file) (L.readPam (bytesOf file))
      | "xbm" => (match text with
        | .error _ => "ok both=not-utf8"
        | .ok t => verdict (readXbm t name) (L.readXbm t.toList name.toList))
      | "xpm" => (match text with
        | .error _ => "ok both=not-utf8"
        | .ok t => verdict (readXpm t name) (L.readXpm t.toList name.toList))
      | "ans" => (match text with
        | .error _ => "ok both=not-utf8"
        | .ok t => verdict (readAnsi t) (L.readAnsi t.toList))
      | "compact" => (match text with
        | .error _ => "ok both=not-utf8"
        | .ok t => verdict (readCompact t) (L.readCompact t.toList))
      | "txt" => (match text with
        | .error _ => "ok both=not-utf8"
        | .ok t =>
          if (linesTerminated t).map (·.map String.toList) == L.linesT t.toList [] then "ok" else "lines-differ")
      | "png" =>
        let idat := byteArrayOfHex (r.getD "idat" "")
        (match readPng file idat, L.readPng (bytesOf file) (bytesOf idat) with
        | .error _, .error _ => "ok both=refused"
        | .ok _, .error e => s!"list-reader-refuses-{e}"
        | .error e, .ok _ => s!"list-reader-accepts-judge-reader-refuses-{e}"
        | .ok p, .ok (q, pic) =>
          if p.hdr.width != q.hdr.width || p.hdr.height != q.hdr.height || p.hdr.depth != q.hdr.depth || p.hdr.ctype != q.hdr.ctype then "png-header-differs"
          else if !(p.plte == q.plte) then "png-palette-differs"
          else if p.greyTrans != q.greyTrans then "png-grey-trns-differs"
          else if p.phys != q.phys then "png-phys-differs"
          else let v := comparePics p.img pic; if v == "ok" then "ok both=accepted" else v)
      | f => s!"unknown-format-{f}"
    some s!"id={id} eq={out.replace " " " info="}"
  | _ => none

end Spec.RasterL
