/-
  Spec.Helpers — property C16: what the payloads of the `segno.helpers` factories must look like.
  Hand-written from the formats themselves (NTT docomo MeCard / ZXing WIFI syntax, RFC 2426 line
  structure, RFC 5870 `geo:`, RFC 6068 `mailto:`, EPC069-12 v002), over `List Char`.  Imports nothing
  generated.  The judge commands at the end evaluate these definitions on what the real Python code
  returned:

    wifi / mecard   the payload splits at unescaped `;` into exactly the supplied fields, in order,
                    each value recovered verbatim by removing the backslash escapes
    vcard           CRLF-terminated lines, no bare CR / LF, BEGIN / VERSION / one content line per
                    supplied value (documented property names, documented order) / END
    geo             `geo:<lat>,<lng>`, decimal numbers with at most 8 decimals, trailing zeros trimmed,
                    equal to the given numbers rounded to 8 decimals
    mailto          RFC 3986 characters only, `mailto:<to>[?k=v(&k=v)*]`, percent-decoded values = the inputs
    epc             EPC069-12 version 002 line layout, amount, character set, size, refusals
    c16sym          the symbol of a factory decodes to the payload (EPC: level M, version ≤ 13)
-/
import Spec.Judge
import Spec.HelperArgs

namespace Spec.Helpers

/-! ### splitting and unescaping -/

/-- `esc` = the previous character was an unescaped backslash (so this one is taken literally) -/
def splitAux (d : Char) : Bool → List Char → List (List Char)
  | _, [] => [[]]
  | true, c :: rest => consHead c (splitAux d false rest)
  | false, c :: rest =>
    if c = '\\' then consHead c (splitAux d true rest)
    else if c = d then [] :: splitAux d false rest
    else consHead c (splitAux d false rest)

/-- split at every `d` that is not escaped by a backslash; escapes stay in the pieces -/
def splitUnescaped (d : Char) (s : List Char) : List (List Char) := splitAux d false s

def unescapeAux : Bool → List Char → Option (List Char)
  | false, [] => some []
  | true, [] => none
  | true, c :: rest => (unescapeAux false rest).map (c :: ·)
  | false, c :: rest =>
    if c = '\\' then unescapeAux true rest else (unescapeAux false rest).map (c :: ·)

/-- remove backslash escapes (`\c` ↦ `c`); a dangling backslash is malformed -/
def unescape (s : List Char) : Option (List Char) := unescapeAux false s

def stripPrefix : List Char → List Char → Option (List Char)
  | [], s => some s
  | _ :: _, [] => none
  | p :: ps, c :: cs => if p = c then stripPrefix ps cs else none

def isPrefix (p s : List Char) : Bool := (stripPrefix p s).isSome

/-! ### WIFI and MeCard: `PREFIX:` field `;` field `;` … `;` [`;`] -/

abbrev Field := Str × Str      -- key, value (verbatim, as supplied)

/-- `KEY:escaped-value` ↦ (KEY, value) -/
def parseField (f : List Char) : Option Field :=
  match f.dropWhile (· ≠ ':') with
  | _ :: v => (unescape v).map (fun x => (f.takeWhile (· ≠ ':'), x))
  | [] => none

/-- The payload is `pfx`, then exactly the expected fields in order (each `KEY:value;` with the value
    recovered verbatim after removing the backslash escapes), then the empty terminating field(s). -/
def fieldsOk (pfx payload : List Char) (expected : List Field) : Bool :=
  match stripPrefix pfx payload with
  | none => false
  | some body =>
    let parts := splitUnescaped ';' body
    let n := expected.length
    (parts.drop n == [[]] || parts.drop n == [[], []]) && (parts.take n).map parseField == expected.map some

def Arg.values : Arg → List Str
  | .none => []
  | .str s => if s.isEmpty then [] else [s]
  | .list l => l

/-- `None` and the empty string mean "not supplied" -/
def optVal : Option Str → List Str
  | some s => if s.isEmpty then [] else [s]
  | none => []

def upperAscii (c : Char) : Char := if 'a' ≤ c ∧ c ≤ 'z' then Char.ofNat (c.toNat - 32) else c
def lowerAscii (c : Char) : Char := if 'A' ≤ c ∧ c ≤ 'Z' then Char.ofNat (c.toNat + 32) else c

/-- the authentication type is written in upper case, except the literal `nopass` -/
def wifiToken (s : Str) : Str := if s = ['n', 'o', 'p', 'a', 's', 's'] then s else s.map upperAscii

def wifiPrefix : Str := ['W', 'I', 'F', 'I', ':']
def mecardPrefix : Str := ['M', 'E', 'C', 'A', 'R', 'D', ':']

def wifiFields (a : WifiArgs) : List Field :=
  (optVal a.security).map (fun s => (['T'], wifiToken s))
  ++ [(['S'], a.ssid)]
  ++ (match a.password with | some p => [(['P'], p)] | none => [])
  ++ (if a.hidden then [(['H'], ['t', 'r', 'u', 'e'])] else [])

def commaJoin : List Str → Str
  | [] => []
  | [x] => x
  | x :: rest => x ++ ',' :: commaJoin rest

def mecardAdr (a : MecardArgs) : List Str :=
  [a.pobox, a.roomno, a.houseno, a.city, a.prefecture, a.zipcode, a.country].map (·.getD [])

def mecardFields (a : MecardArgs) : List Field :=
  [(['N'], a.name)]
  ++ (optVal a.reading).map (fun s => (['S', 'O', 'U', 'N', 'D'], s))
  ++ a.phone.values.map (fun s => (['T', 'E', 'L'], s))
  ++ a.videophone.values.map (fun s => (['T', 'E', 'L', 'A', 'V'], s))
  ++ a.email.values.map (fun s => (['E', 'M', 'A', 'I', 'L'], s))
  ++ (optVal a.nickname).map (fun s => (['N', 'I', 'C', 'K', 'N', 'A', 'M', 'E'], s))
  ++ (optVal a.birthday).map (fun s => (['B', 'D', 'A', 'Y'], s))
  ++ a.url.values.map (fun s => (['U', 'R', 'L'], s))
  ++ (if (mecardAdr a).all (·.isEmpty) then [] else [(['A', 'D', 'R'], commaJoin (mecardAdr a))])
  ++ (optVal a.memo).map (fun s => (['M', 'E', 'M', 'O'], s))

def wifiOk (payload : Str) (a : WifiArgs) : Bool := fieldsOk wifiPrefix payload (wifiFields a)
def mecardOk (payload : Str) (a : MecardArgs) : Bool := fieldsOk mecardPrefix payload (mecardFields a)

/-! ### vCard: line structure -/

/-- CRLF-terminated lines; `none` if a bare CR or a bare LF occurs.  The last element of the result is
    the text after the last CRLF (empty for a well-formed vCard). -/
def crlfAux : Bool → List Char → Option (List (List Char))
  | false, [] => some [[]]
  | true, [] => none
  | true, c :: rest => if c = '\n' then (crlfAux false rest).map ([] :: ·) else none
  | false, c :: rest =>
    if c = '\r' then crlfAux true rest
    else if c = '\n' then none
    else (crlfAux false rest).map (consHead c)

def crlfLines (s : List Char) : Option (List (List Char)) := crlfAux false s

def vBegin : Str := ['B', 'E', 'G', 'I', 'N', ':', 'V', 'C', 'A', 'R', 'D']
def vVersion : Str := ['V', 'E', 'R', 'S', 'I', 'O', 'N', ':', '3', '.', '0']
def vEnd : Str := ['E', 'N', 'D', ':', 'V', 'C', 'A', 'R', 'D']
def vTel : Str := ['T', 'E', 'L']
def vTelType (t : Str) : Str := vTel ++ [';', 'T', 'Y', 'P', 'E', '='] ++ t

def vcardAdr (a : VcardArgs) : List Str :=
  [a.pobox, a.street, a.city, a.region, a.zipcode, a.country].map (·.getD [])

/-- property names of the content lines, in the documented order, one per supplied value -/
def vcardNames (a : VcardArgs) : List Str :=
  [['N'], ['F', 'N']]
  ++ (optVal a.org).map (fun _ => ['O', 'R', 'G'])
  ++ a.email.values.map (fun _ => ['E', 'M', 'A', 'I', 'L'])
  ++ a.phone.values.map (fun _ => vTel)
  ++ a.fax.values.map (fun _ => vTelType ['F', 'A', 'X'])
  ++ a.videophone.values.map (fun _ => vTelType ['V', 'I', 'D', 'E', 'O'])
  ++ a.cellphone.values.map (fun _ => vTelType ['C', 'E', 'L', 'L'])
  ++ a.homephone.values.map (fun _ => vTelType ['H', 'O', 'M', 'E'])
  ++ a.workphone.values.map (fun _ => vTelType ['W', 'O', 'R', 'K'])
  ++ a.url.values.map (fun _ => ['U', 'R', 'L'])
  ++ a.title.values.map (fun _ => ['T', 'I', 'T', 'L', 'E'])
  ++ a.photoUri.values.map (fun _ => ['P', 'H', 'O', 'T', 'O', ';', 'V', 'A', 'L', 'U', 'E', '=', 'u', 'r', 'i'])
  ++ (optVal a.nickname).map (fun _ => ['N', 'I', 'C', 'K', 'N', 'A', 'M', 'E'])
  ++ (if (vcardAdr a).all (·.isEmpty) then [] else [['A', 'D', 'R']])
  ++ (optVal a.birthday).map (fun _ => ['B', 'D', 'A', 'Y'])
  ++ (if a.latTrue && a.lngTrue then [['G', 'E', 'O']] else [])
  ++ (optVal a.source).map (fun _ => ['S', 'O', 'U', 'R', 'C', 'E'])
  ++ (optVal a.memo).map (fun _ => ['N', 'O', 'T', 'E'])
  ++ (optVal a.rev).map (fun _ => ['R', 'E', 'V'])

/-- every supplied value occupies exactly one content line between BEGIN:VCARD and END:VCARD -/
def vcardLinesOk (lines : List (List Char)) (names : List Str) : Bool :=
  lines.take 2 == [vBegin, vVersion]
  && lines.drop (2 + names.length) == [vEnd, []]
  && (((lines.drop 2).take names.length).zip names).all (fun p => isPrefix (p.2 ++ [':']) p.1)

def vcardOk (payload : Str) (a : VcardArgs) : Bool :=
  match crlfLines payload with
  | none => false
  | some lines => vcardLinesOk lines (vcardNames a)

/-- the documented form of `birthday` / `rev` given as text: `YYYY-MM-DD` -/
def isPlainDate (s : Str) : Bool :=
  match s with
  | [a, b, c, d, m1, e, f, m2, g, h] =>
    isDigit a && isDigit b && isDigit c && isDigit d && m1 == '-' && isDigit e && isDigit f && m2 == '-' && isDigit g && isDigit h
  | _ => false

/-- a refusal with ValueError is in order if a date is not in the documented form or the geo
    information is incomplete -/
def vcardMayRefuse (a : VcardArgs) : Bool :=
  (optVal a.birthday).any (fun s => !isPlainDate s) || (optVal a.rev).any (fun s => !isPlainDate s)
  || (a.latTrue != a.lngTrue) || (a.lat.isSome != a.lng.isSome)

/-! ### numbers -/

/-- `[-]digits[.digits]` with 1..`k` decimals; result: sign, value · 10^k, "no trailing zero" -/
def parseFixed (k : Nat) (s : List Char) : Option (Bool × Nat × Bool) :=
  let neg := s.head? == some '-'
  let body := if neg then s.tail else s
  let ip := body.takeWhile (· ≠ '.')
  match parseDigits ip, body.dropWhile (· ≠ '.') with
  | some q, [] => some (neg, q * 10 ^ k, true)
  | some q, _ :: fr =>
    if fr.length > k then none else
    match parseDigits fr with
    | some f => some (neg, q * 10 ^ k + f * 10 ^ (k - fr.length), fr.getLast? != some '0')
    | none => none
  | none, _ => none

/-- `v` (in units of 10^-k, sign `neg`) is the number `x` rounded to `k` decimals (ties either way) -/
def isRounding (k : Nat) (neg : Bool) (v : Nat) (x : Rat') : Bool :=
  let sv : Int := if neg then -(v : Int) else v
  let sx : Int := if x.neg then -(x.num : Int) else x.num
  -- |sv/10^k - sx/den| ≤ 1/(2·10^k)   ⇔   2·|sv·den - sx·10^k| ≤ den
  x.den != 0 && 2 * (sv * x.den - sx * 10 ^ k).natAbs ≤ x.den

/-! ### geo URI -/

def geoPrefix : Str := ['g', 'e', 'o', ':']

def geoNumberOk (s : Str) (x : Rat') : Bool :=
  match parseFixed 8 s with
  | some (neg, v, trimmed) => trimmed && isRounding 8 neg v x
  | none => false

def geoOk (payload : Str) (lat lng : Rat') : Bool :=
  match stripPrefix geoPrefix payload with
  | none => false
  | some body =>
    match splitPlain ',' body with
    | [a, b] => geoNumberOk a lat && geoNumberOk b lng
    | _ => false

/-! ### mailto URI -/

def isAlnum (c : Char) : Bool := isDigit c || ('a' ≤ c && c ≤ 'z') || ('A' ≤ c && c ≤ 'Z')
def isUnreserved (c : Char) : Bool := isAlnum c || c == '-' || c == '.' || c == '_' || c == '~'
/-- characters that may appear raw in a mailto URI (RFC 6068: `#`, `[`, `]` and everything outside
    RFC 3986 must be percent-encoded) -/
def isUriChar (c : Char) : Bool :=
  isUnreserved c || ['!', '$', '\'', '(', ')', '*', '+', ',', ';', ':', '@', '/', '?', '&', '=', '%'].contains c

def hexNibble (c : Char) : Option Nat :=
  if isDigit c then some (c.toNat - 48)
  else if 'a' ≤ c && c ≤ 'f' then some (c.toNat - 87)
  else if 'A' ≤ c && c ≤ 'F' then some (c.toNat - 55) else none

/-- decoder state: literal text, after `%`, after `%` and the high nibble -/
inductive PctState where
  | lit
  | pct
  | hex (hi : Nat)

def pctAux : PctState → List Char → Option (List Nat)
  | .lit, [] => some []
  | .pct, [] => none
  | .hex _, [] => none
  | .lit, c :: rest =>
    if c = '%' then pctAux .pct rest
    else if c.toNat < 128 then (pctAux .lit rest).map (fun l => c.toNat :: l) else none
  | .pct, c :: rest =>
    match hexNibble c with
    | some x => pctAux (.hex x) rest
    | none => none
  | .hex x, c :: rest =>
    match hexNibble c with
    | some y => (pctAux .lit rest).map (fun l => (x * 16 + y) :: l)
    | none => none

/-- percent-decoding to bytes; `none` for a malformed triplet or a non-ASCII character -/
def pctDecode (s : List Char) : Option (List Nat) := pctAux .lit s

/-- UTF-8 (RFC 3629) of one scalar value -/
def utf8Char (c : Char) : List Nat :=
  let n := c.toNat
  if n < 0x80 then [n]
  else if n < 0x800 then [0xC0 + n / 64, 0x80 + n % 64]
  else if n < 0x10000 then [0xE0 + n / 4096, 0x80 + n / 64 % 64, 0x80 + n % 64]
  else [0xF0 + n / 262144, 0x80 + n / 4096 % 64, 0x80 + n / 64 % 64, 0x80 + n % 64]

def utf8 (s : Str) : List Nat := s.flatMap utf8Char

def Arg.multi : Arg → List Str
  | .none => []
  | .str s => if s.isEmpty then [] else [s]
  | .list l => l

def mailtoPrefix : Str := ['m', 'a', 'i', 'l', 't', 'o', ':']

/-- header fields the URI must carry, in the documented order -/
def mailtoHeaders (a : EmailArgs) : List (Str × List Nat) :=
  (if a.cc.multi.isEmpty then [] else [(['c', 'c'], utf8 (commaJoin a.cc.multi))])
  ++ (if a.bcc.multi.isEmpty then [] else [(['b', 'c', 'c'], utf8 (commaJoin a.bcc.multi))])
  ++ (match a.subject with | some s => [(['s', 'u', 'b', 'j', 'e', 'c', 't'], utf8 s)] | none => [])
  ++ (match a.body with | some s => [(['b', 'o', 'd', 'y'], utf8 s)] | none => [])

def parseHeader (h : Str) : Option (Str × List Nat) :=
  match h.dropWhile (· ≠ '=') with
  | _ :: v => (pctDecode v).map (fun b => (h.takeWhile (· ≠ '='), b))
  | [] => none

def mailtoOk (payload : Str) (a : EmailArgs) : Bool :=
  payload.all isUriChar &&
  match stripPrefix mailtoPrefix payload with
  | none => false
  | some rest =>
    let addr := rest.takeWhile (· ≠ '?')
    let hdrs := mailtoHeaders a
    pctDecode addr == some (utf8 (commaJoin a.to.multi))
    && (match rest.dropWhile (· ≠ '?') with
        | [] => hdrs.isEmpty
        | _ :: q => !hdrs.isEmpty && (splitPlain '&' q).map parseHeader == hdrs.map some)

/-- `to` must not be empty -/
def mailtoMustRefuse (a : EmailArgs) : Bool := a.to.multi.isEmpty

/-! ### EPC069-12 version 002 -/

/-- `str.isspace` of Python 3 -/
def pyIsSpace (c : Char) : Bool :=
  let n := c.toNat
  (9 ≤ n && n ≤ 13) || (28 ≤ n && n ≤ 32) || n == 133 || n == 160 || n == 5760 || (8192 ≤ n && n ≤ 8202)
  || n == 8232 || n == 8233 || n == 8239 || n == 8287 || n == 12288

def trim (s : Str) : Str := ((s.dropWhile pyIsSpace).reverse.dropWhile pyIsSpace).reverse
def eqTrim (a b : Str) : Bool := trim a == trim b

/-- the character sets of EPC069-12 in the order of their numbers 1..8 -/
def epcEncodings : List String :=
  ["utf-8", "iso-8859-1", "iso-8859-2", "iso-8859-4", "iso-8859-5", "iso-8859-7", "iso-8859-10", "iso-8859-15"]

def epcMinCents : Nat := 1
def epcMaxCents : Nat := 99999999999
def epcMaxBytes : Nat := 331

/-- `EUR` digits [`.` one or two digits] ↦ the amount in cents -/
def parseAmountCents (s : List Char) : Option Nat :=
  match stripPrefix ['E', 'U', 'R'] s with
  | none => none
  | some body =>
    if body.head? == some '-' then none else
    (parseFixed 2 body).map (fun r => r.2.1)

/-- requested character set number; `.error` = the request itself is invalid -/
def epcRequested (e : EpcEnc) : Except String (Option Nat) :=
  match e with
  | .none => .ok none
  | .num n => if 1 ≤ n && n ≤ 8 then .ok (some n.toNat) else .error "encoding-number-out-of-range"
  | .name s =>
    let i := epcEncodings.idxOf (String.ofList (s.map lowerAscii))
    if i < 8 then .ok (some (i + 1)) else .error "unknown-encoding-name"

/-- character set number for the data: the requested one, else the first of 2..8 that can represent
    the text, else 1 (UTF-8) -/
def epcCharset (req : Option Nat) (can : List Bool) : Nat :=
  match req with
  | some k => k
  | none => match (List.range 7).find? (fun j => can.getD (j + 1) false) with
    | some j => j + 2
    | none => 1

def utf8Len (s : Str) : Nat := (utf8 s).length

def amountText (cents : Nat) : Nat :=       -- length of the shortest EUR#.## text
  let q := cents / 100
  3 + (toString q).length + (if cents % 100 == 0 then 0 else if cents % 10 == 0 then 2 else 3)

/-- the documented limits, one entry per limit: (reason, violated?).  `tr` = judge the
    whitespace-trimmed values (the documentation does not say whether surrounding whitespace counts) -/
def epcChecks (tr : Bool) (a : EpcArgs) : List (String × Bool) :=
  let f : Option Str → Str := fun o => let s := o.getD []; if tr then trim s else s
  let name := f a.name; let iban := f a.iban; let text := f a.text; let ref := f a.reference
  let bic := f a.bic; let purpose := f a.purpose
  let req := epcRequested a.encoding
  let k := match req with | .ok r => epcCharset r a.can | .error _ => 1
  let fields := [bic, name, iban, purpose, ref] ++ (if text.isEmpty then [] else [text])
  let flen := (fields.map (fun s => if k == 1 then utf8Len s else s.length)).sum
  -- nearest cent, ties to even (what `'{:.2f}'.format(Decimal)` does; a half-up judge would count a longer text at x.y05)
  let cents := if a.amount.den == 0 then 0 else
    let q := 100 * a.amount.num / a.amount.den
    let r := 100 * a.amount.num % a.amount.den
    if 2 * r > a.amount.den then q + 1 else if 2 * r < a.amount.den then q else (if q % 2 == 0 then q else q + 1)
  -- BCD 002 k SCT + amount + one LF between consecutive lines
  let total := 3 + 3 + 1 + 3 + amountText cents + flen + (4 + fields.length)
  [("name-length", a.name.isNone || name.length < 1 || name.length > 70),
   ("iban-length", a.iban.isNone || iban.length < 5 || iban.length > 34),
   ("text-xor-reference", text.isEmpty == ref.isEmpty),
   ("text-length", text.length > 140),
   ("reference-length", ref.length > 35),
   ("bic-length", !bic.isEmpty && bic.length != 8 && bic.length != 11),
   ("purpose-length", !purpose.isEmpty && purpose.length != 4),
   ("amount-not-a-number", a.amount.den == 0),
   ("amount-below-minimum", (a.amount.neg && a.amount.num != 0) || 100 * a.amount.num < epcMinCents * a.amount.den),
   ("amount-above-maximum", 100 * a.amount.num > epcMaxCents * a.amount.den),
   ("encoding-request", match req with | .ok _ => false | .error _ => true),
   ("not-representable-in-the-character-set", !(a.can.getD (k - 1) false)),
   ("payload-exceeds-331-bytes", total > epcMaxBytes)]

/-- a limit violated however surrounding whitespace is counted: the call must be refused -/
def epcMustRefuse (a : EpcArgs) : Option String :=
  (((epcChecks false a).zip (epcChecks true a)).find? (fun p => p.1.2 && p.2.2)).map (·.1.1)

/-- no limit violated however surrounding whitespace is counted: the call must be accepted -/
def epcMustAccept (a : EpcArgs) : Bool :=
  (epcChecks false a).all (fun p => !p.2) && (epcChecks true a).all (fun p => !p.2)

def splitNat (d : Nat) : List Nat → List (List Nat)
  | [] => [[]]
  | c :: rest => if c = d then [] :: splitNat d rest else
    match splitNat d rest with
    | [] => [[c]]
    | h :: t => (c :: h) :: t

def padTo (n : Nat) (l : List Str) : List Str := l ++ List.replicate (n - l.length) []

/-- the accepted payload: `raw` bytes, `k` = declared character set (read from line 3 of `raw`),
    `dec` = `raw` decoded with character set `k` (runtime service) -/
def epcPayloadVerdict (raw : List Nat) (dec : Option Str) (a : EpcArgs) : String :=
  let g : Option Str → Str := fun o => o.getD []
  match epcRequested a.encoding with
  | .error e => s!"accepted-invalid-{e}"
  | .ok req =>
    let want := epcCharset req a.can
    let rawLines := splitNat 10 raw
    match rawLines[2]? with
    | none => "less-than-3-lines"
    | some l3 =>
      if l3 != [48 + want] then s!"character-set-line-{hexOfBytes l3}-expected-{want}"
      else if raw.length > epcMaxBytes then s!"payload-{raw.length}-bytes"
      else match dec with
      | none => "payload-not-decodable-in-declared-character-set"
      | some d =>
        let lines := splitPlain '\n' d
        if lines.length > 11 then s!"{lines.length}-lines"
        else match padTo 11 lines with
        | [l0, l1, l2, l3, bic, name, iban, amount, purpose, ref, text] =>
          if l0 != ['B', 'C', 'D'] then "service-tag"
          else if l1 != ['0', '0', '2'] then "version"
          else if l2 != [Char.ofNat (48 + want)] then "character-set"
          else if l3 != ['S', 'C', 'T'] then "identification"
          else if !eqTrim bic (g a.bic) then "bic"
          else if !eqTrim name (g a.name) then "name"
          else if !eqTrim iban (g a.iban) then "iban"
          else if !eqTrim purpose (g a.purpose) then "purpose"
          else if !eqTrim ref (g a.reference) then "reference"
          else if !eqTrim text (g a.text) then "text"
          else match parseAmountCents amount with
            | none => "amount-syntax"
            | some c =>
              if c < epcMinCents || c > epcMaxCents then "amount-range"
              else if !isRounding 2 false c a.amount then "amount-value"
              else "ok"
        | _ => "line-count"

def epcVerdict (outcome : String) (raw : List Nat) (dec : Option Str) (a : EpcArgs) : String :=
  if outcome == "ok" then
    match epcMustRefuse a with
    | some r => s!"accepted-invalid-{r}"
    | none => epcPayloadVerdict raw dec a
  else if outcome == "ValueError" then
    if epcMustAccept a then "refused-valid-input" else "ok"
  else s!"raised-{outcome}"

/-- why a `;`-delimited payload fails (diagnostics only; the verdict is `fieldsOk`) -/
def fieldsDiag (pfx payload : List Char) (expected : List Field) : String :=
  match stripPrefix pfx payload with
  | none => "prefix-missing"
  | some body =>
    let parts := splitUnescaped ';' body
    let n := expected.length
    if parts.length < n + 1 then s!"{parts.length - 1}-fields-before-the-end-expected-{n}"
    else
      match ((parts.take n).zip expected).zipIdx.find? (fun p => parseField p.1.1 != some p.1.2) with
      | some (p, i) => s!"field-{i}-{String.ofList p.2.1}-is-not-the-supplied-value"
      | none => s!"after-the-{n}-supplied-fields-{parts.length - n}-more-pieces-follow-(not-an-empty-terminator)"

def vcardDiag (payload : Str) (a : VcardArgs) : String :=
  match crlfLines payload with
  | none => "bare-CR-or-LF-inside-a-line"
  | some lines =>
    let names := vcardNames a
    if lines.length != names.length + 5 then s!"{lines.length - 1}-lines-expected-{names.length + 4}"
    else if lines.take 2 != [vBegin, vVersion] then "BEGIN/VERSION"
    else if lines.drop (2 + names.length) != [vEnd, []] then "END"
    else match (((lines.drop 2).take names.length).zip names).zipIdx.find? (fun p => !isPrefix (p.1.2 ++ [':']) p.1.1) with
      | some (p, i) => s!"content-line-{i}-is-not-{String.ofList p.2}"
      | none => "?"

/-- the symbol of a factory: decodes to exactly `exp`; EPC: level M, version 1..13 -/
def judgeSymbol (r : Req) : String :=
  let m := parseMatrix (r.getD "m" "")
  match decode m with
  | .error e => s!"header-{e}"
  | .ok d =>
    if d.badBlocks != 0 then s!"invalid-rs-blocks-{d.badBlocks}" else
    match d.parsed with
    | .error e => s!"parse-{e}"
    | .ok p =>
      let c01 := judgeC01 d.header.version p.segments [("-", bytesOfHex (r.getD "exp" ""))] false
      if c01 != "ok" then c01
      else if r.getD "epc" "0" == "1" then
        if d.header.level != 0 then s!"epc-level-{d.header.level}-not-M"
        else if d.header.version < 1 || d.header.version > 13 then s!"epc-version-{d.header.version}"
        else "ok"
      else if d.header.version < 1 then "micro-symbol"
      else "ok"

def handle (cmd : String) (r : Req) : Option String :=
  let id := r.getD "id" "?"
  let out := getStr r "out"
  let outcome := r.getD "outcome" "ok"
  let refused := outcome == "ValueError"
  let verdict (okRefuse : Bool) (mustRefuse : Bool) (ok : Bool) (diag : Unit → String) : String :=
    if outcome == "ok" then (if mustRefuse then "accepted-invalid-input" else if ok then "ok" else diag ())
    else if refused then (if okRefuse || mustRefuse then "ok" else "refused-valid-input")
    else s!"raised-{outcome}"
  match cmd with
  | "wifi" =>
    let a := wifiArgs r
    some s!"id={id} c16={verdict false false (wifiOk out a) (fun _ => fieldsDiag wifiPrefix out (wifiFields a))}"
  | "mecard" =>
    let a := mecardArgs r
    some s!"id={id} c16={verdict false false (mecardOk out a) (fun _ => fieldsDiag mecardPrefix out (mecardFields a))}"
  | "vcard" =>
    let a := vcardArgs r
    some s!"id={id} c16={verdict (vcardMayRefuse a) false (vcardOk out a) (fun _ => vcardDiag out a)}"
  | "geo" =>
    some s!"id={id} c16={verdict false false (geoOk out (parseRat (r.getD "lat" "0/0")) (parseRat (r.getD "lng" "0/0"))) (fun _ => "not-geo:lat,lng-with-the-given-numbers-to-8-decimals")}"
  | "mailto" =>
    let a := emailArgs r
    some s!"id={id} c16={verdict false (mailtoMustRefuse a) (mailtoOk out a) (fun _ => "not-a-mailto-URI-carrying-the-given-values")}"
  | "epc" =>
    let a := epcArgs r
    let dec := optStr (r.getD "dec" "-")
    some s!"id={id} c16={epcVerdict outcome (bytesOfHex (r.getD "raw" "")) dec a}"
  | "c16sym" => some s!"id={id} c16={judgeSymbol r}"
  | _ => none

end Spec.Helpers
