/-
  Spec.Raster — reference definitions for C09 (raster / text outputs depict the symbol with its
  quiet zone) and C11 (module iteration, module types, per-type colours), and readers of the file
  formats from their raw bytes: PNG (signature, chunks, CRC-32, IHDR / PLTE / tRNS / pHYs, zlib
  header + Adler-32 of the inflated stream supplied by the harness, scanline filters 0-4, bit depths
  1/2/4/8, greyscale / palette), PBM (P4, P1), PAM (P7), PPM (P6), XBM, XPM, TXT, ANSI terminal,
  compact terminal (half blocks).  Hand-written from the format specifications; imports nothing
  generated and nothing from the model.
-/
import Spec.Judge
import Spec.Css3

namespace Spec

/-! ## the expected picture -/

/-- value of pixel (x, y) of a picture of scale `s` and quiet zone `b` of a symbol whose module
    (i, j) (row, column) has value `at i j` (`at` is 0 outside the symbol):
    pixel (x, y) shows module (y div s − b, x div s − b), the quiet zone is light (0) -/
def pixelOf (cell : Nat → Nat → Nat) (s b x y : Nat) : Nat :=
  if b ≤ y / s ∧ b ≤ x / s then cell (y / s - b) (x / s - b) else 0

/-- module accessor of a matrix given as list of rows (0 outside) -/
def cellL (M : List (List Nat)) (i j : Nat) : Nat := (M.getD i []).getD j 0
/-- module accessor of a matrix given as array of rows (0 outside) -/
def cellA (M : Matrix) (i j : Nat) : Nat := (M.getD i #[]).getD j 0

/-- the expected pixel grid of a `w`×`h` symbol: ((h+2b)·s rows of (w+2b)·s pixels) -/
def grid (M : List (List Nat)) (w h s b : Nat) : List (List Nat) :=
  (List.range ((h + 2 * b) * s)).map (fun y => (List.range ((w + 2 * b) * s)).map (fun x => pixelOf (cellL M) s b x y))

/-- version of a symbol of `n`×`n` modules (`none`: not a symbol size) -/
def versionOfSize (n : Nat) : Option Int :=
  if 21 ≤ n ∧ n ≤ 177 ∧ (n - 17) % 4 == 0 then some (((n - 17) / 4 : Nat) : Int)
  else if 11 ≤ n ∧ n ≤ 17 ∧ (n - 9) % 2 == 0 then some ((((n - 9) / 2 : Nat) : Int) - 4)
  else none

/-- default quiet zone: 4 modules for QR Codes, 2 for Micro QR Codes -/
def defaultBorder (n : Nat) : Nat := if n < 21 then 2 else 4

/-- module type code ISO assigns to module (i, j) of a version `v` symbol with value `val` -/
def isoType (v : Int) (i j val : Nat) : Nat := typeCode (kind v i j) val

/-- expected verbose value of pixel (x, y): type code of the module shown, 18 in the quiet zone -/
def typeAt (v : Int) (n : Nat) (cell : Nat → Nat → Nat) (s b x y : Nat) : Nat :=
  if b ≤ y / s ∧ b ≤ x / s ∧ y / s - b < n ∧ x / s - b < n then
    isoType v (y / s - b) (x / s - b) (cell (y / s - b) (x / s - b))
  else typeQuietZone

/-- the expected verbose grid -/
def types (M : List (List Nat)) (v : Int) (s b : Nat) : List (List Nat) :=
  let n := size v
  (List.range ((n + 2 * b) * s)).map (fun y => (List.range ((n + 2 * b) * s)).map (fun x => typeAt v n (cellL M) s b x y))

/-- is the type code a dark variant?  (`type >> 8` non-zero) -/
def isDarkType (t : Nat) : Bool := t >>> 8 != 0

/-! ## decimal arguments (scale, border) as the caller wrote them -/

structure Dec where
  neg : Bool
  int : Nat            -- integer part of the absolute value
  fracNonZero : Bool   -- a non-zero digit after the decimal point
  isFloat : Bool       -- written with a decimal point
  deriving Repr, Inhabited

def parseDec (s : String) : Option Dec :=
  let (neg, body) := if s.startsWith "-" then (true, (s.drop 1).toString) else (false, s)
  match body.splitOn "." with
  | [a] => a.toNat?.map (fun n => { neg := neg, int := n, fracNonZero := false, isFloat := false })
  | [a, f] =>
    if f.toList.all Char.isDigit && f != "" then
      a.toNat?.map (fun n => { neg := neg, int := n, fracNonZero := f.toList.any (· != '0'), isFloat := true })
    else none
  | _ => none

/-- the scale the property prescribes: truncated to an integer, refused (`none`) if that is < 1 -/
def effectiveScale (d : Dec) : Option Nat := if d.neg || d.int < 1 then none else some d.int

/-- the border the property prescribes: default if absent, refused (`none`) if negative or fractional -/
def effectiveBorder (n : Nat) (d : Option Dec) : Option Nat :=
  match d with
  | none => some (defaultBorder n)
  | some d => if d.fracNonZero || (d.neg && d.int != 0) then none else some d.int

/-! ## colours -/

structure RGBA where
  r : Nat
  g : Nat
  b : Nat
  a : Nat
  deriving BEq, Repr, Inhabited

def RGBA.show (c : RGBA) : String := s!"{c.r}.{c.g}.{c.b}.{c.a}"

/-- what a colour argument means -/
inductive ColExp where
  | transparent                        -- `None`
  | exact (c : RGBA)                   -- opaque or with an integer alpha value
  | approx (r g b permille : Nat)      -- float alpha, given in 1/1000
  deriving Repr, Inhabited

def ColExp.accepts (e : ColExp) (c : RGBA) : Bool :=
  match e with
  | .transparent => c.a == 0
  | .exact x => x == c
  | .approx r g b k =>
    c.r == r && c.g == g && c.b == b &&
      (let x := c.a * 1000; let y := k * 255; (if x ≥ y then x - y else y - x) ≤ 500)

def ColExp.show : ColExp → String
  | .transparent => "transparent"
  | .exact c => c.show
  | .approx r g b k => s!"{r}.{g}.{b}.~{k}permille"

def ColExp.isOpaque : ColExp → Bool
  | .exact c => c.a == 255
  | .approx _ _ _ k => k == 1000
  | .transparent => false

def ColExp.rgb? : ColExp → Option (Nat × Nat × Nat)
  | .exact c => some (c.r, c.g, c.b)
  | .approx r g b _ => some (r, g, b)
  | .transparent => none

def hexDigit? (c : Char) : Option Nat :=
  if '0' ≤ c && c ≤ '9' then some (c.toNat - 48)
  else if 'a' ≤ c && c ≤ 'f' then some (c.toNat - 87)
  else if 'A' ≤ c && c ≤ 'F' then some (c.toNat - 55) else none

/-- `#RGB`, `#RGBA`, `#RRGGBB`, `#RRGGBBAA` (the `#` is optional) -/
def parseHexColour (s : String) : Option RGBA :=
  let cs := s.toList
  let cs := match cs with | '#' :: rest => rest | _ => cs
  match cs.mapM hexDigit? with
  | some [r, g, b] => some ⟨r * 17, g * 17, b * 17, 255⟩
  | some [r, g, b, a] => some ⟨r * 17, g * 17, b * 17, a * 17⟩
  | some [r1, r2, g1, g2, b1, b2] => some ⟨r1 * 16 + r2, g1 * 16 + g2, b1 * 16 + b2, 255⟩
  | some [r1, r2, g1, g2, b1, b2, a1, a2] => some ⟨r1 * 16 + r2, g1 * 16 + g2, b1 * 16 + b2, a1 * 16 + a2⟩
  | _ => none

def asciiLower (s : String) : String :=
  String.ofList (s.toList.map (fun c => if 'A' ≤ c && c ≤ 'Z' then Char.ofNat (c.toNat + 32) else c))

/-- a colour given as text: CSS3 colour keyword (case-insensitive) or hexadecimal notation -/
def parseColourString (s : String) : Option RGBA :=
  match css3Lookup (asciiLower s) with
  | some (r, g, b) => some ⟨r, g, b, 255⟩
  | none => parseHexColour s

def stringOfHex (h : String) : String :=
  match String.fromUTF8? (ByteArray.mk ((bytesOfHex h).toArray.map (fun (n : Nat) => n.toUInt8))) with
  | some s => s
  | none => "�"

/-- colour argument as sent by the harness: `-` (None), `s:<hex of the UTF-8 string>`,
    `t:r,g,b` / `t:r,g,b,a` (integers), `f:r,g,b,k` (float alpha k/1000).
    `none` = not a valid colour (the call has to be refused) -/
def parseColourArg (t : String) : Option ColExp :=
  if t == "-" then some .transparent
  else if t.startsWith "s:" then (parseColourString (stringOfHex (t.drop 2).toString)).map .exact
  else if t.startsWith "t:" then
    match ((t.drop 2).toString.splitOn ",").map String.toNat? with
    | [some r, some g, some b] => if r ≤ 255 && g ≤ 255 && b ≤ 255 then some (.exact ⟨r, g, b, 255⟩) else none
    | [some r, some g, some b, some a] =>
      if r ≤ 255 && g ≤ 255 && b ≤ 255 && a ≤ 255 then some (.exact ⟨r, g, b, a⟩) else none
    | _ => none
  else if t.startsWith "f:" then
    match ((t.drop 2).toString.splitOn ",").map String.toNat? with
    | [some r, some g, some b, some k] =>
      if r ≤ 255 && g ≤ 255 && b ≤ 255 && k ≤ 1000 then some (.approx r g b k) else none
    | _ => none
  else none

def black : RGBA := ⟨0, 0, 0, 255⟩
def white : RGBA := ⟨255, 255, 255, 255⟩

/-! ## byte-level helpers -/

def hexNib (c : UInt8) : Nat :=
  let n := c.toNat
  if 48 ≤ n && n ≤ 57 then n - 48 else if 97 ≤ n && n ≤ 102 then n - 87 else if 65 ≤ n && n ≤ 70 then n - 55 else 0

def byteArrayOfHex (s : String) : ByteArray := Id.run do
  let u := s.toUTF8
  let n := u.size / 2
  let mut out := ByteArray.emptyWithCapacity n
  for k in [0:n] do
    out := out.push (UInt8.ofNat (hexNib (u.get! (2 * k)) * 16 + hexNib (u.get! (2 * k + 1))))
  return out

def byteAt (b : ByteArray) (p : Nat) : Nat := if p < b.size then (b.get! p).toNat else 0

def be16 (b : ByteArray) (p : Nat) : Nat := byteAt b p * 256 + byteAt b (p + 1)
def be32 (b : ByteArray) (p : Nat) : Nat :=
  ((byteAt b p * 256 + byteAt b (p + 1)) * 256 + byteAt b (p + 2)) * 256 + byteAt b (p + 3)

/-- ISO 3309 / PNG CRC-32 (polynomial 0xEDB88320 reflected), bit by bit -/
def crc32Step (crc : UInt32) (byte : UInt8) : UInt32 := Id.run do
  let mut c := crc ^^^ byte.toUInt32
  for _ in [0:8] do
    c := if c &&& 1 == 1 then (c >>> 1) ^^^ 0xEDB88320 else c >>> 1
  return c

def crc32 (b : ByteArray) (start stop : Nat) : Nat := Id.run do
  let mut c : UInt32 := 0xFFFFFFFF
  for p in [start:stop] do
    c := crc32Step c (b.get! p)
  return (c ^^^ 0xFFFFFFFF).toNat

/-- Adler-32 (RFC 1950) -/
def adler32 (b : ByteArray) : Nat := Id.run do
  let mut s1 := 1
  let mut s2 := 0
  for p in [0:b.size] do
    s1 := (s1 + (b.get! p).toNat) % 65521
    s2 := (s2 + s1) % 65521
  return s2 * 65536 + s1

def asciiOf (b : ByteArray) (start len : Nat) : String :=
  String.ofList ((List.range len).map (fun k => Char.ofNat (byteAt b (start + k))))

def isWs (c : Nat) : Bool := c == 32 || c == 9 || c == 10 || c == 13 || c == 11 || c == 12
def isDigitB (c : Nat) : Bool := 48 ≤ c && c ≤ 57

/-- a decoded picture: `sample x y` is a code, `colour code` what the code means -/
structure Img where
  w : Nat
  h : Nat
  sample : Nat → Nat → Nat
  colour : Nat → Option RGBA
  ncodes : Nat := 0          -- > 0: codes are < ncodes (verdicts per code are tabulated)
  info : String := ""

/-! ## PNG -/

structure PngHeader where
  width : Nat
  height : Nat
  depth : Nat
  ctype : Nat
  deriving Repr, Inhabited

structure Chunk where
  name : String
  start : Nat
  len : Nat
  deriving Repr, Inhabited

/-- splits the file into chunks, checking lengths, chunk names and every CRC -/
def pngChunks (f : ByteArray) : Except String (List Chunk) := Id.run do
  if f.size < 8 || (List.range 8).map (byteAt f) != [137, 80, 78, 71, 13, 10, 26, 10] then
    return .error "png-signature"
  let mut p := 8
  let mut out : Array Chunk := #[]
  let mut bad : Option String := none
  let mut done := false
  for _ in [0:f.size] do
    if done || bad.isSome then break
    if p == f.size then
      done := true
    else if p + 12 > f.size then
      bad := some "png-truncated-chunk"
    else
      let len := be32 f p
      if p + 12 + len > f.size then
        bad := some "png-chunk-length-exceeds-file"
      else
        let name := asciiOf f (p + 4) 4
        if !(name.toList.all Char.isAlpha) then bad := some "png-chunk-name"
        else if crc32 f (p + 4) (p + 8 + len) != be32 f (p + 8 + len) then bad := some s!"png-crc-{name}"
        else
          out := out.push { name := name, start := p + 8, len := len }
          p := p + 12 + len
  match bad with
  | some e => return .error e
  | none => return .ok out.toList

def paeth (a b c : Nat) : Nat :=
  let p : Int := (a : Int) + b - c
  let pa := (p - a).natAbs
  let pb := (p - b).natAbs
  let pc := (p - c).natAbs
  if pa ≤ pb && pa ≤ pc then a else if pb ≤ pc then b else c

/-- undoes the scanline filter (bytes per pixel = 1: bit depth ≤ 8, one channel) -/
def unfilter (ft : Nat) (prev : ByteArray) (raw : ByteArray) (start len : Nat) : ByteArray := Id.run do
  let mut out := ByteArray.emptyWithCapacity len
  for k in [0:len] do
    let x := byteAt raw (start + k)
    let a := if k == 0 then 0 else byteAt out (k - 1)
    let b := byteAt prev k
    let c := if k == 0 then 0 else byteAt prev (k - 1)
    let v := match ft with
      | 0 => x
      | 1 => (x + a) % 256
      | 2 => (x + b) % 256
      | 3 => (x + (a + b) / 2) % 256
      | _ => (x + paeth a b c) % 256
    out := out.push (UInt8.ofNat v)
  return out

/-- PNG filter type 2 ("Up") on lists of bytes: Recon(x) = Filt(x) + Recon(b) mod 256 -/
def unfilterUp (raw prev : List Nat) : List Nat := List.zipWith (fun x p => (x + p) % 256) raw prev

/-- sample number `x` of a scanline, taken from the byte that holds it: bit depth `d`, most
    significant bits first -/
def sampleOfByte (d byte x : Nat) : Nat := (byte >>> (d * (8 / d - 1 - x % (8 / d)))) % (2 ^ d)

/-- sample `x` of an unfiltered scanline of bit depth `d` -/
def sampleOfRow (row : ByteArray) (d x : Nat) : Nat := sampleOfByte d (byteAt row (x / (8 / d))) x

/-- the `w` samples of a packed scanline given as a list of bytes (PNG depth `d`; PBM: `d` = 1) -/
def unpackRow (d w : Nat) (bytes : List Nat) : List Nat :=
  (List.range w).map (fun x => sampleOfByte d (bytes.getD (x / (8 / d)) 0) x)

/-- XBM: pixel `x` is bit `x mod 8` (least significant first) of byte `x div 8` -/
def xbmBit (byte x : Nat) : Nat := (byte >>> (x % 8)) % 2

def unpackRowXbm (w : Nat) (bytes : List Nat) : List Nat :=
  (List.range w).map (fun x => xbmBit (bytes.getD (x / 8) 0) x)

structure Png where
  hdr : PngHeader
  plte : List RGBA            -- palette entries with their tRNS alpha
  greyTrans : Option Nat      -- tRNS of a greyscale image
  phys : Option (Nat × Nat × Nat)
  rows : Array ByteArray

/-- reads a PNG file; `idat` is the inflated content of the concatenated IDAT chunks (inflating is
    done by the harness, the zlib header and the Adler-32 check value are verified here) -/
def readPng (f idat : ByteArray) : Except String Png := do
  let chunks ← pngChunks f
  let names := chunks.map (·.name)
  let some first := chunks.head? | throw "png-no-chunks"
  if first.name != "IHDR" || first.len != 13 then throw "png-ihdr-missing"
  if names.getLast? != some "IEND" || (chunks.getLast?.map (·.len)) != some 0 then throw "png-iend-missing"
  if (names.filter (· == "IHDR")).length != 1 || (names.filter (· == "IEND")).length != 1 then throw "png-duplicate-ihdr-iend"
  let s := first.start
  let hdr : PngHeader := { width := be32 f s, height := be32 f (s + 4), depth := byteAt f (s + 8), ctype := byteAt f (s + 9) }
  if byteAt f (s + 10) != 0 || byteAt f (s + 11) != 0 then throw "png-compression-or-filter-method"
  if byteAt f (s + 12) != 0 then throw "png-interlaced-not-supported"
  if hdr.width == 0 || hdr.height == 0 then throw "png-zero-dimension"
  if !(hdr.ctype == 0 || hdr.ctype == 3) then throw s!"png-colour-type-{hdr.ctype}-not-supported"
  if !([1, 2, 4, 8].contains hdr.depth) then throw s!"png-bit-depth-{hdr.depth}"
  -- unknown critical chunks
  if names.any (fun n => !(["IHDR", "PLTE", "IDAT", "IEND"].contains n) && (n.toList.headD 'a').isUpper) then
    throw "png-unknown-critical-chunk"
  -- order: PLTE / tRNS / pHYs before the first IDAT, IDAT chunks consecutive
  let idx (n : String) : Option Nat := let k := names.idxOf n; if k < names.length then some k else none
  let some firstIdat := idx "IDAT" | throw "png-no-idat"
  let idatIdx := (names.zipIdx.filter (·.1 == "IDAT")).map (·.2)
  if idatIdx != (List.range idatIdx.length).map (· + firstIdat) then throw "png-idat-not-consecutive"
  for n in ["PLTE", "tRNS", "pHYs"] do
    if (names.filter (· == n)).length > 1 then throw s!"png-duplicate-{n}"
    match idx n with
    | some k => if k > firstIdat then throw s!"png-{n}-after-idat"
    | none => pure ()
  -- palette
  let plteRaw ← match chunks.find? (·.name == "PLTE") with
    | some c =>
      if c.len % 3 != 0 || c.len == 0 then throw "png-plte-length"
      else pure ((List.range (c.len / 3)).map (fun k => (byteAt f (c.start + 3 * k), byteAt f (c.start + 3 * k + 1), byteAt f (c.start + 3 * k + 2))))
    | none => pure []
  if hdr.ctype == 3 && plteRaw.isEmpty then throw "png-plte-missing"
  if hdr.ctype == 0 && !plteRaw.isEmpty then throw "png-plte-in-greyscale"
  if plteRaw.length > 2 ^ hdr.depth then throw "png-plte-larger-than-bit-depth"
  let mut greyTrans : Option Nat := none
  let mut alphas : List Nat := []
  match chunks.find? (·.name == "tRNS") with
  | some c =>
    if hdr.ctype == 0 then
      if c.len != 2 then throw "png-trns-length"
      if be16 f c.start ≥ 2 ^ hdr.depth then throw "png-trns-grey-out-of-range"
      greyTrans := some (be16 f c.start)
    else
      if c.len > plteRaw.length || c.len == 0 then throw "png-trns-length"
      match idx "PLTE", idx "tRNS" with
      | some a, some b => if b < a then throw "png-trns-before-plte"
      | _, _ => pure ()
      alphas := (List.range c.len).map (fun k => byteAt f (c.start + k))
  | none => pure ()
  let plte := plteRaw.zipIdx.map (fun ((r, g, b), k) => (⟨r, g, b, alphas.getD k 255⟩ : RGBA))
  let phys ← match chunks.find? (·.name == "pHYs") with
    | some c => if c.len != 9 then throw "png-phys-length" else pure (some (be32 f c.start, be32 f (c.start + 4), byteAt f (c.start + 8)))
    | none => pure none
  -- zlib container of the IDAT data: header, check value of the inflated stream
  let comp := (chunks.filter (·.name == "IDAT")).foldl (fun acc c => acc ++ f.extract c.start (c.start + c.len)) ByteArray.empty
  if comp.size < 6 then throw "png-idat-too-short"
  if byteAt comp 0 % 16 != 8 || byteAt comp 0 / 16 > 7 || (byteAt comp 0 * 256 + byteAt comp 1) % 31 != 0 || byteAt comp 1 / 32 % 2 != 0 then
    throw "png-zlib-header"
  if adler32 idat != be32 comp (comp.size - 4) then throw "png-zlib-adler32"
  -- scanlines
  let rowBytes := (hdr.width * hdr.depth + 7) / 8
  if idat.size != hdr.height * (rowBytes + 1) then throw s!"png-idat-size-{idat.size}-expected-{hdr.height * (rowBytes + 1)}"
  let mut rows : Array ByteArray := Array.emptyWithCapacity hdr.height
  let mut prev := ByteArray.mk (Array.replicate rowBytes 0)
  for y in [0:hdr.height] do
    let ft := byteAt idat (y * (rowBytes + 1))
    if ft > 4 then throw s!"png-filter-type-{ft}"
    let row := unfilter ft prev idat (y * (rowBytes + 1) + 1) rowBytes
    rows := rows.push row
    prev := row
  return { hdr := hdr, plte := plte, greyTrans := greyTrans, phys := phys, rows := rows }

def Png.img (p : Png) : Img :=
  let d := p.hdr.depth
  let plte := p.plte.toArray
  { w := p.hdr.width, h := p.hdr.height,
    sample := fun x y => sampleOfRow (p.rows.getD y ByteArray.empty) d x,
    colour := fun code =>
      if p.hdr.ctype == 0 then
        let g := code * 255 / (2 ^ d - 1)
        some ⟨g, g, g, if p.greyTrans == some code then 0 else 255⟩
      else plte[code]?,
    ncodes := 2 ^ d,
    info := s!"depth={d} ctype={p.hdr.ctype} plte={p.plte.length}" }

/-! ## Netpbm: PBM (P4, P1), PPM (P6), PAM (P7) -/

/-- skips white space and `#` comments (to the end of the line) -/
def skipWsComments (f : ByteArray) (p : Nat) : Nat := Id.run do
  let mut q := p
  let mut inComment := false
  for _ in [p:f.size] do
    let c := byteAt f q
    if q ≥ f.size then break
    if inComment then
      if c == 10 || c == 13 then inComment := false
      q := q + 1
    else if c == 35 then
      inComment := true
      q := q + 1
    else if isWs c then q := q + 1
    else break
  return q

/-- reads an unsigned decimal number at `p` (after white space / comments); returns value and end -/
def readNumber (f : ByteArray) (p : Nat) : Option (Nat × Nat) := Id.run do
  let mut q := skipWsComments f p
  let start := q
  let mut v := 0
  for _ in [start:f.size] do
    let c := byteAt f q
    if q < f.size && isDigitB c then
      v := v * 10 + (c - 48)
      q := q + 1
    else break
  if q == start then return none
  -- a number must be followed by white space (so `45.9` is not read as 45)
  if q < f.size && !isWs (byteAt f q) then return none
  return some (v, q)

def readPbm (f : ByteArray) : Except String Img := do
  if f.size < 2 || byteAt f 0 != 80 then throw "pbm-magic"
  let kind := byteAt f 1
  if kind != 52 && kind != 49 then throw "pbm-magic"
  if !isWs (byteAt f 2) then throw "pbm-magic"
  let some (w, p1) := readNumber f 2 | throw "pbm-header-width"
  let some (h, p2) := readNumber f p1 | throw "pbm-header-height"
  if w == 0 || h == 0 then throw "pbm-zero-dimension"
  if kind == 52 then
    let start := p2 + 1
    let rowBytes := (w + 7) / 8
    if f.size != start + rowBytes * h then throw s!"pbm-raster-size-{f.size - start}-expected-{rowBytes * h}"
    return { w := w, h := h, sample := fun x y => sampleOfByte 1 (byteAt f (start + y * rowBytes + x / 8)) x,
             colour := fun c => if c == 1 then some black else some white, ncodes := 2, info := "P4" }
  else
    let mut bits := ByteArray.emptyWithCapacity (w * h)
    for q in [p2:f.size] do
      let c := byteAt f q
      if c == 48 || c == 49 then bits := bits.push (UInt8.ofNat (c - 48))
      else if !isWs c then throw s!"pbm-plain-raster-character-{c}"
    if bits.size != w * h then throw s!"pbm-raster-size-{bits.size}-expected-{w * h}"
    return { w := w, h := h, sample := fun x y => byteAt bits (y * w + x),
             colour := fun c => if c == 1 then some black else some white, ncodes := 2, info := "P1" }

def readPpm (f : ByteArray) : Except String Img := do
  if f.size < 3 || byteAt f 0 != 80 || byteAt f 1 != 54 || !isWs (byteAt f 2) then throw "ppm-magic"
  let some (w, p1) := readNumber f 2 | throw "ppm-header-width"
  let some (h, p2) := readNumber f p1 | throw "ppm-header-height"
  let some (mx, p3) := readNumber f p2 | throw "ppm-header-maxval"
  if w == 0 || h == 0 then throw "ppm-zero-dimension"
  if mx == 0 || mx > 255 then throw s!"ppm-maxval-{mx}"
  let start := p3 + 1
  if f.size != start + 3 * w * h then throw s!"ppm-raster-size-{f.size - start}-expected-{3 * w * h}"
  return { w := w, h := h,
           sample := fun x y => let q := start + 3 * (y * w + x); (byteAt f q * 256 + byteAt f (q + 1)) * 256 + byteAt f (q + 2),
           colour := fun c =>
             let r := c / 65536; let g := c / 256 % 256; let b := c % 256
             if r > mx || g > mx || b > mx || r * 255 % mx != 0 || g * 255 % mx != 0 || b * 255 % mx != 0 then none
             else some ⟨r * 255 / mx, g * 255 / mx, b * 255 / mx, 255⟩,
           info := s!"P6 maxval={mx}" }

/-- the text lines of `f` from `p` up to and including the line `ENDHDR`; returns the lines and the
    offset of the raster -/
def pamHeaderLines (f : ByteArray) (p : Nat) : Option (List String × Nat) := Id.run do
  let mut lines : Array String := #[]
  let mut cur : List Char := []
  let mut q := p
  for _ in [p:f.size] do
    if q ≥ f.size then break
    let c := byteAt f q
    q := q + 1
    if c == 10 then
      let line := String.ofList cur.reverse
      cur := []
      if line == "ENDHDR" then return some (lines.toList, q)
      lines := lines.push line
    else cur := Char.ofNat c :: cur
  return none

def readPam (f : ByteArray) : Except String Img := do
  if f.size < 3 || byteAt f 0 != 80 || byteAt f 1 != 55 || byteAt f 2 != 10 then throw "pam-magic"
  let some (lines, start) := pamHeaderLines f 3 | throw "pam-endhdr-missing"
  let mut ow : Option Nat := none
  let mut oh : Option Nat := none
  let mut odepth : Option Nat := none
  let mut maxval : Option Nat := none
  let mut tupl : String := ""
  for line in lines do
    let toks := (line.splitOn " ").filter (· != "")
    match toks with
    | [] => pure ()
    | key :: rest =>
      if key.startsWith "#" then pure ()
      else if key == "TUPLTYPE" then tupl := if tupl == "" then " ".intercalate rest else tupl ++ " " ++ " ".intercalate rest
      else
        let val ← match rest with
          | [v] => match v.toNat? with | some n => pure n | none => throw s!"pam-header-{key}-not-a-number"
          | _ => throw s!"pam-header-{key}"
        let dup (o : Option Nat) : Except String Unit := if o.isSome then throw s!"pam-header-duplicate-{key}" else pure ()
        if key == "WIDTH" then dup ow; ow := some val
        else if key == "HEIGHT" then dup oh; oh := some val
        else if key == "DEPTH" then dup odepth; odepth := some val
        else if key == "MAXVAL" then dup maxval; maxval := some val
        else throw s!"pam-header-unknown-{key}"
  let some w := ow | throw "pam-width-missing"
  let some h := oh | throw "pam-height-missing"
  let some depth := odepth | throw "pam-depth-missing"
  let some mx := maxval | throw "pam-maxval-missing"
  if w == 0 || h == 0 || depth == 0 then throw "pam-zero-dimension"
  if mx == 0 || mx > 255 then throw s!"pam-maxval-{mx}"
  let wantDepth := match tupl with
    | "BLACKANDWHITE" => some 1 | "GRAYSCALE" => some 1 | "RGB" => some 3
    | "BLACKANDWHITE_ALPHA" => some 2 | "GRAYSCALE_ALPHA" => some 2 | "RGB_ALPHA" => some 4
    | _ => none
  let some wd := wantDepth | throw s!"pam-tupltype-{tupl}"
  if wd != depth then throw s!"pam-depth-{depth}-for-{tupl}"
  if tupl.startsWith "BLACKANDWHITE" && mx != 1 then throw "pam-blackandwhite-maxval"
  if f.size != start + w * h * depth then throw s!"pam-raster-size-{f.size - start}-expected-{w * h * depth}"
  let scale (v : Nat) : Option Nat := if v > mx || v * 255 % mx != 0 then none else some (v * 255 / mx)
  return { w := w, h := h,
           sample := fun x y =>
             let q := start + depth * (y * w + x)
             (List.range depth).foldl (fun acc k => acc * 256 + byteAt f (q + k)) 0,
           colour := fun c =>
             let comp (k : Nat) : Nat := c / 256 ^ (depth - 1 - k) % 256
             if depth ≤ 2 then
               (scale (comp 0)).bind (fun g => (if depth == 2 then scale (comp 1) else some 255).map (fun a => (⟨g, g, g, a⟩ : RGBA)))
             else
               (scale (comp 0)).bind (fun r => (scale (comp 1)).bind (fun g => (scale (comp 2)).bind (fun b =>
                 (if depth == 4 then scale (comp 3) else some 255).map (fun a => (⟨r, g, b, a⟩ : RGBA))))),
           info := s!"P7 {tupl} depth={depth} maxval={mx}" }

/-! ## C-source formats: XBM, XPM -/

inductive CTok where
  | ident (s : String)
  | num (n : Nat)
  | str (s : String)
  | punct (c : Char)
  | comment (s : String)
  | bad (s : String)
  deriving Repr, BEq, Inhabited

def isIdentStart (c : Char) : Bool := c.isAlpha || c == '_'
def isIdentChar (c : Char) : Bool := c.isAlphanum || c == '_'

/-- a small C tokenizer: identifiers, decimal / hexadecimal numbers, string literals (no escapes
    other than `\\` and `\"`), `/* */` comments, single-character punctuation -/
def cTokens (src : String) : List CTok :=
  let rec go (fuel : Nat) (cs : List Char) (acc : Array CTok) : Array CTok :=
    match fuel with
    | 0 => acc
    | fuel + 1 =>
      match cs with
      | [] => acc
      | c :: rest =>
        if c == ' ' || c == '\n' || c == '\t' || c == '\r' then go fuel rest acc
        else if c == '/' && rest.head? == some '*' then
          let rec comment (k : Nat) (r : List Char) (body : List Char) : List Char × List Char :=
            match k, r with
            | 0, _ => (body.reverse, [])
            | _, [] => (body.reverse, [])
            | k + 1, '*' :: '/' :: r' => let _ := k; (body.reverse, r')
            | k + 1, x :: r' => comment k r' (x :: body)
          let (body, r') := comment rest.length rest.tail []
          go fuel r' (acc.push (.comment (String.ofList body)))
        else if c == '"' then
          let rec str (k : Nat) (r : List Char) (body : List Char) : Option (List Char × List Char) :=
            match k, r with
            | 0, _ => none
            | _, [] => none
            | _ + 1, '"' :: r' => some (body.reverse, r')
            | k + 1, '\\' :: x :: r' => str k r' (x :: body)
            | k + 1, x :: r' => str k r' (x :: body)
          match str (rest.length + 1) rest [] with
          | some (body, r') => go fuel r' (acc.push (.str (String.ofList body)))
          | none => acc.push (.bad "unterminated-string")
        else if c.isDigit then
          if c == '0' && (rest.head? == some 'x' || rest.head? == some 'X') then
            let ds := rest.tail.takeWhile (fun x => (hexDigit? x).isSome)
            if ds.isEmpty then acc.push (.bad "hex-number")
            else go fuel (rest.tail.drop ds.length) (acc.push (.num (ds.foldl (fun a x => a * 16 + (hexDigit? x).getD 0) 0)))
          else
            let ds := (c :: rest).takeWhile Char.isDigit
            let r' := (c :: rest).drop ds.length
            -- `17.0` is not an integer
            if r'.head? == some '.' then acc.push (.bad "decimal-point-in-number")
            else go fuel r' (acc.push (.num (ds.foldl (fun a x => a * 10 + (x.toNat - 48)) 0)))
        else if isIdentStart c then
          let ds := (c :: rest).takeWhile isIdentChar
          go fuel ((c :: rest).drop ds.length) (acc.push (.ident (String.ofList ds)))
        else go fuel rest (acc.push (.punct c))
  (go (src.length + 1) src.toList #[]).toList

def dropSuffix? (s suffix : String) : Option String :=
  if s.endsWith suffix then some (s.dropEnd suffix.length).toString else none

/-- X BitMap: `#define N_width W`, `#define N_height H`, `static [unsigned] char N_bits[] = { … };`
    bit k of byte m of a row (least significant first) is pixel 8m+k; 1 = foreground -/
def readXbm (src : String) (name : String) : Except String Img := do
  let toks := (cTokens src).filter (fun t => match t with | .comment _ => false | _ => true)
  match toks.find? (fun t => match t with | .bad _ => true | _ => false) with
  | some (.bad e) => throw s!"xbm-token-{e}"
  | _ => pure ()
  let (w, h, rest) ← match toks with
    | .punct '#' :: .ident "define" :: .ident a :: .num w :: .punct '#' :: .ident "define" :: .ident b :: .num h :: rest =>
      if dropSuffix? a "_width" != some name then throw s!"xbm-width-identifier-{a}"
      else if dropSuffix? b "_height" != some name then throw s!"xbm-height-identifier-{b}"
      else pure (w, h, rest)
    | _ => throw "xbm-defines"
  let rest ← match rest with
    | .ident "static" :: .ident "unsigned" :: .ident "char" :: .ident c :: .punct '[' :: .punct ']' :: .punct '=' :: .punct '{' :: rest
    | .ident "static" :: .ident "char" :: .ident c :: .punct '[' :: .punct ']' :: .punct '=' :: .punct '{' :: rest =>
      if dropSuffix? c "_bits" != some name then throw s!"xbm-bits-identifier-{c}" else pure rest
    | _ => throw "xbm-declaration"
  if w == 0 || h == 0 then throw "xbm-zero-dimension"
  -- numbers separated by commas, optional trailing comma, then `}` `;`
  let mut bytes := ByteArray.emptyWithCapacity (h * ((w + 7) / 8))
  let mut cur := rest
  let mut closed := false
  for _ in [0:rest.length + 1] do
    match cur with
    | .num n :: .punct ',' :: more => if n > 255 then throw "xbm-byte-out-of-range" else bytes := bytes.push (UInt8.ofNat n); cur := more
    | .num n :: .punct '}' :: .punct ';' :: [] => if n > 255 then throw "xbm-byte-out-of-range" else bytes := bytes.push (UInt8.ofNat n); closed := true; cur := []
    | .punct '}' :: .punct ';' :: [] => closed := true; cur := []
    | [] => break
    | _ => throw "xbm-array-syntax"
  if !closed then throw "xbm-array-not-closed"
  let rowBytes := (w + 7) / 8
  if bytes.size != rowBytes * h then throw s!"xbm-array-size-{bytes.size}-expected-{rowBytes * h}"
  return { w := w, h := h, sample := fun x y => xbmBit (byteAt bytes (y * rowBytes + x / 8)) x,
           colour := fun c => if c == 1 then some black else some white, ncodes := 2, info := "xbm" }

/-- X PixMap (XPM3): `/* XPM */ static char *N[] = { "W H ncolors cpp", colours…, rows… };` -/
def readXpm (src : String) (name : String) : Except String Img := do
  let toks := cTokens src
  match toks.find? (fun t => match t with | .bad _ => true | _ => false) with
  | some (.bad e) => throw s!"xpm-token-{e}"
  | _ => pure ()
  let rest ← match toks with
    | .comment c :: rest => if c.trimAscii.toString == "XPM" then pure rest else throw "xpm-magic-comment"
    | _ => throw "xpm-magic-comment"
  let rest := rest.filter (fun t => match t with | .comment _ => false | _ => true)
  let rest ← match rest with
    | .ident "static" :: .ident "char" :: .punct '*' :: .ident n :: .punct '[' :: .punct ']' :: .punct '=' :: .punct '{' :: rest
    | .ident "static" :: .ident "const" :: .ident "char" :: .punct '*' :: .ident n :: .punct '[' :: .punct ']' :: .punct '=' :: .punct '{' :: rest =>
      if n != name then throw s!"xpm-identifier-{n}" else pure rest
    | _ => throw "xpm-declaration"
  let mut strs : Array String := #[]
  let mut cur := rest
  let mut closed := false
  for _ in [0:rest.length + 1] do
    match cur with
    | .str s :: .punct ',' :: more => strs := strs.push s; cur := more
    | .str s :: .punct '}' :: .punct ';' :: [] => strs := strs.push s; closed := true; cur := []
    | .punct '}' :: .punct ';' :: [] => closed := true; cur := []
    | [] => break
    | _ => throw "xpm-array-syntax"
  if !closed then throw "xpm-array-not-closed"
  let some values := strs[0]? | throw "xpm-values-missing"
  let (w, h, nc, cpp) ← match ((values.splitOn " ").filter (· != "")).map String.toNat? with
    | [some w, some h, some nc, some cpp] => pure (w, h, nc, cpp)
    | [some w, some h, some nc, some cpp, some _, some _] => pure (w, h, nc, cpp)
    | _ => throw s!"xpm-values-{values}"
  if w == 0 || h == 0 || nc == 0 || cpp == 0 then throw "xpm-zero-value"
  if strs.size != 1 + nc + h then throw s!"xpm-string-count-{strs.size}-expected-{1 + nc + h}"
  -- colour table
  let mut keys : Array (List Char) := #[]
  let mut cols : Array (Option RGBA) := #[]
  for k in [0:nc] do
    let line := (strs.getD (1 + k) "").toList
    if line.length < cpp then throw "xpm-colour-line-short"
    let key := line.take cpp
    if keys.contains key then throw "xpm-duplicate-colour-key"
    let toks := ((String.ofList (line.drop cpp)).splitOn " ").filter (· != "") |>.map (fun t => (t.splitOn "\t").filter (· != "")) |>.flatten
    -- pairs of (context key, colour); the `c` (colour visual) entry counts
    let rec findC (ts : List String) (fuel : Nat) : Option String :=
      match fuel, ts with
      | 0, _ => none
      | _, "c" :: v :: _ => some v
      | f + 1, _ :: _ :: more => findC more f
      | _, _ => none
    let some cv := findC toks toks.length | throw "xpm-colour-line-without-c"
    let col ← if asciiLower cv == "none" then pure (some (⟨0, 0, 0, 0⟩ : RGBA))
      else match parseColourString cv with
        | some c => if cv.startsWith "#" && cv.length != 7 && cv.length != 4 && cv.length != 13 then throw s!"xpm-colour-{cv}" else pure (some c)
        | none => throw s!"xpm-colour-{cv}"
    keys := keys.push key
    cols := cols.push col
  -- pixel rows
  let mut pix := ByteArray.emptyWithCapacity (w * h)
  for y in [0:h] do
    let row := (strs.getD (1 + nc + y) "").toList
    if row.length != w * cpp then throw s!"xpm-row-{y}-length-{row.length}-expected-{w * cpp}"
    let mut r := row
    for _ in [0:w] do
      let key := r.take cpp
      r := r.drop cpp
      match keys.idxOf? key with
      | some k => pix := pix.push (UInt8.ofNat k)
      | none => throw s!"xpm-row-{y}-undefined-key"
  let cols' := cols
  return { w := w, h := h, sample := fun x y => byteAt pix (y * w + x), colour := fun c => (cols'.getD c none),
           ncodes := nc, info := s!"xpm ncolors={nc} cpp={cpp}" }

/-! ## text formats: TXT, ANSI terminal, compact terminal -/

/-- splits into lines, each of which has to be terminated by `\n` -/
def linesTerminated (s : String) : Option (List String) :=
  if s == "" then some []
  else if !s.endsWith "\n" then none
  else some ((s.dropEnd 1).toString.splitOn "\n")

/-- ANSI terminal: SGR sequences `ESC [ n m` (7 = reverse video, 27 = reverse off, 0 = reset, 49 =
    default background); a cell is two spaces; shown light in reverse video, dark otherwise -/
def readAnsi (s : String) : Except String Img := do
  let some lines := linesTerminated s | throw "ansi-last-line-not-terminated"
  let mut rows : Array ByteArray := #[]
  for line in lines do
    let mut cs := line.toList
    let mut rev := false
    let mut row := ByteArray.empty
    let mut run := 0        -- spaces seen in the current state
    for _ in [0:line.length + 1] do
      match cs with
      | [] => break
      | '\x1b' :: '[' :: rest =>
        if run % 2 != 0 then throw "ansi-odd-number-of-spaces"
        run := 0
        let ds := rest.takeWhile Char.isDigit
        match rest.drop ds.length with
        | 'm' :: more =>
          let code := ds.foldl (fun a x => a * 10 + (x.toNat - 48)) 0
          if code == 7 then rev := true
          else if code == 0 || code == 27 then rev := false
          else if code == 49 then pure ()
          else throw s!"ansi-sgr-code-{code}"
          cs := more
        | _ => throw "ansi-escape-sequence"
      | ' ' :: rest =>
        run := run + 1
        if run % 2 == 0 then row := row.push (if rev then 0 else 1)
        cs := rest
      | c :: _ => throw s!"ansi-character-{c.toNat}"
    if run % 2 != 0 then throw "ansi-odd-number-of-spaces"
    rows := rows.push row
  let w := (rows.getD 0 ByteArray.empty).size
  if rows.any (fun r => r.size != w) then throw "ansi-ragged-lines"
  return { w := w, h := rows.size, sample := fun x y => byteAt (rows.getD y ByteArray.empty) x,
           colour := fun c => if c == 1 then some black else some white, ncodes := 2, info := "ansi" }

/-- compact terminal: one character shows two modules, the block characters draw the LIGHT parts:
    space = dark/dark, U+2580 = light above, U+2584 = light below, U+2588 = light/light -/
def readCompact (s : String) : Except String Img := do
  let some lines := linesTerminated s | throw "compact-last-line-not-terminated"
  let mut rows : Array ByteArray := #[]
  for line in lines do
    let mut top := ByteArray.empty
    let mut bot := ByteArray.empty
    for c in line.toList do
      let (t, b) ← if c == ' ' then pure (1, 1) else if c == '▀' then pure (0, 1)
        else if c == '▄' then pure (1, 0) else if c == '█' then pure (0, 0)
        else throw s!"compact-character-{c.toNat}"
      top := top.push t
      bot := bot.push b
    rows := (rows.push top).push bot
  let w := (rows.getD 0 ByteArray.empty).size
  if rows.any (fun r => r.size != w) then throw "compact-ragged-lines"
  return { w := w, h := rows.size, sample := fun x y => byteAt (rows.getD y ByteArray.empty) x,
           colour := fun c => if c == 1 then some black else some white, ncodes := 2, info := "compact" }

/-! ## comparing a decoded picture with the expected one -/

/-- compares every pixel.  `cls x y` is the class of the pixel (index into `exps`), `alt x y` an
    optional second class (a recorded known deviation).  Result: verdict and the number of pixels
    that only matched their `alt` class -/
def comparePixels (img : Img) (W H : Nat) (cls : Nat → Nat → Nat) (exps : Array ColExp)
    (alt : Nat → Nat → Option Nat := fun _ _ => none) : String × Nat := Id.run do
  if img.w != W || img.h != H then return (s!"dimensions-{img.w}x{img.h}-expected-{W}x{H}", 0)
  -- verdict table per (class, code) when the codes are few
  let nc := img.ncodes
  let table : Array (Array Bool) :=
    if nc == 0 then #[] else exps.map (fun e => (Array.range nc).map (fun code => match img.colour code with | some c => e.accepts c | none => false))
  let okFor (k code : Nat) : Bool :=
    if nc != 0 then (table.getD k #[]).getD code false
    else match img.colour code with | some c => (exps.getD k .transparent).accepts c | none => false
  let mut altHits := 0
  for y in [0:H] do
    for x in [0:W] do
      let code := img.sample x y
      let k := cls x y
      if !okFor k code then
        match alt x y with
        | some k2 =>
          if okFor k2 code then altHits := altHits + 1
          else return (s!"pixel-{x}-{y}-is-{match img.colour code with | some c => c.show | none => s!"invalid-code-{code}"}-expected-{(exps.getD k .transparent).show}", altHits)
        | none =>
          return (s!"pixel-{x}-{y}-is-{match img.colour code with | some c => c.show | none => s!"invalid-code-{code}"}-expected-{(exps.getD k .transparent).show}", altHits)
  return ("ok", altHits)


/-! ## SVG: stroked / filled paths on the module grid -/

/-- a decimal number as an exact multiple of 1/1000 (more digits are cut) -/
def parseMilli (s : String) : Option Int :=
  let (neg, body) := if s.startsWith "-" then (true, (s.drop 1).toString) else (false, s)
  let parts := body.splitOn "."
  let mk (a f : String) : Option Int :=
    if (a == "" && f == "") || !(a.toList.all Char.isDigit) || !(f.toList.all Char.isDigit) then none
    else
      let ip := a.toList.foldl (fun acc c => acc * 10 + (c.toNat - 48)) 0
      let fd := (f.toList ++ ['0', '0', '0']).take 3
      let fp := fd.foldl (fun acc c => acc * 10 + (c.toNat - 48)) 0
      let v : Int := ((ip * 1000 + fp : Nat) : Int)
      some (if neg then -v else v)
  match parts with
  | [a] => mk a ""
  | [a, f] => mk a f
  | _ => none

/-- path data → commands with their numbers (in 1/1000) -/
def svgCommands (d : String) : Option (List (Char × List Int)) := Id.run do
  let mut out : Array (Char × List Int) := #[]
  let mut cmd : Option Char := none
  let mut nums : Array Int := #[]
  let mut cur : List Char := []
  let mut bad := false
  let flushNum (cur : List Char) (nums : Array Int) : Option (Array Int) :=
    if cur.isEmpty then some nums else (parseMilli (String.ofList cur.reverse)).map nums.push
  for c in d.toList do
    if c.isAlpha then
      match flushNum cur nums with
      | none => bad := true
      | some ns =>
        match cmd with
        | some k => out := out.push (k, ns.toList)
        | none => if !ns.isEmpty then bad := true
      cur := []
      nums := #[]
      cmd := some c
    else if c == ' ' || c == ',' || c == '\n' then
      match flushNum cur nums with
      | none => bad := true
      | some ns => nums := ns
      cur := []
    else if c == '-' && !cur.isEmpty then
      match flushNum cur nums with
      | none => bad := true
      | some ns => nums := ns
      cur := ['-']
    else if c.isDigit || c == '.' || c == '-' then cur := c :: cur
    else bad := true
  match flushNum cur nums with
  | none => bad := true
  | some ns =>
    match cmd with
    | some k => out := out.push (k, ns.toList)
    | none => if !ns.isEmpty then bad := true
  if bad then return none else return some out.toList

/-- what a path paints: colour and opacity (1/1000) -/
structure SvgPaint where
  r : Nat
  g : Nat
  b : Nat
  opacity : Nat
  deriving Repr, Inhabited, BEq

def SvgPaint.show (p : SvgPaint) : String := s!"{p.r}.{p.g}.{p.b}.opacity{p.opacity}"

/-- paints the cells covered by a stroked path (stroke width 1, horizontal segments on row centres)
    into `grid` (W × W cells, row-major).  Coordinates in 1/1000 module. -/
def svgStroke (cmds : List (Char × List Int)) (W : Nat) (paint : SvgPaint) (grid : Array (Option SvgPaint)) :
    Except String (Array (Option SvgPaint)) := do
  let mut g := grid
  let mut x : Int := 0
  let mut y : Int := 0
  for (c, ns) in cmds do
    match c, ns with
    | 'M', [a, b] => x := a; y := b
    | 'm', [a, b] => x := x + a; y := y + b
    | 'h', [a] =>
      let x0 := if a ≥ 0 then x else x + a
      let x1 := if a ≥ 0 then x + a else x
      if x0 % 1000 != 0 || x1 % 1000 != 0 then throw "svg-stroke-not-on-module-boundaries"
      if (y - 500) % 1000 != 0 then throw "svg-stroke-not-on-a-row-centre"
      let row := (y - 500) / 1000
      if row < 0 || row ≥ W || x0 < 0 || x1 > (W : Int) * 1000 then throw "svg-stroke-outside-the-page"
      for k in [(x0 / 1000).toNat : (x1 / 1000).toNat] do
        g := g.setIfInBounds (row.toNat * W + k) (some paint)
      x := x + a
    | 'z', [] => pure ()
    | 'Z', [] => pure ()
    | _, _ => throw s!"svg-path-command-{c}"
  return g

/-- a filled path: only the axis-parallel rectangle `M x y h a v b h -a z` is understood -/
def svgFill (cmds : List (Char × List Int)) (W : Nat) (paint : SvgPaint) (grid : Array (Option SvgPaint)) :
    Except String (Array (Option SvgPaint)) := do
  match cmds with
  | [('M', [x, y]), ('h', [a]), ('v', [b]), ('h', [a']), (z, [])] =>
    if !(z == 'z' || z == 'Z') || a' != -a || a ≤ 0 || b ≤ 0 then throw "svg-fill-shape"
    if x % 1000 != 0 || y % 1000 != 0 || a % 1000 != 0 || b % 1000 != 0 then throw "svg-fill-not-on-module-boundaries"
    if x < 0 || y < 0 || x + a > (W : Int) * 1000 || y + b > (W : Int) * 1000 then throw "svg-fill-outside-the-page"
    let mut g := grid
    for r in [(y / 1000).toNat : ((y + b) / 1000).toNat] do
      for k in [(x / 1000).toNat : ((x + a) / 1000).toNat] do
        g := g.setIfInBounds (r * W + k) (some paint)
    return g
  | _ => throw "svg-fill-shape"

/-- does the paint show the expected colour?  Opacities are written with two decimals. -/
def ColExp.acceptsPaint (e : ColExp) (p : Option SvgPaint) : Bool :=
  let dist (a b : Nat) : Nat := if a ≥ b then a - b else b - a
  match e, p with
  | .transparent, none => true
  | .transparent, some q => q.opacity == 0
  | .exact c, none => c.a == 0
  | .exact c, some q => q.r == c.r && q.g == c.g && q.b == c.b && dist (q.opacity * 255) (c.a * 1000) ≤ 1300
  | .approx _ _ _ k, none => k == 0
  | .approx r g b k, some q => q.r == r && q.g == g && q.b == b && dist q.opacity k ≤ 5

end Spec
