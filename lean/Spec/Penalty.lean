/-
  Spec.Penalty — ISO/IEC 18004 7.8.3 evaluation of data masking results, written from the
  standard (independent of the encoder model).  A line is a `List Nat` of 0/1 modules.
-/
import Spec.Geometry
import Spec.Decode

namespace Spec

/-- maximal runs of equal modules: list of run lengths -/
def runLengths : List Nat → List Nat
  | [] => []
  | x :: xs =>
    let rec go (prev cnt : Nat) : List Nat → List Nat
      | [] => [cnt]
      | y :: ys => if y == prev then go prev (cnt + 1) ys else cnt :: go y 1 ys
    go x 1 xs

/-- N1 for one line: every run of length 5 + i scores 3 + i -/
def n1Line (l : List Nat) : Nat := ((runLengths l).map (fun r => if r ≥ 5 then 3 + (r - 5) else 0)).foldl (· + ·) 0

/-- module k of a line, light (0) outside the symbol (quiet zone) -/
def at0 (l : List Nat) (k : Int) : Nat := if k < 0 then 0 else l.getD k.toNat 0

/-- N3 for one line: every position where dark-light-dark-dark-dark-light-dark starts and which has
    four light modules before or after it (the quiet zone counts as light) scores 40 -/
def n3Line (l : List Nat) : Nat :=
  ((List.range (l.length - 6)).map (fun s =>
    let p := (List.range 7).map (fun k => l.getD (s + k) 0)
    if l.length ≥ 7 && p == [1, 0, 1, 1, 1, 0, 1] then
      let before := (List.range 4).all (fun k => at0 l ((s : Int) - 1 - k) == 0)
      let after := (List.range 4).all (fun k => at0 l ((s : Int) + 7 + k) == 0)
      if before || after then 40 else 0
    else 0)).foldl (· + ·) 0

def rowsOf (m : Matrix) : List (List Nat) := (List.range m.size).map (fun i => (List.range m.size).map (fun j => cell m i j))
def colsOf (m : Matrix) : List (List Nat) := (List.range m.size).map (fun j => (List.range m.size).map (fun i => cell m i j))

def sumL (l : List Nat) : Nat := l.foldl (· + ·) 0

/-- N2: every 2×2 block of one colour scores 3 -/
def n2 (m : Matrix) : Nat :=
  let n := m.size
  sumL ((List.range (n - 1)).map (fun i => sumL ((List.range (n - 1)).map (fun j =>
    let a := cell m i j
    if cell m i (j + 1) == a && cell m (i + 1) j == a && cell m (i + 1) (j + 1) == a then 3 else 0))))

/-- N4: 10 points for every full 5 % the proportion of dark modules deviates from 50 % -/
def n4 (m : Matrix) : Nat :=
  let total := m.size * m.size
  let dark := sumL ((rowsOf m).map sumL)
  let dev := if 100 * dark ≥ 50 * total then 100 * dark - 50 * total else 50 * total - 100 * dark
  10 * (dev / (5 * total))

/-- ISO 7.8.3.1 penalty of a QR symbol -/
def penaltyQR (m : Matrix) : Nat :=
  let rows := rowsOf m
  let cols := colsOf m
  sumL (rows.map n1Line) + sumL (cols.map n1Line) + n2 m + sumL (rows.map n3Line) + sumL (cols.map n3Line) + n4 m

/-- ISO 7.8.3.2 score of a Micro QR symbol (higher is better): SUM1 = dark modules of the right
    edge column, SUM2 = dark modules of the lower edge row, both without the timing module -/
def scoreMicro (m : Matrix) : Nat :=
  let n := m.size
  let s1 := sumL ((List.range (n - 1)).map (fun k => cell m (k + 1) (n - 1)))
  let s2 := sumL ((List.range (n - 1)).map (fun k => cell m (n - 1) (k + 1)))
  if s1 ≤ s2 then s1 * 16 + s2 else s2 * 16 + s1

/-- the symbol as it is evaluated with candidate pattern `p`: data modules re-masked from the
    emitted mask `k` to `p`; format information (incl. the dark module, which is written together
    with it) and version information still light; other function patterns as they are -/
def candidate (v : Int) (m : Matrix) (k p : Nat) : Matrix :=
  m.mapIdx (fun i row => row.mapIdx (fun j x =>
    match kind v i j with
    | .data => (x + maskBit v k i j + maskBit v p i j) % 2
    | .format => 0
    | .version => 0
    | .darkmodule => 0
    | _ => x))

/-- index of the first best candidate -/
def bestMask (v : Int) (m : Matrix) (k : Nat) : Nat × List Nat :=
  let micro := isMicro v
  let scores := (List.range (if micro then 4 else 8)).map (fun p =>
    let c := candidate v m k p
    if micro then scoreMicro c else penaltyQR c)
  let best := if micro then scores.foldl max 0 else scores.foldl min (scores.headD 0)
  (scores.idxOf best, scores)

end Spec
