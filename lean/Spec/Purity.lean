/-
  Spec.Purity — C15 as stated, evaluated on one observed *history* of calls of the implementation.

  A history is described by
    * `expected`  : for every call of the history, the digest of the result the same call gave in a
                    fresh single-threaded pass made before the history (the stateless reference),
    * `observed`  : the digest of the result the call gave inside the history (any order, any thread),
    * `snapshots` : (what, digest before, digest after) for everything a call must not modify:
                    module-level tables, arguments, previously returned matrices, a symbol around
                    a serialisation,
    * `reencoded` : (digest of the automatically configured symbol, digest of the symbol obtained by
                    requesting the chosen version / level / mask explicitly with boosting disabled).
  C15 holds on the history iff observed = expected pointwise, every snapshot is unchanged and every
  re-encoded symbol is identical.  The verdict names the first deviation.
-/
import Spec.Judge

namespace Spec.Purity

structure History where
  expected : List String
  observed : List String
  snapshots : List (String × String × String)
  reencoded : List (String × String)
  deriving Repr

/-- index of the first position where the two lists differ -/
def firstDiff : List String → List String → Nat → Option Nat
  | [], [], _ => none
  | a :: as, b :: bs, k => if a == b then firstDiff as bs (k + 1) else some k
  | _, _, k => some k

def History.deterministic (h : History) : Bool := h.observed == h.expected
def History.stateUnchanged (h : History) : Bool := h.snapshots.all (fun s => s.2.1 == s.2.2)
def History.idempotent (h : History) : Bool := h.reencoded.all (fun p => p.1 == p.2)

/-- the property -/
def History.pure (h : History) : Bool := h.deterministic && h.stateUnchanged && h.idempotent

inductive Verdict where
  | ok
  | resultCount (observed expected : Nat)
  | resultDiffers (k : Nat)
  | modified (what : String)
  | reencodeDiffers (k : Nat)
  deriving Repr, DecidableEq

def verdict (h : History) : Verdict :=
  if h.observed.length != h.expected.length then .resultCount h.observed.length h.expected.length
  else match firstDiff h.expected h.observed 0 with
  | some k => .resultDiffers k
  | none =>
    match h.snapshots.find? (fun s => s.2.1 != s.2.2) with
    | some s => .modified s.1
    | none =>
      match h.reencoded.findIdx? (fun p => p.1 != p.2) with
      | some k => .reencodeDiffers k
      | none => .ok

def Verdict.toString : Verdict → String
  | .ok => "ok"
  | .resultCount n m => s!"result-count-{n}-expected-{m}"
  | .resultDiffers k => s!"result-{k}-differs-from-stateless-reference"
  | .modified w => s!"modified:{w}"
  | .reencodeDiffers k => s!"reencode-{k}-differs"

def judgeHistory (h : History) : String := (verdict h).toString

def splitList (s : String) : List String := if s == "" || s == "-" then [] else s.splitOn ","

def parseHistory (r : Req) : History :=
  { expected := splitList (r.getD "exp" ""),
    observed := splitList (r.getD "obs" ""),
    snapshots := (splitList (r.getD "snap" "")).map (fun t =>
      match t.splitOn ":" with
      | [n, a, b] => (n, a, b)
      | _ => (t, "malformed", "token")),
    reencoded := (splitList (r.getD "reenc" "")).map (fun t =>
      match t.splitOn ":" with
      | [a, b] => (a, b)
      | _ => (t, "malformed")) }

def handle (cmd : String) (r : Req) : Option String :=
  match cmd with
  | "hist" =>
    let h := parseHistory r
    some s!"id={r.getD "id" "?"} c15={judgeHistory h} calls={h.observed.length} snapshots={h.snapshots.length} reencoded={h.reencoded.length}"
  | _ => none

end Spec.Purity
