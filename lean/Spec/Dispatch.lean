/-
  Spec.Dispatch — the judge's command table.  Every Spec/*.lean file that offers judge commands
  defines `handle : String → Spec.Req → Option String` and is listed here.
-/
import Spec.Judge
import Spec.Vector
import Spec.Helpers
import Spec.Routes
import Spec.Args
import Spec.RasterJudge
import Spec.Purity
import Spec.RasterLJudge
import Spec.Decoders

namespace Spec

def handlers : List (String → Req → Option String) := [handleCore, Vector.handle, Helpers.handle, Routes.handle, Args.handle, Raster.handle, Purity.handle, RasterL.handle, Decoders.handle]

def judgeLine (line : String) : String :=
  let (cmd, r) := parseReq line
  if cmd == "" then "" else
  match handlers.findSome? (fun h => h cmd r) with
  | some out => out
  | none => s!"error=unknown-command-{cmd}"

end Spec
