/-
  Spec.Args — judge commands of property C14 ("arguments are honoured or refused with ValueError;
  nothing else escapes").  The property is evaluated here on what the real code did:

  * `args` : one call of make / make_qr / make_micro / make_sequence with its arguments (as tagged
             Python values) and its outcome (`ok`, `timeout`, or the exception class with its bases).
             Verdict: only the ValueError family (DataOverflowError, UnicodeError are ValueErrors) or a
             LookupError for an unknown codec may escape; combinations the documentation excludes must
             not be accepted.  Arguments of undocumented types are not judged (`c14=-`).
  * `same` : a documented alternative spelling gave the same result as the canonical spelling.
  * `ser`  : a serialiser called with a malformed colour / scale / border / kind refused with ValueError,
             and never let anything but a ValueError escape.
  * `cli`  : exit status 0 only after the requested output was written; a refusal while creating the
             symbol is exit status 1 with the library message on stderr and no traceback.
-/
import Spec.Judge

namespace Spec.Args
open Spec

/-- a Python argument value as the harness reports it -/
inductive Val where
  | none | bool (b : Bool) | int (i : Int) | str (s : List Char) | bytes (len : Nat)
  | float (num : Int) (den : Nat) | tuple (xs : List Val) | other
  deriving Repr, Inhabited, BEq

def strOfHex (h : String) : List Char := (bytesOfHex h).map Char.ofNat

def parseAtom (t : String) : Val :=
  if t == "N" then .none else if t == "T" then .bool true else if t == "F" then .bool false
  else match t.toList with
  | 'i' :: rest => match intOfString (String.ofList rest) with | some i => .int i | none => .other
  | 's' :: rest => .str (strOfHex (String.ofList rest))
  | 'b' :: rest => .bytes ((String.ofList rest).length / 2)
  | 'f' :: rest =>
    match (String.ofList rest).splitOn "/" with
    | [a, b] => match intOfString a, b.toNat? with | some n, some d => .float n d | _, _ => .other
    | _ => .other
  | _ => .other

/-- tokens: `N` `T` `F` `i<int>` `s<hex utf-8>` `b<hex>` `f<num>/<den>` `t<atom>;<atom>…` `o` -/
def parseVal (t : String) : Val :=
  match t.toList with
  | 't' :: rest => .tuple (((String.ofList rest).splitOn ";").filter (· != "") |>.map parseAtom)
  | _ => parseAtom t

def upperC (c : Char) : Char := if 'a' ≤ c && c ≤ 'z' then Char.ofNat (c.toNat - 32) else c
def lowerC (c : Char) : Char := if 'A' ≤ c && c ≤ 'Z' then Char.ofNat (c.toNat + 32) else c
def isDigitC (c : Char) : Bool := '0' ≤ c && c ≤ '9'
def isHexC (c : Char) : Bool := isDigitC c || ('a' ≤ c && c ≤ 'f') || ('A' ≤ c && c ≤ 'F')
def natOfDigits (cs : List Char) : Nat := cs.foldl (fun a c => a * 10 + (c.toNat - 48)) 0

/-- three-valued reading of an argument: a documented value, a value that cannot be honoured, or a
    spelling about which the documentation is silent (never judged) -/
inductive Reading (α : Type) where
  | absent | valid (a : α) | invalid | unspecified
  deriving Repr, BEq

/-- could Python's `int()` conceivably accept this text although it is not a plain digit string
    (sign, blanks, underscores, non-ASCII digits)?  Then the documentation is silent. -/
def maybeNumeric (cs : List Char) : Bool :=
  !cs.isEmpty && cs.all (fun c => isDigitC c || c == '+' || c == '-' || c == '_' || c == ' ' || c == '\t' || c == '\n'
                                  || c == '\r' || c.toNat == 11 || c.toNat == 12 || c.toNat > 127)

def microNames : List (List Char × Int) := [("M1".toList, -3), ("M2".toList, -2), ("M3".toList, -1), ("M4".toList, 0)]

/-- version: 1..40, "M1".."M4" in any letter case, or the decimal digits of 1..40 -/
def readVersion : Val → Reading Int
  | .none => .absent
  | .int i => if 1 ≤ i && i ≤ 40 then .valid i else .invalid
  | .str cs =>
    match microNames.find? (·.1 == cs.map upperC) with
    | some (_, v) => .valid v
    | none =>
      if !cs.isEmpty && cs.all isDigitC then
        (let n := natOfDigits cs; if 1 ≤ n && n ≤ 40 then .valid (n : Int) else .invalid)
      else if maybeNumeric cs then .unspecified else .invalid
  | _ => .unspecified

/-- error level: L M Q H in any letter case → segno's constants 1 0 3 2 -/
def readError : Val → Reading Nat
  | .none => .absent
  | .str cs =>
    match cs.map upperC with
    | ['L'] => .valid 1 | ['M'] => .valid 0 | ['Q'] => .valid 3 | ['H'] => .valid 2
    | u => if u.all (fun c => c.toNat < 128) then .invalid else .unspecified
  | _ => .unspecified

def modeNames : List (String × Nat) := [("numeric", 1), ("alphanumeric", 2), ("byte", 4), ("kanji", 8), ("hanzi", 13)]

def readMode : Val → Reading Nat
  | .none => .absent
  | .str cs =>
    match modeNames.find? (·.1.toList == cs.map lowerC) with
    | some (_, m) => .valid m
    | none => if cs.all (fun c => c.toNat < 128) then .invalid else .unspecified
  | _ => .unspecified

/-- mask: an integer or its decimal digits; range checked against the symbol kind later -/
def readMask : Val → Reading Int
  | .none => .absent
  | .int i => .valid i
  | .str cs =>
    if !cs.isEmpty && cs.all isDigitC then .valid (natOfDigits cs : Int)
    else if maybeNumeric cs then .unspecified else .invalid
  | _ => .unspecified

def readCount : Val → Reading Int
  | .none => .absent
  | .int i => .valid i
  | _ => .unspecified

def isUnspec {α : Type} : Reading α → Bool | .unspecified => true | _ => false
def isInvalid {α : Type} : Reading α → Bool | .invalid => true | _ => false

def boolish : Val → Option (Option Bool)
  | .none => some none | .bool b => some (some b) | _ => none

/-- mode available in version (ISO 18004 Table 2) -/
def modeInVersion (mode : Nat) (v : Int) : Bool :=
  if v ≥ 1 then true
  else if mode == 13 then false
  else if v == -3 then mode == 1
  else if v == -2 then mode == 1 || mode == 2
  else true

/-- outcome classes: `ok`, `timeout`, or `Class,Base,Base…` -/
def allowedEscape (outcome : String) (codecUnknown : Bool) : Option String :=
  if outcome == "ok" then none
  else if outcome == "timeout" then some "endless-loop-or-timeout"
  else
    let mro := outcome.splitOn ","
    if mro.contains "ValueError" then none
    else if mro.headD "" == "LookupError" && codecUnknown then none
    else some s!"escaped-{mro.headD "?"}"

/-- `args id= fn= content= version= error= mode= mask= micro= eci= boost= encoding= count= codec=known|unknown
     outcome= rv=<result version or ->` -/
def judgeArgs (r : Req) : String :=
  let id := r.getD "id" "?"
  let fn := r.getD "fn" "make"
  let v := fun k => parseVal (r.getD k "N")
  let content := v "content"
  let version := readVersion (v "version")
  let error := readError (v "error")
  let mode := readMode (v "mode")
  let mask := readMask (v "mask")
  let count := readCount (v "count")
  let microArg := boolish (v "micro")
  let eciArg := boolish (v "eci")
  let boostArg := boolish (v "boost")
  let encOk := match v "encoding" with | .none => true | .str _ => true | _ => false
  let contentOk := match content with | .str _ => true | .bytes _ => true | .int _ => true | _ => false
  let documented := contentOk && encOk && !isUnspec version && !isUnspec error && !isUnspec mode && !isUnspec mask
    && !isUnspec count && microArg.isSome && (match eciArg with | some (some _) => true | _ => false)
    && (match boostArg with | some (some _) => true | _ => false)
  if !documented then s!"id={id} c14=- why=undocumented-argument-type" else
  let outcome := r.getD "outcome" ""
  match allowedEscape outcome (r.getD "codec" "known" == "unknown") with
  | some bad => s!"id={id} c14={bad}"
  | none =>
    if outcome != "ok" then s!"id={id} c14=ok refused=1" else
    -- accepted: was it allowed to be accepted?
    let micro : Option Bool := if fn == "make_qr" then some false else if fn == "make_micro" then some true
                               else if fn == "make_sequence" then some false else (microArg.getD none)
    let eci := fn != "make_micro" && fn != "make_sequence" && eciArg == some (some true)
    let vMicro := match version with | .valid x => x < 1 | _ => false
    let microSym := micro == some true || vMicro
    let rv := intOfString (r.getD "rv" "-")
    let bad : Option String :=
      if isInvalid version then some "version-outside-M1-M4-1-40-accepted"
      else if isInvalid error then some "unknown-error-level-accepted"
      else if isInvalid mode then some "unknown-mode-accepted"
      else if isInvalid mask then some "malformed-mask-accepted"
      else if microSym && error == .valid 2 then some "level-H-with-micro-accepted"
      else if microSym && eci then some "eci-with-micro-accepted"
      else if microSym && mode == .valid 13 then some "hanzi-with-micro-accepted"
      else if fn == "make_sequence" && vMicro then some "structured-append-with-micro-accepted"
      else if micro == some false && vMicro then some "micro-version-with-micro-false-accepted"
      else if micro == some true && (match version with | .valid x => x ≥ 1 | _ => false) then some "qr-version-with-micro-true-accepted"
      else if (match mode, version with | .valid m, .valid x => !modeInVersion m x | _, _ => false) then some "mode-not-available-in-version-accepted"
      else if (match mask with
               | .valid k => k < 0 || k ≥ 8 || (k ≥ 4 && (microSym || (match rv with | some x => x < 1 | none => false)))
               | _ => false) then some "mask-out-of-range-accepted"
      else if fn == "make_sequence" && (match count with | .valid k => k < 1 || k > 16 | _ => false) then some "symbol-count-outside-1-16-accepted"
      else if fn != "make_sequence" && (match version, rv with | .valid x, some y => x != y | _, _ => false) then some "requested-version-not-honoured"
      else none
    match bad with
    | some b => s!"id={id} c14={b}"
    | none => s!"id={id} c14=ok refused=0"

/-- `same id= a=<canonical result> b=<result of the alternative spelling>` (results: `ok=1 v= e= mask= m=` or `err=`) -/
def judgeSame (r : Req) : String :=
  let id := r.getD "id" "?"
  let keys := ["ok", "err", "v", "e", "mask", "m"]
  let diff := keys.find? (fun k => r.get ("a." ++ k) != r.get ("b." ++ k))
  match diff with
  | none => s!"id={id} c14=ok"
  | some k => s!"id={id} c14=alternative-spelling-differs-in-{k}"

/-! ### serialisers -/

def cssNames : List String := [
  "aliceblue", "antiquewhite", "aqua", "aquamarine", "azure", "beige", "bisque", "black", "blanchedalmond",
  "blue", "blueviolet", "brown", "burlywood", "cadetblue", "chartreuse", "chocolate", "coral", "cornflowerblue",
  "cornsilk", "crimson", "cyan", "darkblue", "darkcyan", "darkgoldenrod", "darkgray", "darkgreen", "darkgrey",
  "darkkhaki", "darkmagenta", "darkolivegreen", "darkorange", "darkorchid", "darkred", "darksalmon",
  "darkseagreen", "darkslateblue", "darkslategray", "darkslategrey", "darkturquoise", "darkviolet", "deeppink",
  "deepskyblue", "dimgray", "dimgrey", "dodgerblue", "firebrick", "floralwhite", "forestgreen", "fuchsia",
  "gainsboro", "ghostwhite", "gold", "goldenrod", "gray", "green", "greenyellow", "grey", "honeydew", "hotpink",
  "indianred", "indigo", "ivory", "khaki", "lavender", "lavenderblush", "lawngreen", "lemonchiffon",
  "lightblue", "lightcoral", "lightcyan", "lightgoldenrodyellow", "lightgray", "lightgreen", "lightgrey",
  "lightpink", "lightsalmon", "lightseagreen", "lightskyblue", "lightslategray", "lightslategrey",
  "lightsteelblue", "lightyellow", "lime", "limegreen", "linen", "magenta", "maroon", "mediumaquamarine",
  "mediumblue", "mediumorchid", "mediumpurple", "mediumseagreen", "mediumslateblue", "mediumspringgreen",
  "mediumturquoise", "mediumvioletred", "midnightblue", "mintcream", "mistyrose", "moccasin", "navajowhite",
  "navy", "oldlace", "olive", "olivedrab", "orange", "orangered", "orchid", "palegoldenrod", "palegreen",
  "paleturquoise", "palevioletred", "papayawhip", "peachpuff", "peru", "pink", "plum", "powderblue", "purple",
  "red", "rosybrown", "royalblue", "saddlebrown", "salmon", "sandybrown", "seagreen", "seashell", "sienna",
  "silver", "skyblue", "slateblue", "slategray", "slategrey", "snow", "springgreen", "steelblue", "tan", "teal",
  "thistle", "tomato", "turquoise", "violet", "wheat", "white", "whitesmoke", "yellow", "yellowgreen"]

/-- colour grammar: CSS name (any letter case), `#RGB`, `#RGBA`, `#RRGGBB`, `#RRGGBBAA` (the `#` may be
    missing), tuple of 3 ints 0..255 plus optional alpha (int 0..255 or float 0..1).  `true` = malformed. -/
def malformedColour : Val → Bool
  | .str cs =>
    let isName := cssNames.contains (String.ofList (cs.map lowerC))
    let hex := match cs with | '#' :: rest => rest | _ => cs
    let isHex := hex.all isHexC && [3, 4, 6, 8].contains hex.length
    !isName && !isHex
  | .tuple xs =>
    let rgbBad := (xs.take 3).any (fun x => match x with
      | .int i => i < 0 || i > 255
      | .float n _ => n < 0          -- fractional channel values: documentation silent unless negative
      | _ => true)
    let alphaBad := match xs.drop 3 with
      | [] => false
      | [.int a] => a < 0 || a > 255
      | [.float n d] => n < 0 || n > d
      | _ => true
    xs.length < 3 || xs.length > 4 || rgbBad || alphaBad
  | _ => false

def colourOptions : List String := ["dark", "light", "finder_dark", "finder_light", "data_dark", "data_light",
  "version_dark", "version_light", "format_dark", "format_light", "alignment_dark", "alignment_light",
  "timing_dark", "timing_light", "separator", "dark_module", "quiet_zone"]

/-- `ser id= kind=<hex> opt=<name> val=<value> outcome=` — the option is a documented keyword of that kind -/
def judgeSer (r : Req) : String :=
  let id := r.getD "id" "?"
  let opt := r.getD "opt" ""
  let val := parseVal (r.getD "val" "N")
  let outcome := r.getD "outcome" ""
  let mustRefuse : Option String :=
    if opt == "kind" then
      (match val with
       | .str cs => if ["svg", "svgz", "png", "eps", "txt", "pdf", "ans", "pbm", "pam", "ppm", "tex", "xbm", "xpm"].contains
                        (String.ofList (cs.map lowerC)) then none else some "unknown-kind"
       | _ => none)
    else if opt == "scale" then
      (match val with
       | .int i => if i ≤ 0 then some "non-positive-scale" else none
       | .float n _ => if n ≤ 0 then some "non-positive-scale" else none
       | _ => none)
    else if opt == "border" then
      (match val with
       | .int i => if i < 0 then some "negative-border" else none
       | .float n d => if n < 0 then some "negative-border" else if d != 1 then some "fractional-border" else none
       | _ => none)
    else if colourOptions.contains opt then (if malformedColour val then some "malformed-colour" else none)
    else none
  match allowedEscape outcome false with
  | some bad => s!"id={id} c14={bad}"
  | none =>
    match mustRefuse with
    | some why => if outcome == "ok" then s!"id={id} c14={why}-accepted" else s!"id={id} c14=ok refused=1"
    | none => s!"id={id} c14=ok refused={if outcome == "ok" then 0 else 1}"

/-! ### command line tool -/

def isInfix (p l : List Nat) : Bool :=
  if p.isEmpty then true else (List.range (l.length + 1 - p.length)).any (fun i => (l.drop i).take p.length == p)

/-- `cli id= rc=<0|1|2|…|exc-Class> want=0/1 outsize=<n|-> stdout=<n> lib=ok|refused|lookup libmsg=<hex> stderr=<hex>` -/
def judgeCli (r : Req) : String :=
  let id := r.getD "id" "?"
  let rc := r.getD "rc" ""
  let want := r.getD "want" "0" == "1"
  let outsize := (r.getD "outsize" "-").toNat?
  let stdoutLen := (r.getD "stdout" "0").toNat?.getD 0
  let lib := r.getD "lib" "ok"
  let stderr := bytesOfHex (r.getD "stderr" "")
  let msg := bytesOfHex (r.getD "libmsg" "")
  if rc == "0" then
    if lib == "refused" then s!"id={id} c14=exit-0-although-the-library-refuses"
    else if want && !(match outsize with | some n => n > 0 | none => false) then s!"id={id} c14=exit-0-without-output-file"
    else if !want && stdoutLen == 0 then s!"id={id} c14=exit-0-without-terminal-output"
    else s!"id={id} c14=ok"
  else if lib == "refused" then
    if rc == "2" then s!"id={id} c14=ok usage=1"          -- rejected by the argument parser before creation starts
    else if rc != "1" then s!"id={id} c14=refusal-reported-as-{rc}"
    else if isInfix ("Traceback".toList.map Char.toNat) stderr then s!"id={id} c14=traceback-on-stderr"
    else if !isInfix msg stderr then s!"id={id} c14=library-message-missing-on-stderr"
    else s!"id={id} c14=ok"
  else s!"id={id} c14=ok nonzero=1"

def handle (cmd : String) (r : Req) : Option String :=
  match cmd with
  | "args" => some (judgeArgs r)
  | "same" => some (judgeSame r)
  | "ser" => some (judgeSer r)
  | "cli" => some (judgeCli r)
  | _ => none

end Spec.Args
