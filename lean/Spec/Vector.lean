/-
  Spec.Vector — C10: vector outputs (SVG, EPS, PDF, PGF/TikZ) paint exactly the dark modules.

  The harness only parses containers (XML attributes, PostScript / PDF tokens, zlib inflate, TeX macro
  arguments) and hands the *tokens* of the real document to the judge.  Everything that belongs to
  the property is evaluated here:
    * exact decimal numbers (`parseDecimal`, core `Rat` arithmetic — no floats),
    * small interpreters of the four drawing languages (SVG path data with relative commands and
      `scale(..)` transforms, the PostScript subset with `/m {rmoveto} bind def`, PDF content operators
      with `cm`/`q`/`Q`, PGF path macros) that apply the document's own transform and produce painted
      rectangles in device space,
    * rasterisation of the stroked rectangles on the module grid: every dark module covered exactly
      once, no light module, nothing outside the page; page box = (size+2·border)·scale square;
      a requested light colour fills the whole page before the modules are painted; colours as requested,
    * PDF: `/Length` = stream length, xref entry of every defined object = its byte offset.
-/
import Spec.Judge
import Spec.Css3

namespace Spec.Vector
open Spec

/-! ### exact decimal numbers -/

def digitsVal (ds : List Char) : Nat := ds.foldl (fun a c => a * 10 + (c.toNat - 48)) 0

def spanDigits (cs : List Char) : List Char × List Char := cs.span Char.isDigit

/-- longest prefix of the form `[+-]digits[.digits][(e|E)[+-]digits]`: (numerator, denominator), rest -/
def parseDecPrefix (cs0 : List Char) : Option ((Int × Nat) × List Char) :=
  let (neg, cs1) : Bool × List Char := match cs0 with
    | '-' :: r => (true, r)
    | '+' :: r => (false, r)
    | _ => (false, cs0)
  let (ip, cs2) := spanDigits cs1
  let (fp, cs3) : List Char × List Char := match cs2 with
    | '.' :: r => spanDigits r
    | _ => ([], cs2)
  if ip.isEmpty && fp.isEmpty then none else
  let (ex, cs4) : Int × List Char :=
    match cs3 with
    | e :: r =>
      if e == 'e' || e == 'E' then
        let (eneg, r1) : Bool × List Char := match r with
          | '-' :: t => (true, t)
          | '+' :: t => (false, t)
          | _ => (false, r)
        let (ed, r2) := spanDigits r1
        if ed.isEmpty || ed.length > 3 then (0, cs3)
        else ((if eneg then -((digitsVal ed : Nat) : Int) else ((digitsVal ed : Nat) : Int)), r2)
      else (0, cs3)
    | [] => (0, cs3)
  let mant : Nat := digitsVal (ip ++ fp)
  let e10 : Int := ex - (fp.length : Int)
  let nd : Nat × Nat := if e10 ≥ 0 then (mant * 10 ^ e10.toNat, 1) else (mant, 10 ^ (-e10).toNat)
  some (((if neg then -((nd.1 : Nat) : Int) else ((nd.1 : Nat) : Int)), nd.2), cs4)

/-- a complete decimal literal as exact fraction (numerator, denominator ≥ 1) -/
def parseDecimal (s : String) : Option (Int × Nat) :=
  match parseDecPrefix s.toList with
  | some (nd, []) => some nd
  | _ => none

def num? (s : String) : Option Rat := (parseDecimal s).map (fun nd => mkRat nd.1 nd.2)

/-- number followed by a unit (`30mm`, `-2.5pt`, `15`) -/
def numUnit? (s : String) : Option (Rat × String) :=
  (parseDecPrefix s.toList).map (fun (nd, rest) => (mkRat nd.1 nd.2, String.ofList rest))

def absQ (x : Rat) : Rat := if x < 0 then -x else x
def maxQ (a b : Rat) : Rat := if a < b then b else a
def minQ (a b : Rat) : Rat := if b < a then b else a
def roundQ (x : Rat) : Int := (x + mkRat 1 2).floor

/-- relative tolerance for quantities the writers compute in floating point (page sizes) -/
def relTol : Rat := mkRat 1 1000000000
def closeTo (a b : Rat) : Bool := absQ (a - b) ≤ relTol * absQ b

/-- decimal rendering for messages (6 fractional digits, truncated) -/
def showQ (x : Rat) : String :=
  let neg := x < 0
  let a := absQ x
  let ip := a.floor.toNat
  let fr := ((a - (ip : Rat)) * 1000000).floor.toNat
  let fs := toString fr
  let fs := String.ofList (List.replicate (6 - fs.length) '0') ++ fs
  let fs := String.ofList ((fs.toList.reverse.dropWhile (· == '0')).reverse)
  (if neg then "-" else "") ++ toString ip ++ (if fs == "" then "" else "." ++ fs)

def nums? (ss : List String) : Option (List Rat) := ss.mapM num?

def splitList (s : String) (sep : String) : List String := if s == "" || s == "-" then [] else s.splitOn sep

/-! ### colours -/

/-- channels in 0..1 -/
structure Color where
  r : Rat
  g : Rat
  b : Rat
  a : Rat := 1

def Color.show (c : Color) : String := s!"rgb({showQ (c.r * 255)},{showQ (c.g * 255)},{showQ (c.b * 255)})/a{showQ c.a}"

def chanTol : Rat := mkRat 1 1000000      -- EPS prints six decimals
def alphaTol : Rat := mkRat 51 10000      -- segno prints the opacity with two decimals

def Color.same (x y : Color) : Bool :=
  absQ (x.r - y.r) ≤ chanTol && absQ (x.g - y.g) ≤ chanTol && absQ (x.b - y.b) ≤ chanTol && absQ (x.a - y.a) ≤ alphaTol

def isHexDigit (c : Char) : Bool := ('0' ≤ c && c ≤ '9') || ('a' ≤ c && c ≤ 'f') || ('A' ≤ c && c ≤ 'F')

def ofBytes (r g b : Nat) (a : Rat := 1) : Color := { r := mkRat r 255, g := mkRat g 255, b := mkRat b 255, a := a }

/-- `#RGB`, `#RGBA`, `#RRGGBB`, `#RRGGBBAA` (digits only, without the `#`) -/
def hexColor (ds : List Char) : Option Color :=
  if !ds.all isHexDigit then none else
  let v := fun (c : Char) => hexVal c
  match ds with
  | [r, g, b] => some (ofBytes (17 * v r) (17 * v g) (17 * v b))
  | [r, g, b, a] => some (ofBytes (17 * v r) (17 * v g) (17 * v b) (mkRat (17 * v a) 255))
  | [r1, r2, g1, g2, b1, b2] => some (ofBytes (16 * v r1 + v r2) (16 * v g1 + v g2) (16 * v b1 + v b2))
  | [r1, r2, g1, g2, b1, b2, a1, a2] =>
    some (ofBytes (16 * v r1 + v r2) (16 * v g1 + v g2) (16 * v b1 + v b2) (mkRat (16 * v a1 + v a2) 255))
  | _ => none

def lower (s : String) : String := String.ofList (s.toList.map Char.toLower)

def namedColor (s : String) : Option Color := (css3Lookup (lower s)).map (fun (r, g, b) => ofBytes r g b)

/-- one component of a colour tuple: a float literal (contains `.`) is a fraction of 1, an integer a byte -/
def tupleChan (s : String) : Option Rat :=
  (num? s).bind (fun q =>
    if s.contains '.' || s.contains 'e' then (if 0 ≤ q && q ≤ 1 then some q else none)
    else (if 0 ≤ q && q ≤ 255 then some (q / 255) else none))

/-- the colour a caller asked for.  `none` = no colour requested (transparent); `some none` = not a colour
    spec this judge understands.
    Forms: `none`, `name:red`, `hex:0a141e`, `tuple:10,20,30`, `tuple:10,20,30,128`, `tuple:10,20,30,0.5`,
    `tuple:1.0,0.5,0.25` (EPS/PDF float channels) -/
def requested (s : String) : Option (Option Color) :=
  if s == "none" || s == "-" then some none else
  match s.splitOn ":" with
  | ["name", n] => (namedColor n).map some
  | ["hex", h] => (hexColor h.toList).map some
  | ["tuple", t] =>
    match (t.splitOn ",").map tupleChan with
    | [some r, some g, some b] => some (some { r := r, g := g, b := b })
    | [some r, some g, some b, some a] => some (some { r := r, g := g, b := b, a := a })
    | _ => none
  | _ => none

/-- an SVG paint value: `none`, `#rgb`, `#rrggbb`, keyword, `rgba(r,g,b,a)` / `rgb(r,g,b)` -/
def svgPaint (s : String) : Option (Option Color) :=
  if s == "none" then some none else
  match s.toList with
  | '#' :: ds => if ds.length == 3 || ds.length == 6 then (hexColor ds).map some else none
  | _ =>
    if s.startsWith "rgba(" && s.endsWith ")" then
      match (((s.drop 5).dropEnd 1).toString.splitOn ",").map (fun t => num? t.trimAscii.toString) with
      | [some r, some g, some b, some a] => some (some { r := r / 255, g := g / 255, b := b / 255, a := a })
      | _ => none
    else if s.startsWith "rgb(" && s.endsWith ")" then
      match (((s.drop 4).dropEnd 1).toString.splitOn ",").map (fun t => num? t.trimAscii.toString) with
      | [some r, some g, some b] => some (some { r := r / 255, g := g / 255, b := b / 255 })
      | _ => none
    else (namedColor s).map some

/-! ### geometry in device space -/

structure Rect where
  x0 : Rat
  x1 : Rat
  y0 : Rat
  y1 : Rat

def Rect.show (r : Rect) : String := s!"[{showQ r.x0},{showQ r.x1}]x[{showQ r.y0},{showQ r.y1}]"

def mkRect (xa xb ya yb : Rat) : Rect := { x0 := minQ xa xb, x1 := maxQ xa xb, y0 := minQ ya yb, y1 := maxQ ya yb }

/-- axis-parallel affine map  (x, y) ↦ (sx·x + tx, sy·y + ty) -/
structure Xf where
  sx : Rat := 1
  sy : Rat := 1
  tx : Rat := 0
  ty : Rat := 0

def Xf.app (t : Xf) (p : Rat × Rat) : Rat × Rat := (t.sx * p.1 + t.tx, t.sy * p.2 + t.ty)
/-- `outer ∘ inner` -/
def Xf.comp (o i : Xf) : Xf := { sx := o.sx * i.sx, sy := o.sy * i.sy, tx := o.sx * i.tx + o.tx, ty := o.sy * i.ty + o.ty }

inductive Paint where
  | fill (r : Rect) (c : Color)
  | fillPage (c : Color)
  | stroke (rs : List Rect) (c : Color)

/-- a subpath in device space -/
structure Sub where
  pts : List (Rat × Rat)
  closed : Bool

/-- a stroked subpath must be one horizontal segment; the stroke covers `hw` on both sides (butt caps) -/
def strokeRects (hw : Rat) (subs : List Sub) : Except String (List Rect) :=
  subs.mapM (fun s =>
    match s.pts with
    | [(xa, ya), (xb, yb)] =>
      if s.closed then .error "stroked-subpath-is-closed"
      else if ya != yb then .error s!"stroked-segment-not-horizontal-{showQ xa},{showQ ya}-{showQ xb},{showQ yb}"
      else .ok (mkRect xa xb (ya - hw) (ya + hw))
    | _ => .error s!"stroked-subpath-has-{s.pts.length}-points")

/-- a filled subpath must be an axis-parallel rectangle -/
def fillRect (s : Sub) : Except String Rect :=
  match s.pts with
  | [] => .error "filled-subpath-empty"
  | p :: rest =>
    let pts := if rest.getLast? == some p then p :: rest.dropLast else p :: rest
    let xs := pts.map (·.1)
    let ys := pts.map (·.2)
    let x0 := xs.foldl minQ p.1
    let x1 := xs.foldl maxQ p.1
    let y0 := ys.foldl minQ p.2
    let y1 := ys.foldl maxQ p.2
    let corner := fun (q : Rat × Rat) => (q.1 == x0 || q.1 == x1) && (q.2 == y0 || q.2 == y1)
    if pts.length == 4 && pts.all corner
        && [(x0, y0), (x1, y0), (x1, y1), (x0, y1)].all (fun c => pts.any (fun q => q.1 == c.1 && q.2 == c.2)) then
      .ok { x0 := x0, x1 := x1, y0 := y0, y1 := y1 }
    else .error s!"filled-subpath-not-a-rectangle-{pts.length}-points"

/-- path builder shared by the four interpreters (device coordinates are computed by the caller) -/
structure PathSt where
  subs : List Sub := []              -- finished, reversed
  cur : List (Rat × Rat) := []       -- points of the open subpath, reversed
  start : Option (Rat × Rat) := none
  pos : Option (Rat × Rat) := none   -- current point (device)
  upos : Rat × Rat := (0, 0)         -- current point (user space, for relative commands)
  ustart : Rat × Rat := (0, 0)

def PathSt.flush (p : PathSt) (closed : Bool := false) : PathSt :=
  if p.cur.length ≥ 2 then { p with subs := { pts := p.cur.reverse, closed := closed } :: p.subs, cur := [] }
  else { p with cur := [] }

def PathSt.moveTo (p : PathSt) (u d : Rat × Rat) : PathSt :=
  let p := p.flush
  { p with cur := [d], start := some d, pos := some d, upos := u, ustart := u }

def PathSt.lineTo (p : PathSt) (u d : Rat × Rat) : Except String PathSt :=
  match p.pos with
  | none => .error "lineto-without-current-point"
  | some q =>
    let cur := if p.cur.isEmpty then [q] else p.cur
    .ok { p with cur := d :: cur, pos := some d, upos := u }

def PathSt.close (p : PathSt) : PathSt :=
  match p.start with
  | none => p
  | some s => let q := p.flush true; { q with pos := some s, upos := p.ustart, cur := [] }

def PathSt.done (p : PathSt) : List Sub := p.flush.subs.reverse

/-! ### SVG path data -/

def pathArity (c : Char) : Option Nat :=
  match c.toLower with
  | 'm' => some 2 | 'l' => some 2 | 'h' => some 1 | 'v' => some 1 | 'z' => some 0
  | _ => none

/-- groups `M,2,2.5,h,7,…` into (command, arguments) -/
def groupPath (toks : List String) : Except String (List (Char × List Rat)) :=
  let step := fun (acc : Except String (List (Char × List Rat))) (t : String) =>
    acc.bind (fun gs =>
      match t.toList with
      | [c] =>
        if c.isAlpha then .ok ((c, []) :: gs)
        else match num? t, gs with
          | some q, (c', as) :: rest => .ok ((c', q :: as) :: rest)
          | _, _ => .error s!"bad-path-token-{t}"
      | _ =>
        match num? t, gs with
        | some q, (c', as) :: rest => .ok ((c', q :: as) :: rest)
        | _, _ => .error s!"bad-path-token-{t}")
  (toks.foldl step (.ok [])).map (fun gs => (gs.map (fun (c, as) => (c, as.reverse))).reverse)

def chunks (k : Nat) (xs : List Rat) : List (List Rat) :=
  if k == 0 then [] else
  let rec go (fuel : Nat) (xs : List Rat) : List (List Rat) :=
    match fuel, xs with
    | 0, _ => []
    | _, [] => []
    | f + 1, xs => xs.take k :: go f (xs.drop k)
  go xs.length xs

/-- interprets the path data in user space and maps every point with `xf` -/
def svgPath (xf : Xf) (toks : List String) : Except String (List Sub) := do
  let groups ← groupPath toks
  let mut p : PathSt := {}
  for (c, args) in groups do
    match pathArity c with
    | none => throw s!"unsupported-path-command-{c}"
    | some 0 =>
      if !args.isEmpty then throw "arguments-after-closepath"
      p := p.close
    | some k =>
      if args.isEmpty || args.length % k != 0 then throw s!"wrong-number-of-arguments-for-{c}"
      let rel := c.isLower
      let mut first := true
      for a in chunks k args do
        let (ux, uy) := p.upos
        let u : Rat × Rat :=
          match c.toLower, a with
          | 'h', [x] => (if rel then ux + x else x, uy)
          | 'v', [y] => (ux, if rel then uy + y else y)
          | _, [x, y] => if rel then (ux + x, uy + y) else (x, y)
          | _, _ => (ux, uy)
        if c.toLower == 'm' && first then
          p := p.moveTo u (xf.app u)
        else
          p ← p.lineTo u (xf.app u)
        first := false
  return p.done

/-- `scale:3.3`, `scale:2:3`, `translate:1:2`, `matrix:a:b:c:d:e:f` (b = c = 0) -/
def svgTransform (s : String) : Except String Xf :=
  match s.splitOn ":" with
  | name :: args =>
    match name, nums? args with
    | "scale", some [k] => .ok { sx := k, sy := k }
    | "scale", some [kx, ky] => .ok { sx := kx, sy := ky }
    | "translate", some [a] => .ok { tx := a }
    | "translate", some [a, b] => .ok { tx := a, ty := b }
    | "matrix", some [a, b, c, d, e, f] =>
      if b == 0 && c == 0 then .ok { sx := a, sy := d, tx := e, ty := f } else .error s!"unsupported-transform-{s}"
    | _, _ => .error s!"unsupported-transform-{s}"
  | [] => .error "empty-transform"

/-- `xf=` value: transforms from the outermost group to the element itself, separated by `/` -/
def svgTransforms (s : String) : Except String Xf :=
  (splitList s "/").foldlM (fun acc t => (svgTransform t).map (fun x => acc.comp x)) ({} : Xf)

/-- attributes of one `<path>`: `stroke:#000|so:0.5|fill:#eee|fo:1|sw:1|xf:scale:3.3|d:M,2,2.5,h,7` -/
def pathAttrs (s : String) : List (String × String) :=
  (s.splitOn "|").map (fun kv =>
    match kv.splitOn ":" with
    | k :: vs => (k, ":".intercalate vs)
    | [] => ("", ""))

def attr (as : List (String × String)) (k : String) : Option String := (as.find? (·.1 == k)).map (·.2)

def unescape (s : String) : String :=
  -- harness escapes `%`, ` `, `|`, `;`, `=` inside attribute values as %XX
  let rec go : List Char → List Char
    | '%' :: a :: b :: rest => Char.ofNat (hexVal a * 16 + hexVal b) :: go rest
    | c :: rest => c :: go rest
    | [] => []
  String.ofList (go s.toList)

def withOpacity (c : Color) (o : Option String) : Except String Color :=
  match o with
  | none => .ok c
  | some t => match num? t with
    | some q => .ok { c with a := c.a * q }
    | none => .error s!"bad-opacity-{t}"

/-- paints of one SVG path element, in painting order (fill first, then stroke) -/
def svgElement (s : String) : Except String (List Paint) := do
  let as := pathAttrs s
  let xf ← svgTransforms ((attr as "xf").getD "")
  let subs ← svgPath xf (splitList ((attr as "d").getD "") ",")
  let strokeP ← match attr as "stroke" with
    | none => pure none
    | some t => match svgPaint (unescape t) with
      | some c => pure c
      | none => throw s!"unknown-stroke-colour-{t}"
  let fillP ← match attr as "fill" with
    | none => pure none     -- the default fill (black) paints nothing on zero-area subpaths; see below
    | some t => match svgPaint (unescape t) with
      | some c => pure c
      | none => throw s!"unknown-fill-colour-{t}"
  let mut out : List Paint := []
  match fillP with
  | some c =>
    let c ← withOpacity c (attr as "fo")
    for sp in subs do
      let r ← fillRect sp
      out := out ++ [Paint.fill r c]
  | none =>
    -- no fill attribute: SVG fills with black; harmless only if every subpath has zero area
    if (attr as "fill").isNone && subs.any (fun sp => sp.pts.length > 2) then throw "implicit-black-fill-of-an-area"
  match strokeP with
  | some c =>
    let c ← withOpacity c (attr as "so")
    let w ← match attr as "sw" with
      | none => pure (1 : Rat)
      | some t => match num? t with
        | some q => pure q
        | none => throw s!"bad-stroke-width-{t}"
    let rs ← strokeRects (w * absQ xf.sy / 2) subs
    out := out ++ [Paint.stroke rs c]
  | none => pure ()
  return out

/-! ### PostScript (the subset an EPS of this kind uses) -/

structure GState where
  ctm : Xf := {}
  fillC : Color := { r := 0, g := 0, b := 0 }
  strokeC : Color := { r := 0, g := 0, b := 0 }
  lw : Rat := 1

structure Machine where
  stack : List Rat := []
  gs : GState := {}
  saved : List GState := []
  path : PathSt := {}
  clip : Bool := false            -- current path = clippath
  paints : List Paint := []       -- reversed

/-- `/m { rmoveto } bind def` … → table of procedures, remaining tokens -/
def psDefs (toks : List String) : Except String (List (String × List String) × List String) :=
  let rec go (fuel : Nat) (toks : List String) (defs : List (String × List String)) (out : List String) :
      Except String (List (String × List String) × List String) :=
    match fuel, toks with
    | 0, _ => .ok (defs, out.reverse)
    | _, [] => .ok (defs, out.reverse)
    | f + 1, t :: rest =>
      if t.startsWith "/" then
        match rest with
        | "{" :: rest' =>
          let body := rest'.takeWhile (· != "}")
          if body.any (· == "{") then .error "nested-procedure"
          else
            let after := (rest'.dropWhile (· != "}")).drop 1
            let after := if after.head? == some "bind" then after.drop 1 else after
            if after.head? == some "def" then go f (after.drop 1) (((t.drop 1).toString, body) :: defs) out
            else .error s!"procedure-{t}-without-def"
        | _ => .error s!"unsupported-literal-name-{t}"
      else go f rest defs (t :: out)
  go (toks.length + 1) toks [] []

def expandDefs (defs : List (String × List String)) (toks : List String) : List String :=
  -- two rounds: procedures may use procedures defined before them
  let once := fun (ts : List String) => ts.flatMap (fun t => match defs.find? (·.1 == t) with | some d => d.2 | none => [t])
  once (once toks)

def pop2 (m : Machine) : Except String (Rat × Rat × Machine) :=
  match m.stack with
  | b :: a :: rest => .ok (a, b, { m with stack := rest })
  | _ => .error "stack-underflow"

def pop3 (m : Machine) : Except String (Rat × Rat × Rat × Machine) :=
  match m.stack with
  | c :: b :: a :: rest => .ok (a, b, c, { m with stack := rest })
  | _ => .error "stack-underflow"

def Machine.strokeNow (m : Machine) : Except String Machine := do
  let rs ← strokeRects (m.gs.lw * absQ m.gs.ctm.sy / 2) m.path.done
  return { m with paints := Paint.stroke rs m.gs.strokeC :: m.paints, path := {}, clip := false }

def Machine.fillNow (m : Machine) : Except String Machine := do
  if m.clip then return { m with paints := Paint.fillPage m.gs.fillC :: m.paints, path := {}, clip := false }
  let rs ← m.path.done.mapM fillRect
  return { m with paints := (rs.map (fun r => Paint.fill r m.gs.fillC)).reverse ++ m.paints, path := {}, clip := false }

def chan01 (q : Rat) : Except String Rat := if 0 ≤ q && q ≤ 1 then .ok q else .error s!"colour-component-{showQ q}-out-of-range"

def psStep (m : Machine) (t : String) : Except String Machine :=
  match num? t with
  | some q => .ok { m with stack := q :: m.stack }
  | none =>
    match t with
    | "setrgbcolor" => do
      let (r, g, b, m) ← pop3 m
      let c : Color := { r := ← chan01 r, g := ← chan01 g, b := ← chan01 b }
      return { m with gs := { m.gs with fillC := c, strokeC := c } }
    | "setgray" =>
      match m.stack with
      | g :: rest => do
        let g ← chan01 g
        return { m with stack := rest, gs := { m.gs with fillC := { r := g, g := g, b := g }, strokeC := { r := g, g := g, b := g } } }
      | _ => .error "stack-underflow"
    | "setlinewidth" =>
      match m.stack with
      | w :: rest => .ok { m with stack := rest, gs := { m.gs with lw := w } }
      | _ => .error "stack-underflow"
    | "scale" => do
      let (sx, sy, m) ← pop2 m
      return { m with gs := { m.gs with ctm := m.gs.ctm.comp { sx := sx, sy := sy } } }
    | "translate" => do
      let (tx, ty, m) ← pop2 m
      return { m with gs := { m.gs with ctm := m.gs.ctm.comp { tx := tx, ty := ty } } }
    | "newpath" => .ok { m with path := {}, clip := false }
    | "clippath" => .ok { m with path := {}, clip := true }
    | "moveto" => do
      let (x, y, m) ← pop2 m
      return { m with path := m.path.moveTo (x, y) (m.gs.ctm.app (x, y)), clip := false }
    | "lineto" => do
      let (x, y, m) ← pop2 m
      return { m with path := ← m.path.lineTo (x, y) (m.gs.ctm.app (x, y)) }
    | "rmoveto" => do
      let (dx, dy, m) ← pop2 m
      match m.path.pos with
      | none => throw "rmoveto-without-current-point"
      | some (px, py) =>
        let u := (m.path.upos.1 + dx, m.path.upos.2 + dy)
        return { m with path := m.path.moveTo u (px + m.gs.ctm.sx * dx, py + m.gs.ctm.sy * dy) }
    | "rlineto" => do
      let (dx, dy, m) ← pop2 m
      match m.path.pos with
      | none => throw "rlineto-without-current-point"
      | some (px, py) =>
        let u := (m.path.upos.1 + dx, m.path.upos.2 + dy)
        return { m with path := ← m.path.lineTo u (px + m.gs.ctm.sx * dx, py + m.gs.ctm.sy * dy) }
    | "closepath" => .ok { m with path := m.path.close }
    | "stroke" => m.strokeNow
    | "fill" => m.fillNow
    | "gsave" => .ok { m with saved := m.gs :: m.saved }
    | "grestore" =>
      match m.saved with
      | g :: rest => .ok { m with gs := g, saved := rest }
      | [] => .error "grestore-without-gsave"
    | "showpage" => .ok m
    | _ => .error s!"unsupported-ps-operator-{t}"

def psRun (toks : List String) : Except String (List Paint) := do
  let (defs, rest) ← psDefs toks
  let m ← (expandDefs defs rest).foldlM psStep ({} : Machine)
  if !m.stack.isEmpty then throw "operands-left-on-the-stack"
  if !(m.path.done.isEmpty) then throw "path-constructed-but-never-painted"
  return m.paints.reverse

/-! ### PDF content stream -/

def pdfStep (m : Machine) (t : String) : Except String Machine :=
  match num? t with
  | some q => .ok { m with stack := q :: m.stack }
  | none =>
    match t with
    | "q" => .ok { m with saved := m.gs :: m.saved }
    | "Q" =>
      match m.saved with
      | g :: rest => .ok { m with gs := g, saved := rest }
      | [] => .error "Q-without-q"
    | "cm" =>
      match m.stack with
      | f :: e :: d :: c :: b :: a :: rest =>
        if b != 0 || c != 0 then .error "unsupported-cm-with-rotation-or-skew"
        else .ok { m with stack := rest, gs := { m.gs with ctm := m.gs.ctm.comp { sx := a, sy := d, tx := e, ty := f } } }
      | _ => .error "stack-underflow"
    | "rg" => do
      let (r, g, b, m) ← pop3 m
      return { m with gs := { m.gs with fillC := { r := ← chan01 r, g := ← chan01 g, b := ← chan01 b } } }
    | "RG" => do
      let (r, g, b, m) ← pop3 m
      return { m with gs := { m.gs with strokeC := { r := ← chan01 r, g := ← chan01 g, b := ← chan01 b } } }
    | "g" =>
      match m.stack with
      | g :: rest => do let g ← chan01 g; return { m with stack := rest, gs := { m.gs with fillC := { r := g, g := g, b := g } } }
      | _ => .error "stack-underflow"
    | "G" =>
      match m.stack with
      | g :: rest => do let g ← chan01 g; return { m with stack := rest, gs := { m.gs with strokeC := { r := g, g := g, b := g } } }
      | _ => .error "stack-underflow"
    | "w" =>
      match m.stack with
      | w :: rest => .ok { m with stack := rest, gs := { m.gs with lw := w } }
      | _ => .error "stack-underflow"
    | "re" =>
      match m.stack with
      | h :: w :: y :: x :: rest => do
        let t := m.gs.ctm
        let p := m.path.moveTo (x, y) (t.app (x, y))
        let p ← p.lineTo (x + w, y) (t.app (x + w, y))
        let p ← p.lineTo (x + w, y + h) (t.app (x + w, y + h))
        let p ← p.lineTo (x, y + h) (t.app (x, y + h))
        return { m with stack := rest, path := p.close }
      | _ => .error "stack-underflow"
    | "m" => do
      let (x, y, m) ← pop2 m
      return { m with path := m.path.moveTo (x, y) (m.gs.ctm.app (x, y)) }
    | "l" => do
      let (x, y, m) ← pop2 m
      return { m with path := ← m.path.lineTo (x, y) (m.gs.ctm.app (x, y)) }
    | "h" => .ok { m with path := m.path.close }
    | "S" => m.strokeNow
    | "f" => m.fillNow
    | "F" => m.fillNow
    | "f*" => m.fillNow
    | "n" => .ok { m with path := {} }
    | _ => .error s!"unsupported-pdf-operator-{t}"

def pdfRun (toks : List String) : Except String (List Paint) := do
  let m ← toks.foldlM pdfStep ({} : Machine)
  if !m.stack.isEmpty then throw "operands-left-on-the-stack"
  if !(m.path.done.isEmpty) then throw "path-constructed-but-never-painted"
  return m.paints.reverse

/-! ### the common judgement: rasterisation on the module grid -/

/-- `border=-` : the default quiet zone (4 modules for QR Codes, 2 for Micro QR Codes) -/
def effBorder (size : Nat) (b : Option Nat) : Nat :=
  match b with
  | some x => x
  | none => if size < 21 then 2 else 4

/-- `|v − round v| ≤ tol` -/
def snap (tol : Rat) (v : Rat) : Option Int :=
  let r := roundQ v
  if absQ (v - (r : Rat)) ≤ tol then some r else none

/-- number of the (row-local) segments `[a, b)` that cover column `j` -/
def coverAt (segs : List (Nat × Nat)) (j : Nat) : Nat := (segs.filter (fun s => s.1 ≤ j && j < s.2)).length

/-- coverage counts of one row of width `n` -/
def rowCover (n : Nat) (segs : List (Nat × Nat)) : List Nat := (List.range n).map (coverAt segs)

/-- the row of the page grid (quiet zone included) that row `i` of the page should show: 1 = dark -/
def pageRow (m : List (List Nat)) (size b : Nat) (i : Nat) : List Nat :=
  let n := size + 2 * b
  if i < b || i ≥ b + size then List.replicate n 0
  else
    let row := (m.getD (i - b) []).map (fun x => if x == 0 then 0 else 1)
    List.replicate b 0 ++ (row ++ List.replicate (size - row.length) 0).take size ++ List.replicate b 0

def firstDiff (want got : List Nat) : Option (Nat × Nat × Nat) :=
  ((want.zip got).zipIdx.find? (fun (p, _) => p.1 != p.2)).map (fun (p, j) => (j, p.1, p.2))

/-- grid segments (row, first column, end column) of the stroked rectangles; `top` is the device y of
    the upper edge of grid row 0, `yUp` tells whether device y grows upwards -/
def gridSegs (s tol : Rat) (n : Nat) (yUp : Bool) (top : Rat) (rs : List Rect) : Except String (List (Nat × Nat × Nat)) :=
  rs.filterMapM (fun r =>
    let ya := if yUp then top - r.y1 else r.y0 - top
    let yb := if yUp then top - r.y0 else r.y1 - top
    match snap tol (ya / s), snap tol (yb / s), snap tol (r.x0 / s), snap tol (r.x1 / s) with
    | some i0, some i1, some j0, some j1 =>
      if i1 != i0 + 1 then .error s!"segment-height-is-not-one-module-{r.show}"
      else if i0 < 0 || i0 ≥ (n : Int) || j0 < 0 || j1 > (n : Int) then .error s!"segment-outside-the-page-{r.show}"
      else if j0 == j1 then .ok none
      else .ok (some (i0.toNat, j0.toNat, j1.toNat))
    | _, _, _, _ => .error s!"segment-off-the-module-grid-{r.show}")

structure Want where
  fmt : String := ""
  m : List (List Nat)
  size : Nat
  b : Nat
  s : Rat
  dark : Option Color
  light : Option Color

def colourError (what : String) (want got : Color) : String := s!"{what}-colour-{got.show}-requested-{want.show}"

/-- walks the paints in painting order; returns the stroked rectangles -/
def checkPaints (w : Want) (pageCover : Rect → Bool) (paints : List Paint) : Except String (List Rect) := do
  let mut strokes : List Rect := []
  let mut seenStroke := false
  let mut bg := false
  for p in paints do
    match p with
    | .stroke rs c =>
      match w.dark with
      | none => throw "modules-stroked-although-no-dark-colour-was-requested"
      | some d =>
        if !d.same c then throw (colourError "dark" d c)
        seenStroke := true
        strokes := strokes ++ rs
    | .fill r c =>
      match w.light with
      | none => throw s!"area-filled-although-no-light-colour-was-requested-{r.show}"
      | some l =>
        if seenStroke then throw "background-painted-over-the-modules"
        if !l.same c then throw (colourError "light" l c)
        if !pageCover r then throw s!"background-{r.show}-does-not-cover-the-page"
        bg := true
    | .fillPage c =>
      match w.light with
      | none => throw "page-filled-although-no-light-colour-was-requested"
      | some l =>
        if seenStroke then throw "background-painted-over-the-modules"
        if !l.same c then throw (colourError "light" l c)
        bg := true
  if w.light.isSome && !bg then throw "requested-light-colour-not-painted"
  return strokes

/-- every dark module covered exactly once, no light module, nothing outside -/
def checkCoverage (w : Want) (segs : List (Nat × Nat × Nat)) : Except String Unit := do
  let n := w.size + 2 * w.b
  let byRow : Array (List (Nat × Nat)) :=
    segs.foldl (fun a (i, j0, j1) => a.modify i (fun l => (j0, j1) :: l)) (Array.replicate n [])
  for i in List.range n do
    let want := if w.dark.isSome then pageRow w.m w.size w.b i else List.replicate n 0
    let got := rowCover n (byRow.getD i [])
    match firstDiff want got with
    | none => pure ()
    | some (j, wv, gv) =>
      let where_ := s!"row-{(i : Int) - w.b}-col-{(j : Int) - w.b}"
      if wv == 1 && gv == 0 then throw s!"dark-module-not-painted-{where_}"
      else if wv == 1 then throw s!"dark-module-painted-{gv}-times-{where_}"
      else throw s!"light-module-painted-{where_}"

def segsStr (b : Nat) (segs : List (Nat × Nat × Nat)) : String :=
  ";".intercalate (segs.map (fun (i, j0, j1) => s!"{(i : Int) - b}:{(j0 : Int) - b}:{(j1 : Int) - b}"))

/-- common part: page size (if the format has a page), paints, coverage.  Returns the grid segments. -/
def judgePaints (w : Want) (page : Option (Rat × Rat)) (yUp : Bool) (top : Rat) (tol : Rat) (paints : List Paint) :
    Except String (List (Nat × Nat × Nat)) := do
  let n := w.size + 2 * w.b
  let P : Rat := (n : Rat) * w.s
  match page with
  | some (pw, ph) =>
    if !(closeTo pw P && closeTo ph P) then throw s!"page-{showQ pw}x{showQ ph}-expected-{showQ P}-square"
  | none => pure ()
  let eps := relTol * P
  let cover := fun (r : Rect) => r.x0 ≤ eps && r.y0 ≤ eps && r.x1 ≥ P - eps && r.y1 ≥ P - eps
  let strokes ← checkPaints w cover paints
  let segs ← gridSegs w.s tol n yUp top strokes
  checkCoverage w segs
  return segs

/-! ### reference semantics of the relative path commands (used by the theorems `rel_abs` of Props/C10) -/

/-- SVG `M/m dx dy h len` sequences: pen at (px, py); every element moves the pen by (dx, dy) and draws a
    horizontal line of length `len`.  Result: absolute `(x1, y, x2)`.  (y in any additive unit.) -/
def svgAbs : Int → Int → List (Int × Int × Int) → List (Int × Int × Int)
  | _, _, [] => []
  | px, py, (dx, dy, len) :: rest => (px + dx, py + dy, px + dx + len) :: svgAbs (px + dx + len) (py + dy) rest

/-- PostScript `dx dy rmoveto len 0 rlineto` sequences with y carried as twice its value and `dy` in whole units -/
def epsAbs : Int → Int → List (Int × Int × Int) → List (Int × Int × Int)
  | _, _, [] => []
  | px, py2, (dx, dy, len) :: rest => (px + dx, py2 + 2 * dy, px + dx + len) :: epsAbs (px + dx + len) (py2 + 2 * dy) rest

/-! ### request handling -/

def sanitize (s : String) : String := String.ofList (s.toList.map (fun c => if c == ' ' || c == '\n' || c == '\t' then '_' else c))

def wantOf (r : Req) : Except String Want := do
  let m := (parseMatrix (r.getD "m" "")).toList.map (·.toList)
  let size := m.length
  if size == 0 || m.any (fun row => row.length != size) then throw "bad-matrix"
  let b := effBorder size (optNat (r.getD "border" "-"))
  let s ← match num? (r.getD "scale" "1") with
    | some q => if q > 0 then pure q else throw "scale-not-positive"
    | none => throw "bad-scale"
  let dark ← match requested (r.getD "dark" "none") with
    | some c => pure c
    | none => throw s!"judge-does-not-understand-dark-{r.getD "dark" ""}"
  let light ← match requested (r.getD "light" "none") with
    | some c => pure c
    | none => throw s!"judge-does-not-understand-light-{r.getD "light" ""}"
  return { fmt := r.getD "fmt" "", m := m, size := size, b := b, s := s, dark := dark, light := light }

def answer (id : String) (res : Except String (Nat × List (Nat × Nat × Nat))) : String :=
  match res with
  | .ok (b, segs) => s!"id={id} c10=ok nsegs={segs.length} segs={segsStr b segs}"
  | .error e => s!"id={id} c10={sanitize e}"

/-- SVG: `w=30mm h=30mm vb=0,0,30,30 unit=mm omitsize=0 els=<path>;<path>` -/
def judgeSvg (r : Req) : Except String (Nat × List (Nat × Nat × Nat)) := do
  let w ← wantOf r
  let n := w.size + 2 * w.b
  let P : Rat := (n : Rat) * w.s
  let unit := let u := r.getD "unit" "-"; if u == "-" then "" else unescape u
  let omitSz := r.getD "omitsize" "0" == "1"
  let wa := unescape (r.getD "w" "-")
  let ha := unescape (r.getD "h" "-")
  let vb := r.getD "vb" "-"
  -- width / height attributes
  let dims : Option (Rat × Rat) ←
    if wa == "-" && ha == "-" then pure none
    else match numUnit? wa, numUnit? ha with
      | some (wq, wu), some (hq, hu) =>
        if wu != unit || hu != unit then throw s!"size-unit-{wu}-{hu}-requested-{if unit == "" then "none" else unit}"
        else pure (some (wq, hq))
      | _, _ => throw s!"bad-width-height-{wa}-{ha}"
  if omitSz && dims.isSome then throw "width-height-present-although-omitsize"
  if !omitSz && dims.isNone then throw "width-height-missing"
  let box : Option (Rat × Rat) ←
    if vb == "-" then pure none
    else match nums? (vb.splitOn ",") with
      | some [x, y, vw, vh] => if x != 0 || y != 0 then throw s!"viewBox-origin-{vb}" else pure (some (vw, vh))
      | _ => throw s!"bad-viewBox-{vb}"
  -- the user space of the outermost element: the viewBox if present, else width × height in user units
  let page ← match box, dims with
    | some bx, some d =>
      if !(closeTo d.1 P && closeTo d.2 P) then throw s!"size-{showQ d.1}x{showQ d.2}-expected-{showQ P}-square"
      else pure bx
    | some bx, none => pure bx
    | none, some d => if unit != "" then throw "unit-without-viewBox" else pure d
    | none, none => throw "neither-size-nor-viewBox"
  for k in ["title", "desc"] do
    match r.get ("w" ++ k) with
    | some want => if r.getD k "-" != want then throw s!"{k}-differs-from-the-request"
    | none => pure ()
  if r.getD "other" "-" != "-" then throw s!"unexpected-elements-{r.getD "other" "-"}"
  let paints ← (splitList (r.getD "els" "") ";").foldlM (fun acc e => (svgElement e).map (fun ps => acc ++ ps)) []
  let segs ← judgePaints w (some page) false 0 0 paints
  return (w.b, segs)

/-- EPS: `bb=0,0,15,15 hbb=- prog=<tokens>` -/
def judgeEps (r : Req) : Except String (Nat × List (Nat × Nat × Nat)) := do
  let w ← wantOf r
  let n := w.size + 2 * w.b
  let P : Rat := (n : Rat) * w.s
  let boxOf := fun (k : String) => do
    match nums? ((r.getD k "-").splitOn ",") with
    | some [x0, y0, x1, y1] =>
      if x0 != 0 || y0 != 0 then throw s!"{k}-origin-{r.getD k ""}" else pure (x1, y1)
    | _ => throw s!"bad-{k}-{r.getD k "-"}"
  if r.getD "magic" "1" != "1" then throw "missing-EPSF-header-comment"
  let bb ← boxOf "bb"
  if r.getD "hbb" "-" != "-" then
    let h ← boxOf "hbb"
    if !(closeTo h.1 P && closeTo h.2 P) then throw s!"HiResBoundingBox-{showQ h.1}x{showQ h.2}-expected-{showQ P}-square"
  let paints ← psRun (splitList (r.getD "prog" "") ",")
  let segs ← judgePaints w (some bb) true P 0 paints
  return (w.b, segs)

/-- PDF: `mediabox=0,0,15,15 length=487 streamlen=487 xref=0:65535:f,16:0:n,… objs=1:16,2:65,… startxref=931
    xrefpos=931 content=<tokens>` -/
def judgePdf (r : Req) : Except String (Nat × List (Nat × Nat × Nat)) := do
  let w ← wantOf r
  let n := w.size + 2 * w.b
  let P : Rat := (n : Rat) * w.s
  let mb ← match nums? ((r.getD "mediabox" "-").splitOn ",") with
    | some [x0, y0, x1, y1] => if x0 != 0 || y0 != 0 then throw s!"MediaBox-origin-{r.getD "mediabox" ""}" else pure (x1, y1)
    | _ => throw s!"bad-MediaBox-{r.getD "mediabox" "-"}"
  -- /Length
  match (r.getD "length" "-").toNat?, (r.getD "streamlen" "-").toNat? with
  | some l, some sl => if l != sl then throw s!"Length-{l}-but-stream-has-{sl}-bytes"
  | _, _ => throw "Length-or-stream-missing"
  -- cross-reference table: entry of every defined object
  let xref := (splitList (r.getD "xref" "") ",").map (fun e => e.splitOn ":")
  let objs := (splitList (r.getD "objs" "") ",").map (fun e => e.splitOn ":")
  if objs.isEmpty then throw "no-objects"
  if r.getD "rootok" "1" != "1" then throw "trailer-Root-is-not-the-catalog"
  let first := (r.getD "xfirst" "0").toNat?.getD 0
  for o in objs do
    match o with
    | [num, off] =>
      match num.toNat?, off.toNat? with
      | some k, some pos =>
        match (if k < first then none else xref[k - first]?) with
        | some [xo, _gen, ty] =>
          if ty != "n" then throw s!"xref-entry-{k}-is-not-in-use"
          if xo.toNat? != some pos then throw s!"xref-entry-{k}-is-{xo}-but-object-starts-at-{pos}"
        | _ => throw s!"xref-has-no-entry-for-object-{k}"
      | _, _ => throw "bad-object-list"
    | _ => throw "bad-object-list"
  match (r.getD "startxref" "-").toNat?, (r.getD "xrefpos" "-").toNat? with
  | some a, some b => if a != b then throw s!"startxref-{a}-but-xref-table-at-{b}"
  | _, _ => throw "startxref-or-xref-table-missing"
  let paints ← pdfRun (splitList (r.getD "content" "") ",")
  let segs ← judgePaints w (some mb) true P 0 paints
  return (w.b, segs)

/-- TeX: `unit=pt cmds=lw:1pt,color:<hex>,mv:2pt:-2pt,ln:9pt:-2pt,…,use:stroke`, `dark=tex:<hex>`.
    No page box: grid row i is centred at y = −i·scale, column j starts at x = j·scale (in `unit`). -/
def judgeTex (r : Req) : Except String (Nat × List (Nat × Nat × Nat)) := do
  let darkName := match (r.getD "dark" "tex:").splitOn ":" with
    | ["tex", h] => h
    | _ => ""
  let w ← wantOf ((r.filter (fun kv => kv.1 != "dark" && kv.1 != "light")) ++ [("dark", "name:black"), ("light", "none")])
  let unit := unescape (r.getD "unit" "pt")
  let coord := fun (t : String) => do
    match numUnit? (unescape t) with
    | some (q, u) => if u != unit then throw s!"unit-{u}-requested-{unit}" else pure q
    | none => throw s!"bad-coordinate-{t}"
  let mut lw : Option Rat := none
  let mut color := ""          -- hex of the colour name, "" = default (black)
  let mut p : PathSt := {}
  let mut rects : List Rect := []
  let mut stroked := false
  let mut inPic := false
  for c in splitList (r.getD "cmds" "") "," do
    match c.splitOn ":" with
    | ["begin"] => inPic := true
    | ["end"] => inPic := false
    | ["lw", t] => lw := some (← coord t)
    | ["color", h] => color := h
    | ["mv", xs, ys] =>
      let x ← coord xs
      let y ← coord ys
      p := p.moveTo (x, y) (x, y)
    | ["ln", xs, ys] =>
      let x ← coord xs
      let y ← coord ys
      p ← p.lineTo (x, y) (x, y)
    | ["use", "stroke"] =>
      if !inPic then throw "stroke-outside-pgfpicture"
      match lw with
      | none => throw "line-width-not-set"
      | some lwv =>
        if !closeTo lwv w.s then throw s!"line-width-{showQ lwv}-expected-{showQ w.s}"
        -- the judged width is the requested one: the stroke must cover whole modules
        rects := rects ++ (← strokeRects (w.s / 2) p.done)
        p := {}
        stroked := true
        let wantC := if darkName == "" || darkName == "626c61636b" then "" else darkName   -- "black"
        let gotC := if color == "626c61636b" then "" else color
        if wantC != gotC then throw s!"colour-{gotC}-requested-{wantC}"
    | _ => throw s!"unsupported-tex-command-{c}"
  if !stroked then throw "nothing-stroked"
  if r.getD "wrap" "1" != "1" then throw "pgfpicture-not-properly-wrapped"
  if !(p.done.isEmpty) then throw "path-constructed-but-never-stroked"
  let n := w.size + 2 * w.b
  let segs ← gridSegs w.s relTol n true (w.s / 2) rects
  checkCoverage w segs
  return (w.b, segs)

def handle (cmd : String) (r : Req) : Option String :=
  let id := r.getD "id" "?"
  match cmd with
  | "svg" => some (answer id (judgeSvg (("fmt", "svg") :: r)))
  | "eps" => some (answer id (judgeEps (("fmt", "eps") :: r)))
  | "pdf" => some (answer id (judgePdf (("fmt", "pdf") :: r)))
  | "tex" => some (answer id (judgeTex r))
  | _ => none

end Spec.Vector
