/-
  Spec.HelperArgs — the argument records of the `segno.helpers` factories (data only, no logic).
  Python `str` → `List Char`, `None` → `none`, "str or iterable of strings or None" → `Arg`.
  Shared by the specification (Spec/Helpers.lean) and the model (Model/Helpers.lean).
-/
namespace Spec.Helpers

abbrev Str := List Char

/-- a parameter documented as "str, iterable of strings, or None" -/
inductive Arg where
  | none
  | str (s : Str)
  | list (l : List Str)
  deriving Repr, DecidableEq, Inhabited

/-- exact rational with explicit sign bit (`-0.0` has `neg = true`, `num = 0`) -/
structure Rat' where
  neg : Bool := false
  num : Nat := 0
  den : Nat := 1
  deriving Repr, DecidableEq, Inhabited

structure WifiArgs where
  ssid : Str
  password : Option Str := none
  security : Option Str := none
  hidden : Bool := false
  deriving Repr, DecidableEq, Inhabited

structure MecardArgs where
  name : Str
  reading : Option Str := none
  email : Arg := .none
  phone : Arg := .none
  videophone : Arg := .none
  memo : Option Str := none
  nickname : Option Str := none
  /-- `datetime.date` objects arrive as their `%Y%m%d` text -/
  birthday : Option Str := none
  url : Arg := .none
  pobox : Option Str := none
  roomno : Option Str := none
  houseno : Option Str := none
  city : Option Str := none
  prefecture : Option Str := none
  zipcode : Option Str := none
  country : Option Str := none
  deriving Repr, DecidableEq, Inhabited

structure VcardArgs where
  name : Str
  displayname : Str
  email : Arg := .none
  phone : Arg := .none
  fax : Arg := .none
  videophone : Arg := .none
  memo : Option Str := none
  nickname : Option Str := none
  /-- `datetime.date` objects arrive as their `%Y-%m-%d` text -/
  birthday : Option Str := none
  url : Arg := .none
  pobox : Option Str := none
  street : Option Str := none
  city : Option Str := none
  region : Option Str := none
  zipcode : Option Str := none
  country : Option Str := none
  org : Option Str := none
  /-- `str(lat)` / `str(lng)` as Python prints the number; `none` = `None` -/
  lat : Option Str := none
  lng : Option Str := none
  /-- truth value of `lat` / `lng` (non-zero number) -/
  latTrue : Bool := false
  lngTrue : Bool := false
  source : Option Str := none
  rev : Option Str := none
  title : Arg := .none
  photoUri : Arg := .none
  cellphone : Arg := .none
  homephone : Arg := .none
  workphone : Arg := .none
  deriving Repr, DecidableEq, Inhabited

structure EmailArgs where
  to : Arg
  cc : Arg := .none
  bcc : Arg := .none
  subject : Option Str := none
  body : Option Str := none
  deriving Repr, DecidableEq, Inhabited

/-- `encoding` parameter of `make_epc_qr` -/
inductive EpcEnc where
  | none
  | num (n : Int)
  | name (s : Str)
  deriving Repr, DecidableEq, Inhabited

structure EpcArgs where
  name : Option Str
  iban : Option Str
  /-- exact value of the `amount` argument -/
  amount : Rat'
  text : Option Str := none
  reference : Option Str := none
  bic : Option Str := none
  purpose : Option Str := none
  encoding : EpcEnc := .none
  /-- runtime service: can the text fields be encoded in encoding 1..8 (index 0 = UTF-8) -/
  can : List Bool := []
  deriving Repr, DecidableEq, Inhabited

/-! ### small parsers shared by the specification and the line protocol -/

/-- put `c` in front of the first piece -/
def consHead (c : Char) : List (List Char) → List (List Char)
  | [] => [[c]]
  | h :: t => (c :: h) :: t

/-- plain split (no escape processing) -/
def splitPlain (d : Char) : List Char → List (List Char)
  | [] => [[]]
  | c :: rest => if c = d then [] :: splitPlain d rest else consHead c (splitPlain d rest)

def isDigit (c : Char) : Bool := '0' ≤ c && c ≤ '9'


def digitVal (c : Char) : Option Nat := if isDigit c then some (c.toNat - 48) else none

def parseDigitsAux : Nat → List Char → Option Nat
  | acc, [] => some acc
  | acc, c :: rest => match digitVal c with
    | some d => parseDigitsAux (acc * 10 + d) rest
    | none => none

/-- non-empty string of ASCII digits -/
def parseDigits (s : List Char) : Option Nat := if s.isEmpty then none else parseDigitsAux 0 s

/-! ### line protocol: how the harness writes the arguments (`key=value` tokens)
     `-` = None, `s<cps>` = str (dotted decimal code points), `l,s<cps>,s<cps>…` = list of str,
     `[-]num/den` = exact number, `n<int>` = int -/

abbrev KV := List (String × String)
def KV.getD (r : KV) (k : String) (d : String) : String := ((r.find? (·.1 == k)).map (·.2)).getD d

def natOfChars (s : List Char) : Nat := (parseDigits s).getD 0

/-- dotted decimal code points -/
def strOfCps (s : List Char) : Str :=
  if s.isEmpty then [] else (splitPlain '.' s).map (fun t => Char.ofNat (natOfChars t))

/-- `-` = None, `s<cps>` = str -/
def optStr (s : String) : Option Str :=
  match s.toList with
  | 's' :: r => some (strOfCps r)
  | _ => none

def getStr (r : KV) (k : String) : Str := (optStr (r.getD k "-")).getD []

/-- `-` = None, `s<cps>` = str, `l,s<cps>,s<cps>…` = list -/
def parseArg (s : String) : Arg :=
  match s.toList with
  | 's' :: r => .str (strOfCps r)
  | 'l' :: r => .list (((splitPlain ',' r).drop 1).map (fun e => match e with | 's' :: x => strOfCps x | _ => []))
  | _ => .none

/-- `[-]num/den` -/
def parseRat (s : String) : Rat' :=
  let (neg, body) := match s.toList with | '-' :: r => (true, r) | l => (false, l)
  match splitPlain '/' body with
  | [n, d] => { neg := neg, num := natOfChars n, den := natOfChars d }
  | [n] => { neg := neg, num := natOfChars n, den := 1 }
  | _ => { neg := neg, num := 0, den := 0 }

def parseEpcEnc (s : String) : EpcEnc :=
  match s.toList with
  | 's' :: r => .name (strOfCps r)
  | 'n' :: '-' :: r => .num (-(natOfChars r : Int))
  | 'n' :: r => .num (natOfChars r)
  | _ => .none

def wifiArgs (r : KV) : WifiArgs :=
  { ssid := getStr r "ssid", password := optStr (r.getD "password" "-"), security := optStr (r.getD "security" "-"),
    hidden := r.getD "hidden" "0" == "1" }

def mecardArgs (r : KV) : MecardArgs :=
  let o := fun k => optStr (r.getD k "-")
  let m := fun k => parseArg (r.getD k "-")
  { name := getStr r "name", reading := o "reading", email := m "email", phone := m "phone", videophone := m "videophone",
    memo := o "memo", nickname := o "nickname", birthday := o "birthday", url := m "url", pobox := o "pobox",
    roomno := o "roomno", houseno := o "houseno", city := o "city", prefecture := o "prefecture", zipcode := o "zipcode",
    country := o "country" }

def vcardArgs (r : KV) : VcardArgs :=
  let o := fun k => optStr (r.getD k "-")
  let m := fun k => parseArg (r.getD k "-")
  { name := getStr r "name", displayname := getStr r "displayname", email := m "email", phone := m "phone", fax := m "fax",
    videophone := m "videophone", memo := o "memo", nickname := o "nickname", birthday := o "birthday", url := m "url",
    pobox := o "pobox", street := o "street", city := o "city", region := o "region", zipcode := o "zipcode",
    country := o "country", org := o "org", lat := o "lat", lng := o "lng", latTrue := r.getD "lattrue" "0" == "1",
    lngTrue := r.getD "lngtrue" "0" == "1", source := o "source", rev := o "rev", title := m "title",
    photoUri := m "photo_uri", cellphone := m "cellphone", homephone := m "homephone", workphone := m "workphone" }

def emailArgs (r : KV) : EmailArgs :=
  { to := parseArg (r.getD "to" "-"), cc := parseArg (r.getD "cc" "-"), bcc := parseArg (r.getD "bcc" "-"),
    subject := optStr (r.getD "subject" "-"), body := optStr (r.getD "body" "-") }

def epcArgs (r : KV) : EpcArgs :=
  let o := fun k => optStr (r.getD k "-")
  { name := o "name", iban := o "iban", amount := parseRat (r.getD "amount" "0/0"), text := o "text", reference := o "reference",
    bic := o "bic", purpose := o "purpose", encoding := parseEpcEnc (r.getD "encoding" "-"),
    can := (r.getD "can" "").toList.map (· == '1') }


end Spec.Helpers
