/-
  C09 / C11 — the PNG writer: scanline stream, palette / tRNS assembly and their composition.
  Property theorems only (helper lemmas: Proofs/PngDefs.lean, PngStream.lean, PngPalette.lean,
  PngIndex.lean, PngPicture.lean).  `Model.writePng` / `Model.savePng` is the hand-written model of
  `writers.write_png` (tied to the real code by the correspondence runs of `./check C09` and
  `./check C11`: IHDR fields, PLTE, tRNS and the inflated IDAT of every PNG, byte for byte);
  `Spec.unfilterUp`, `Spec.unpackRow`, `Spec.Png.img` are the reference reader's semantics.
-/
import Props.C09
import Proofs.PngTwoTone

namespace Props.C09Png

open Model Spec Proofs.Raster Proofs.Png Proofs.Colormap

/-- `png_stream_rows` — the obligation `Props.C09.PngStreamRows`, now proved (unbounded: every index
    grid, width, scale, border, bit depth 1 / 2 / 4): the model's IDAT stream is the concatenation of
    (rows + 2b)·s scanlines, each with filter type 0 or 2 and 1 + ⌈width·depth/8⌉ bytes -/
theorem png_stream_rows : Props.C09.PngStreamRows := by
  intro idx w d s b qz hd hs _ hrows
  refine ⟨pngLines idx w d s b qz, ?_, pngLines_length idx w d s b qz hs, ?_⟩
  · exact pngStream_eq_flat idx w d s b qz
  · exact pngLines_line idx w d s b qz hd (fun r hr => (hrows r hr).1)

/-- `png_stream_scanlines` (the structure of the stream, unbounded): `b·s` quiet zone scanlines of
    filter type 0, then for every module row ONE filter-0 scanline followed by `s − 1` scanlines of
    filter type 2 ("Up") whose bytes are all zero, then `b·s` quiet zone scanlines -/
theorem png_stream_scanlines (idx : List (List Nat)) (w d s b qz : Nat) (hd : d = 1 ∨ d = 2 ∨ d = 4) :
    pngStream idx w d s b qz = flat (pngLines idx w d s b qz)
    ∧ pngLines idx w d s b qz =
        List.replicate (b * s) (0, packRow d (List.replicate ((w + 2 * b) * s) qz))
        ++ idx.flatMap (fun row => (0, packRow d (fullRow s b qz row))
              :: List.replicate (s - 1) (2, List.replicate (((w + 2 * b) * s * d + 7) / 8) 0))
        ++ List.replicate (b * s) (0, packRow d (List.replicate ((w + 2 * b) * s) qz)) := by
  refine ⟨pngStream_eq_flat idx w d s b qz, ?_⟩
  have hrow : rowLines d s b qz ((w + 2 * b) * s) = fun row => (0, packRow d (fullRow s b qz row))
      :: List.replicate (s - 1) (2, List.replicate (((w + 2 * b) * s * d + 7) / 8) 0) := by
    funext row; simp only [rowLines, upLine, packRow_zeros d hd]
  simp only [pngLines, borderLine, hrow]

/-- `png_stream_reconstructs` (unbounded): reconstructing the scanlines with the reference filter
    semantics (type 0 = as is, type 2 = `Spec.unfilterUp` on the scanline above — the Up-filtered zero
    rows become copies) and unpacking the samples (`Spec.unpackRow`) yields the colour-index picture:
    (rows + 2b)·s rows of (w + 2b)·s indexes, pixel (x, y) = the index of module (y div s − b, x div s − b),
    `qz` in the quiet zone.  Composition of `up_filter_zero_row`, `scanline_unpack` / `pack_unpack`
    and the scaling lemmas of `matrix_iter_pixel`. -/
theorem png_stream_reconstructs (idx : List (List Nat)) (w d s b qz : Nat) (hd : d = 1 ∨ d = 2 ∨ d = 4) (hs : 0 < s)
    (hqz : qz < 2 ^ d) (hrows : ∀ r ∈ idx, r.length = w ∧ ∀ v ∈ r, v < 2 ^ d) :
    (recon [] (pngLines idx w d s b qz)).map (unpackRow d ((w + 2 * b) * s)) = idxPicture idx w s b qz
    ∧ ∀ x y, x < (w + 2 * b) * s → y < (idx.length + 2 * b) * s →
        ((idxPicture idx w s b qz).getD y []).getD x 0 = idxCell idx w b qz (y / s) (x / s) :=
  ⟨recon_unpack idx w d s b qz hd hs hqz hrows, fun x y hx hy => idxPicture_pixel idx w s b qz hs x y hx hy⟩

/-- `png_palette_sound` (every colour map, every iteration order of the set): the colour index written
    for a module type points to the palette entry with the tRNS alpha (indexed colour) resp. to the
    grey level (greyscale, tRNS grey value) that the reference reader `Spec.Png.img` shows as the colour
    configured for the type — exact R, G, B, A; "transparent" = alpha 0 -/
theorem png_palette_sound (setOrder : List PColor → List PColor) (hset : SetOrderOK setOrder) (clrMap : List (Nat × PColor))
    (p : PaletteInfo) (hp : buildPalette setOrder clrMap = .ok p) (t : Nat) (c : PColor) (hc : cmGet clrMap t = some c) :
    ∃ x, readColour p.depth (if p.isGrey then 0 else 3) (plteBytes p) (trnsBytes p) (typeIndex p t) = some x ∧ Shows c x :=
  palette_sound setOrder hset clrMap p hp t c hc

/-- `png_standin_and_trns` (indexed colour): the stand-in colour chosen from the CSS table for
    "transparent" is the first palette entry and is none of the colours of the map (nor the
    placeholder); tRNS covers EXACTLY the leading palette entries that have an alpha channel — the
    stand-in, then the RGBA colours — and holds 0 for the stand-in and the alpha value of each colour -/
theorem png_standin_and_trns (setOrder : List PColor → List PColor) (hset : SetOrderOK setOrder) (clrMap : List (Nat × PColor))
    (p : PaletteInfo) (hp : buildPalette setOrder clrMap = .ok p) (hg : p.isGrey = false) :
    (p.isTransparent = true → ∃ T rest, p.palette = T :: rest ∧ T ≠ PColor.transparent
        ∧ ∀ t c, cmGet clrMap t = some c → c ≠ T)
    ∧ ∀ k c, p.palette[k]? = some c →
        ((k < (trnsBytes p).length ↔ (c.isRgba = true ∨ (p.isTransparent = true ∧ k = 0)))
         ∧ (trnsBytes p).getD k 255 = if p.isTransparent = true ∧ k = 0 then 0 else c.alpha) := by
  have h := paletteFrom_trns (palette0 setOrder clrMap) clrMap p hp (head_palette0 setOrder clrMap) hg
  refine ⟨fun ht => ?_, h.2⟩
  obtain ⟨T, rest, hpal, hnot, hne⟩ := h.1 ht
  refine ⟨T, rest, hpal, hne, ?_⟩
  intro t c hc hcT
  apply hnot
  rw [← hcT]
  exact (mem_palette0 setOrder hset clrMap c).2 (cmGet_mem _ _ _ hc)

/-- `png_model_picture_types` (C11; every symbol matrix, every colour map of at most 16 entries, every
    scale ≥ 1, border ≥ 0, iteration order of the set): if the model of `write_png` succeeds, its
    output — IHDR fields, PLTE, tRNS, IDAT stream — read with the reference reader's semantics
    (scanlines reconstructed and unpacked: `readCode`; colour of a code: `Spec.Png.img`) is a picture of
    (w+2b)·s × (h+2b)·s pixels in which EVERY pixel shows the colour configured for its module type
    `pixelType`: the type `matrix_iter_verbose` reports for the pixel (= the ISO type by
    `Props.C11.iter_verbose_pixel`, D8 excepted; the quiet zone type outside the symbol) when the
    expensive iterator is used, and with the cheap iterator (two-tone map, ≤ 2 colours) the type of
    the dark finder modules for a dark module, of the quiet zone for a light one. -/
theorem png_model_picture_types (setOrder : List PColor → List PColor) (hset : SetOrderOK setOrder) (M : List (List Nat)) (w h : Nat)
    (colormap : List (Nat × ColorArg)) (scale : Num) (border : Option Num) (out : PngOut)
    (hM : WellFormed M w h) (hn : colormap.length ≤ 16)
    (hw : writePng setOrder M w h colormap scale border = .ok out) :
    ∃ clrMap p b idx A,
      parseColormap colormap = .ok clrMap ∧ buildPalette setOrder clrMap = .ok p ∧ borderForRange w h border = .ok b
      ∧ indexRows p M w h = .ok idx ∧ 0 < scale.toInt.toNat
      ∧ (useVerbose p = true → alignmentMatrix w = .ok A)
      ∧ (p.depth = 1 ∨ p.depth = 2 ∨ p.depth = 4)
      ∧ out = { width := (w + 2 * b) * scale.toInt.toNat, height := (h + 2 * b) * scale.toInt.toNat, depth := p.depth,
                ctype := if p.isGrey then 0 else 3, plte := plteBytes p, trns := trnsBytes p,
                idat := flat (pngLines idx w p.depth scale.toInt.toNat b (typeIndex p Gen.TYPE_QUIET_ZONE)) }
      ∧ (pngLines idx w p.depth scale.toInt.toNat b (typeIndex p Gen.TYPE_QUIET_ZONE)).length = (h + 2 * b) * scale.toInt.toNat
      ∧ (∀ l ∈ pngLines idx w p.depth scale.toInt.toNat b (typeIndex p Gen.TYPE_QUIET_ZONE),
            (l.1 = 0 ∨ l.1 = 2) ∧ l.2.length = ((w + 2 * b) * scale.toInt.toNat * p.depth + 7) / 8)
      ∧ ∀ x y, x < (w + 2 * b) * scale.toInt.toNat → y < (h + 2 * b) * scale.toInt.toNat →
          ∃ c rgba, cmGet clrMap (pixelType p M A w h scale.toInt.toNat b x y) = some c
            ∧ readColour p.depth (if p.isGrey then 0 else 3) (plteBytes p) (trnsBytes p)
                (readCode (pngLines idx w p.depth scale.toInt.toNat b (typeIndex p Gen.TYPE_QUIET_ZONE)) p.depth
                  ((w + 2 * b) * scale.toInt.toNat) x y) = some rgba
            ∧ Shows c rgba :=
  model_picture setOrder hset M w h colormap scale border out hM hn hw

/-- `png_two_tone_uniform` (completes `png_model_picture_types` for the cheap iterator): whenever the
    model takes the cheap iterator, all dark module types of the colour map are configured with one
    colour and all light ones (separator and quiet zone included) with one — so the colour of the dark
    finder modules / of the quiet zone IS the colour configured for the type of any dark / light module -/
theorem png_two_tone_uniform (setOrder : List PColor → List PColor) (hset : SetOrderOK setOrder) (clrMap : List (Nat × PColor))
    (p : PaletteInfo) (hp : buildPalette setOrder clrMap = .ok p) (hv : useVerbose p = false)
    (t1 t2 : Nat) (c1 c2 : PColor) (h1 : cmGet clrMap t1 = some c1) (h2 : cmGet clrMap t2 = some c2)
    (hsame : isDarkType t1 = isDarkType t2) : c1 = c2 :=
  two_tone_uniform setOrder hset clrMap p hp hv t1 t2 c1 c2 h1 h2 hsame

/-- the colour map `colorful` hands to `write_png` has at most 15 entries -/
theorem makeColormap_length {α : Type} (w h : Nat) (dark light : α) (o : TypeOpts α) :
    (makeColormap w h dark light o).length ≤ 15 := by
  unfold makeColormap
  exact Nat.le_trans (List.length_filter_le _ _) (by simp [mt2color])

/-- `png_model_picture` (C09; every w×h matrix, dark / light colours of any accepted notation incl.
    None, every scale ≥ 1 — a float is truncated —, every border ≥ 0 or the default, no per-type
    options): if the model of `save(kind='png')` succeeds, its output read with the reference reader's
    semantics is EXACTLY the `Spec.grid`-shaped picture in the configured colours — (w+2b)·s columns,
    (h+2b)·s scanlines of 1 + ⌈width·depth/8⌉ bytes with filter type 0 or 2, and pixel (x, y) shows the
    dark colour where `Spec.grid` is 1 (module (y div s − b, x div s − b) dark) and the light colour
    elsewhere, the whole quiet zone included.  "Shows": exact R, G, B, A; None = alpha 0. -/
theorem png_model_picture (setOrder : List PColor → List PColor) (hset : SetOrderOK setOrder) (M : List (List Nat)) (w h : Nat)
    (dark light : Option ColorArg) (scale : Num) (border : Option Num) (out : PngOut)
    (hM : WellFormed M w h)
    (hw : savePng setOrder M w h dark light {} scale border = .ok out) :
    ∃ dC lC b lines,
      pngColor (dark.getD (.str "#000")) = .ok dC ∧ pngColor (light.getD (.str "#fff")) = .ok lC
      ∧ borderForRange w h border = .ok b ∧ 0 < scale.toInt.toNat
      ∧ out.width = (w + 2 * b) * scale.toInt.toNat ∧ out.height = (h + 2 * b) * scale.toInt.toNat
      ∧ (out.depth = 1 ∨ out.depth = 2 ∨ out.depth = 4)
      ∧ out.idat = flat lines ∧ lines.length = out.height
      ∧ (∀ l ∈ lines, (l.1 = 0 ∨ l.1 = 2) ∧ l.2.length = (out.width * out.depth + 7) / 8)
      ∧ ∀ x y, x < out.width → y < out.height →
          ∃ rgba, readColour out.depth out.ctype out.plte out.trns (readCode lines out.depth out.width x y) = some rgba
            ∧ Shows (if ((grid M w h scale.toInt.toNat b).getD y []).getD x 0 ≠ 0 then dC else lC) rgba := by
  unfold savePng at hw
  obtain ⟨clrMap, p, b, idx, A, hparse, hpal, hb, _, hs, _, hd, hout, hlen, hline, hpix⟩ :=
    model_picture setOrder hset M w h _ scale border out hM
      (Nat.le_trans (makeColormap_length w h _ _ _) (by decide)) hw
  obtain ⟨dC, lC, hD, hL, hcm⟩ := parse_default w h _ _ clrMap hparse
  subst hcm
  have hcheap := useVerbose_default setOrder hset w h dC lC p hpal
  refine ⟨dC, lC, b, pngLines idx w p.depth scale.toInt.toNat b (typeIndex p Gen.TYPE_QUIET_ZONE), hD, hL, hb, hs, ?_, ?_, ?_, ?_, ?_, ?_, ?_⟩
  · rw [hout]
  · rw [hout]
  · rw [hout]; exact hd
  · rw [hout]
  · rw [hout]; exact hlen
  · rw [hout]; exact hline
  · rw [hout]
    intro x y hx hy
    obtain ⟨c, rgba, hc, hread, hshows⟩ := hpix x y hx hy
    refine ⟨rgba, hread, ?_⟩
    have hg : ((grid M w h scale.toInt.toNat b).getD y []).getD x 0 = pixelOf (cellL M) scale.toInt.toNat b x y := by
      unfold grid
      rw [getD_map_range _ _ _ _ hy, getD_map_range _ _ _ _ hx]
    rw [hg]
    unfold pixelType at hc
    rw [hcheap] at hc
    simp only [Bool.false_eq_true, if_false] at hc
    by_cases hp0 : pixelOf (cellL M) scale.toInt.toNat b x y ≠ 0
    · rw [if_pos hp0] at hc ⊢
      rw [default_finder_dark] at hc
      injection hc with hc; rw [hc]; exact hshows
    · rw [if_neg hp0] at hc ⊢
      rw [default_quiet_zone] at hc
      injection hc with hc; rw [hc]; exact hshows

/-! non-vacuity -/
example : SetOrderOK (fun l => l.eraseDups) := setOrderOK_eraseDups
example : WellFormed [[1, 0], [0, 1]] 2 2 := by simp [WellFormed]
example : (savePng (fun l => l.eraseDups) [[1, 0], [0, 1]] 2 2 none none {} (.int 2) (some (.int 1))).toOption =
    some { width := 8, height := 8, depth := 1, ctype := 0, plte := [], trns := [],
           idat := [0, 255, 0, 255, 0, 207, 2, 0, 0, 243, 2, 0, 0, 255, 0, 255] } := by decide +kernel
example : (buildPalette (fun l => l.eraseDups) [(1536, .rgb 1 2 3), (18, .transparent), (6, .rgba 9 9 9 7)]).toOption.map
      (fun p => (p.palette, plteBytes p, trnsBytes p, p.depth)) =
    some ([.rgba 240 248 255 0, .rgba 9 9 9 7, .rgb 1 2 3], [240, 248, 255, 9, 9, 9, 1, 2, 3], [0, 7], 2) := by decide +kernel
example : (savePng (fun l => l.eraseDups) [[1, 0], [0, 1]] 2 2 (some (.ints [1, 2, 3, 4])) (some .none) { data_dark := some (.str "red") }
      (.int 1) (some (.int 0))).toOption.map (fun o => (o.depth, o.ctype, o.plte, o.trns, o.idat)) =
    some (2, 3, [240, 248, 255, 1, 2, 3, 255, 0, 0], [0, 4], [0, 64, 0, 16]) := by decide +kernel

end Props.C09Png
