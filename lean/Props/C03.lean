/-
  C03 (part 2) — every block the model's Reed-Solomon encoder (`Model.rsRemainder`, segno's synthetic
  division on the log / antilog tables) produces is a valid RS codeword: data ++ EC codewords
  vanishes at α⁰ … α^(n-1), for every EC length n of `GEN_POLY` and EVERY data block.
  Only the final statements live here; all helper lemmas are in `Proofs.RSField`.
-/
import Props.C03Tables
import Proofs.RSField

namespace Props.C03

/-- multiplication exactly as the encoder performs it: through the log / antilog tables -/
def tmul (a b : Nat) : Nat :=
  if a == 0 || b == 0 then 0 else Gen.GALIOS_EXP.getD (Gen.GALIOS_LOG.getD a 0 + Gen.GALIOS_LOG.getD b 0) 0

/-- Horner evaluation with table multiplication, highest coefficient first -/
def tevalPoly (cs : List Nat) (x : Nat) : Nat := cs.foldl (fun acc c => tmul acc x ^^^ c) 0

/-- C03 core: for every EC length n of GEN_POLY and EVERY data block (any length, any byte values),
    data ++ model-computed EC codewords evaluates to 0 at α^0 … α^(n-1). -/
theorem block_is_codeword (n : Nat) (gen : List Nat) (hg : (n, gen) ∈ Gen.GEN_POLY)
    (data : List Nat) (hd : ∀ d ∈ data, d < 256) (i : Nat) (hi : i < n) :
    tevalPoly (data ++ Model.rsRemainder gen data n) (Gen.GALIOS_EXP.getD i 0) = 0 :=
  Proofs.RSField.block_is_codeword n gen hg data hd i hi

set_option linter.unusedVariables false in
/-- the EC part has exactly n codewords, all bytes -/
theorem ec_length (n : Nat) (gen : List Nat) (hg : (n, gen) ∈ Gen.GEN_POLY) (data : List Nat) :
    (Model.rsRemainder gen data n).length = n :=
  Proofs.RSField.rsRemainder_length gen data n

set_option linter.unusedVariables false in
theorem ec_bytes (n : Nat) (gen : List Nat) (hg : (n, gen) ∈ Gen.GEN_POLY)
    (data : List Nat) (hd : ∀ d ∈ data, d < 256) : ∀ e ∈ Model.rsRemainder gen data n, e < 256 :=
  Proofs.RSField.rsRemainder_bytes gen data n hd

/-- table multiplication is the field multiplication of GF(2^8)/0x11d (structural proof through the
    ring (ZMod 2)[X]/(X^8+X^4+X^3+X^2+1); no enumeration of the 65 536 pairs) -/
theorem table_mul_is_field_mul : ∀ a b, a < 256 → b < 256 → tmul a b = Spec.gmul a b :=
  Proofs.RSField.table_mul_is_field_mul

/-- hence the reference reader's validity test accepts the block -/
theorem block_valid_for_reference_reader (n : Nat) (gen : List Nat) (hg : (n, gen) ∈ Gen.GEN_POLY)
    (data : List Nat) (hd : ∀ d ∈ data, d < 256) :
    Spec.validCodeword (data ++ Model.rsRemainder gen data n) n = true :=
  Proofs.RSField.block_valid_for_reference_reader n gen hg data hd

/-! ### non-vacuity: the hypotheses are satisfiable, the EC codewords are not trivial, and the
    root test discriminates (a corrupted block fails it) -/

example : (5, [113, 164, 166, 119, 10]) ∈ Gen.GEN_POLY := by decide

example : Model.rsRemainder [113, 164, 166, 119, 10] [64, 24, 172, 195, 0] 5 = [134, 13, 34, 174, 48] := by
  decide +kernel

example : (List.range 5).map (fun i => tevalPoly ([64, 24, 172, 195, 0] ++ [134, 13, 34, 174, 48])
    (Gen.GALIOS_EXP.getD i 0)) = [0, 0, 0, 0, 0] := by decide +kernel

example : tevalPoly ([64, 24, 172, 195, 0] ++ [134, 13, 34, 174, 49]) (Gen.GALIOS_EXP.getD 1 0) ≠ 0 := by
  decide +kernel

example : Spec.validCodeword ([64, 24, 172, 195, 0] ++ [134, 13, 34, 174, 49]) 5 = false := by
  decide +kernel

end Props.C03

#print axioms Props.C03.block_is_codeword
#print axioms Props.C03.ec_length
#print axioms Props.C03.ec_bytes
#print axioms Props.C03.table_mul_is_field_mul
#print axioms Props.C03.block_valid_for_reference_reader
