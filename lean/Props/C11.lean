/-
  C11 — module iteration and per-type colouring classify every module correctly.
  Property theorems only (helpers: Proofs/IterShape.lean — the linear part for all widths —,
  Proofs/Align.lean + Props/C11Align*.lean — the alignment look-up per version, kernel-evaluated —,
  Proofs/Verbose.lean, Proofs/Raster.lean).  `Model.*` = hand-written model of utils.matrix_iter_verbose
  (tied to the code by the correspondence runs of `./check C11`), `Spec.*` = ISO region classifier and
  type codes, `Gen.*` = regenerated from the repository on every run.
-/
import Proofs.Verbose
import Props.C09
import Props.C11Align1
import Props.C11Align2
import Props.C11Align3
import Props.C11Align4
import Props.C11Align5
import Props.C11Align6
import Props.C11Align7
import Props.C11Align8

namespace Props.C11

open Model Spec Proofs.IterShape Proofs.Align Proofs.Verbose Proofs.Raster

/-- alignment tie, all 44 versions (each instance is a kernel evaluation over every cell of that
    version, Props/C11Align*.lean): the matrix `add_alignment_patterns` fills — which `get_bit`
    looks up — is ≠ 2 exactly on the Annex E alignment blocks, holds 0 / 1 there, and these blocks
    lie in the region ISO calls alignment (they do not touch finder, separator, format, version,
    dark module) -/
theorem align_tie (v : Int) (h1 : -3 ≤ v) (h2 : v ≤ 40) : alignCheck v = true := by
  have hv : v = -3 ∨ v = -2 ∨ v = -1 ∨ v = 0 ∨ v = 1 ∨ v = 2 ∨ v = 3 ∨ v = 4 ∨ v = 5 ∨ v = 6 ∨ v = 7 ∨ v = 8 ∨ v = 9 ∨ v = 10 ∨ v = 11 ∨ v = 12 ∨ v = 13 ∨ v = 14 ∨ v = 15 ∨ v = 16 ∨ v = 17 ∨ v = 18 ∨ v = 19 ∨ v = 20 ∨ v = 21 ∨ v = 22 ∨ v = 23 ∨ v = 24 ∨ v = 25 ∨ v = 26 ∨ v = 27 ∨ v = 28 ∨ v = 29 ∨ v = 30 ∨ v = 31 ∨ v = 32 ∨ v = 33 ∨ v = 34 ∨ v = 35 ∨ v = 36 ∨ v = 37 ∨ v = 38 ∨ v = 39 ∨ v = 40 := by omega
  rcases hv with rfl | rfl | rfl | rfl | rfl | rfl | rfl | rfl | rfl | rfl | rfl | rfl | rfl | rfl | rfl | rfl | rfl | rfl | rfl | rfl | rfl | rfl | rfl | rfl | rfl | rfl | rfl | rfl | rfl | rfl | rfl | rfl | rfl | rfl | rfl | rfl | rfl | rfl | rfl | rfl | rfl | rfl | rfl | rfl
  · exact Props.C11Align.align_vm3
  · exact Props.C11Align.align_vm2
  · exact Props.C11Align.align_vm1
  · exact Props.C11Align.align_v0
  · exact Props.C11Align.align_v1
  · exact Props.C11Align.align_v2
  · exact Props.C11Align.align_v3
  · exact Props.C11Align.align_v4
  · exact Props.C11Align.align_v5
  · exact Props.C11Align.align_v6
  · exact Props.C11Align.align_v7
  · exact Props.C11Align.align_v8
  · exact Props.C11Align.align_v9
  · exact Props.C11Align.align_v10
  · exact Props.C11Align.align_v11
  · exact Props.C11Align.align_v12
  · exact Props.C11Align.align_v13
  · exact Props.C11Align.align_v14
  · exact Props.C11Align.align_v15
  · exact Props.C11Align.align_v16
  · exact Props.C11Align.align_v17
  · exact Props.C11Align.align_v18
  · exact Props.C11Align.align_v19
  · exact Props.C11Align.align_v20
  · exact Props.C11Align.align_v21
  · exact Props.C11Align.align_v22
  · exact Props.C11Align.align_v23
  · exact Props.C11Align.align_v24
  · exact Props.C11Align.align_v25
  · exact Props.C11Align.align_v26
  · exact Props.C11Align.align_v27
  · exact Props.C11Align.align_v28
  · exact Props.C11Align.align_v29
  · exact Props.C11Align.align_v30
  · exact Props.C11Align.align_v31
  · exact Props.C11Align.align_v32
  · exact Props.C11Align.align_v33
  · exact Props.C11Align.align_v34
  · exact Props.C11Align.align_v35
  · exact Props.C11Align.align_v36
  · exact Props.C11Align.align_v37
  · exact Props.C11Align.align_v38
  · exact Props.C11Align.align_v39
  · exact Props.C11Align.align_v40

/-- the table the alignment theorems use is the table of consts.py the encoder uses -/
theorem align_table_same : Gen.Align.ALIGNMENT_POS = Gen.ALIGNMENT_POS := by decide +kernel

/-- `dark_bit`, all 15 type constants of consts.py: `type >> 8` is non-zero exactly for the DARK
    constants (and the dark module), zero for the LIGHT ones, the separator and the quiet zone; and
    the constants are the ISO type codes of `Spec.typeCode` -/
theorem dark_bit_constants :
    [Gen.TYPE_FINDER_PATTERN_DARK, Gen.TYPE_ALIGNMENT_PATTERN_DARK, Gen.TYPE_TIMING_DARK, Gen.TYPE_FORMAT_DARK,
      Gen.TYPE_VERSION_DARK, Gen.TYPE_DATA_DARK, Gen.TYPE_DARKMODULE].all (fun t => isDarkType t) = true
    ∧ [Gen.TYPE_FINDER_PATTERN_LIGHT, Gen.TYPE_ALIGNMENT_PATTERN_LIGHT, Gen.TYPE_TIMING_LIGHT, Gen.TYPE_FORMAT_LIGHT,
      Gen.TYPE_VERSION_LIGHT, Gen.TYPE_DATA_LIGHT, Gen.TYPE_SEPARATOR, Gen.TYPE_QUIET_ZONE].all (fun t => !isDarkType t) = true
    ∧ [Gen.TYPE_FINDER_PATTERN_LIGHT, Gen.TYPE_FINDER_PATTERN_DARK, Gen.TYPE_SEPARATOR, Gen.TYPE_ALIGNMENT_PATTERN_LIGHT,
        Gen.TYPE_ALIGNMENT_PATTERN_DARK, Gen.TYPE_TIMING_LIGHT, Gen.TYPE_TIMING_DARK, Gen.TYPE_FORMAT_LIGHT, Gen.TYPE_FORMAT_DARK,
        Gen.TYPE_VERSION_LIGHT, Gen.TYPE_VERSION_DARK, Gen.TYPE_DARKMODULE, Gen.TYPE_DATA_LIGHT, Gen.TYPE_DATA_DARK, Gen.TYPE_QUIET_ZONE]
      = [typeCode .finder 0, typeCode .finder 1, typeCode .separator 0, typeCode .alignment 0, typeCode .alignment 1,
         typeCode .timing 0, typeCode .timing 1, typeCode .format 0, typeCode .format 1, typeCode .version 0, typeCode .version 1,
         typeCode .darkmodule 1, typeCode .data 0, typeCode .data 1, typeQuietZone] := by decide

/-- `dark_bit` (unbounded in the module value): the type code of a region is a dark variant exactly
    when the module is dark — the separator is always light, the dark module always dark -/
theorem dark_bit (k : Kind) (val : Nat) :
    isDarkType (typeCode k val) = (match k with | .separator => false | .darkmodule => true | _ => val != 0) := by
  cases k <;> by_cases h : val = 0 <;> simp [typeCode, isDarkType, h]

/-- the full statement `types_iso` (FALSE on the pinned tree, finding D8): the model of `get_bit`
    gives every module of every symbol the ISO type -/
def TypesIso : Prop :=
  ∀ (v : Int), -3 ≤ v → v ≤ 40 → ∀ (M A : List (List Nat)), alignmentMatrix (size v) = .ok A →
    ∀ (i j : Nat), i < size v → j < size v → cellL M i j ≤ 1 →
      ((A.getD i []).getD j 2 ≠ 2 → cellL M i j = (A.getD i []).getD j 2) →
      ∀ b : Nat, verboseCell M A (size v) (size v) b (i + b) (j + b) = isoType v i j (cellL M i j)

/-- `types_iso_partial` (every version −3..40, every module, every border): what `get_bit` reports
    for module (i, j) of a symbol is the type ISO assigns to the position, in the dark / light
    variant of the module value — except at module (8, size−9) of QR Codes (D8).
    Hypotheses: `M` holds 0 / 1 at (i, j) and carries the alignment pattern there (true of every
    symbol, C02).  The comparison chain is proved for ALL widths by linear arithmetic
    (Proofs/IterShape.lean), the alignment look-up per version by the kernel (`align_tie`). -/
theorem types_iso_partial (v : Int) (hv1 : -3 ≤ v) (hv2 : v ≤ 40) (M A : List (List Nat))
    (hA : alignmentMatrix (size v) = .ok A)
    (i j : Nat) (hi : i < size v) (hj : j < size v)
    (hval : cellL M i j ≤ 1)
    (hsym : (A.getD i []).getD j 2 ≠ 2 → cellL M i j = (A.getD i []).getD j 2)
    (hd8 : ¬ (1 ≤ v ∧ i = 8 ∧ j + 9 = size v)) (b : Nat) :
    verboseCell M A (size v) (size v) b (i + b) (j + b) = isoType v i j (cellL M i j) := by
  obtain ⟨A', hA', hcells⟩ := alignCell_of_check v (align_tie v hv1 hv2)
  have hAA : A' = A := by
    unfold alignmentMatrix at hA
    rw [hA'] at hA
    simpa [pure, Except.pure] using hA
  subst hAA
  unfold verboseCell
  have h1 : b ≤ i + b ∧ i + b < b + size v ∧ b ≤ j + b ∧ j + b < b + size v := by omega
  simp only [h1, and_self, if_true, Nat.add_sub_cancel, beq_self_eq_true, Bool.true_and]
  exact getBitInside_iso v hv1 hv2 i j _ _ hi hj hval (hcells i j hi hj) hsym hd8

/-- module (8, size−9) lies in no alignment pattern, all 40 QR versions (kernel) -/
theorem d8_not_alignment_all :
    (List.range 40).all (fun k => inAlignment (k + 1) (21 + 4 * k) 8 (12 + 4 * k) == false) = true := by decide +kernel

theorem d8_not_alignment (v : Int) (hv1 : 1 ≤ v) (hv2 : v ≤ 40) :
    inAlignment v.toNat (size v) 8 (size v - 9) = false := by
  have h := d8_not_alignment_all
  rw [List.all_eq_true] at h
  have hk := h (v.toNat - 1) (List.mem_range.2 (by omega))
  have e1 : v.toNat - 1 + 1 = v.toNat := by omega
  have e2 : 21 + 4 * (v.toNat - 1) = size v := by unfold size; simp [show v > 0 by omega]; omega
  have e3 : 12 + 4 * (v.toNat - 1) = size v - 9 := by omega
  rw [e1, e2, e3] at hk
  simpa using hk

/-- D8, the kernel-checked witness for each of the 40 QR versions (for all of them at once, by
    linear arithmetic + the alignment tie): at module (8, size−9) `get_bit` reports format
    information, ISO has a data module there; so `TypesIso` is false -/
theorem types_iso_d8 (v : Int) (hv1 : 1 ≤ v) (hv2 : v ≤ 40) (M A : List (List Nat))
    (hA : alignmentMatrix (size v) = .ok A) (hval : cellL M 8 (size v - 9) ≤ 1) (b : Nat) :
    verboseCell M A (size v) (size v) b (8 + b) (size v - 9 + b) = typeCode .format (cellL M 8 (size v - 9))
    ∧ isoType v 8 (size v - 9) (cellL M 8 (size v - 9)) = typeCode .data (cellL M 8 (size v - 9)) := by
  obtain ⟨A', hA', hcells⟩ := alignCell_of_check v (align_tie v (by omega) hv2)
  have hAA : A' = A := by
    unfold alignmentMatrix at hA
    rw [hA'] at hA
    simpa [pure, Except.pure] using hA
  subst hAA
  have hn : ((size v : Nat) : Int) = 17 + 4 * v := by unfold size; simp [show v > 0 by omega]; omega
  have hn21 : 21 ≤ size v := by omega
  have hd := branch_qr_d8 v hv1 hv2 (size v) hn
  have hcell := hcells 8 (size v - 9) (by omega) (by omega)
  have hal : inAlignment v.toNat (size v) 8 (size v - 9) = false := d8_not_alignment v hv1 hv2
  have ha2 : (A'.getD 8 []).getD (size v - 9) 2 = 2 := by
    by_cases h : (A'.getD 8 []).getD (size v - 9) 2 = 2
    · exact h
    · have := hcell.1.1 h; rw [hal] at this; exact absurd this (by simp)
  constructor
  · unfold verboseCell
    have h1 : b ≤ 8 + b ∧ 8 + b < b + size v ∧ b ≤ size v - 9 + b ∧ size v - 9 + b < b + size v := by omega
    simp only [h1, and_self, if_true, Nat.add_sub_cancel, beq_self_eq_true, Bool.true_and]
    have hdec : decide (size v < 21) = false := by simp; omega
    rw [hdec, ha2]
    unfold getBitInside
    have e8 : ((8 : Nat) : Int) = (8 : Int) := rfl
    rw [e8, hd.1]
    exact branchCode_eq .format 2 _ hval (fun h => by cases h)
  · unfold isoType
    rw [kind_eq_kindQR v hv1, hal, hd.2]

/-- `TypesIso` is false on the pinned tree: version 1, all modules light, module (8, 12) -/
theorem not_types_iso : ¬ TypesIso := by
  intro h
  have hA : alignmentMatrix (size 1) = .ok (List.replicate 21 (List.replicate 21 2)) :=
    alignmentMatrix_ok _ _ (by decide +kernel)
  have hcell : cellL ([] : List (List Nat)) 8 (size 1 - 9) = 0 := by decide
  have h1 := h 1 (by decide) (by decide) [] _ hA 8 12 (by decide) (by decide) (by decide) (by decide) 0
  have h2 := types_iso_d8 1 (by decide) (by decide) [] _ hA (by decide) 0
  have e : size 1 - 9 + 0 = 12 + 0 := by decide
  rw [e] at h2
  rw [h2.1] at h1
  have e2 : isoType 1 8 12 (cellL [] 8 12) = typeCode .data (cellL [] 8 (size 1 - 9)) := h2.2
  rw [e2] at h1
  revert h1
  decide

/-- the pixels that show the D8 module -/
def ShowsD8 (v : Int) (s b x y : Nat) : Prop :=
  1 ≤ v ∧ b ≤ y / s ∧ b ≤ x / s ∧ y / s - b = 8 ∧ x / s - b + 9 = size v

/-- `iter_verbose_pixel` (every version, every scale ≥ 1 — a float is truncated —, every border ≥ 0 or
    the default): `matrix_iter_verbose` yields (n+2b)·s rows of (n+2b)·s values; value (x, y) is the
    ISO type of the module (y div s − b, x div s − b) in the variant of the module value, 18 in the
    quiet zone (`Spec.typeAt`) — except for the pixels showing module (8, n−9) of a QR Code (D8).
    `M` is a symbol of version v: n rows of n values 0 / 1 carrying the alignment patterns. -/
theorem iter_verbose_pixel (v : Int) (hv1 : -3 ≤ v) (hv2 : v ≤ 40) (M : List (List Nat))
    (scale : Num) (border : Option Num) (b : Nat)
    (hbits : ∀ i j, cellL M i j ≤ 1)
    (hsym : ∀ A, alignmentMatrix (size v) = .ok A → ∀ i j, (A.getD i []).getD j 2 ≠ 2 → cellL M i j = (A.getD i []).getD j 2)
    (hnr : ¬ Props.C09.Refused scale border) (hb : Props.C09.borderValue (size v) (size v) border = some b) :
    let s := scale.toInt.toNat
    let W := (size v + 2 * b) * s
    ∃ rows, matrixIterVerbose M (size v) (size v) scale border = .ok rows
      ∧ rows.length = W ∧ (∀ r ∈ rows, r.length = W)
      ∧ ∀ x y, x < W → y < W → ¬ ShowsD8 v s b x y →
          (rows.getD y []).getD x 0 = typeAt v (size v) (cellL M) s b x y := by
  intro s W
  obtain ⟨A, hA', _⟩ := alignCell_of_check v (align_tie v hv1 hv2)
  have hA : alignmentMatrix (size v) = .ok A := alignmentMatrix_ok _ _ hA'
  have hs1 : ¬ scale.toInt < 1 := fun h => hnr (Or.inl h)
  have hs : 0 < s := by show 0 < scale.toInt.toNat; omega
  have hborder : checkValidBorder border = .ok () := by
    unfold checkValidBorder
    cases border with
    | none => rfl
    | some x =>
      have : ¬ ((x.isFractional || x.isNegative) = true) := by
        intro h
        apply hnr; right; refine ⟨x, rfl, ?_⟩
        simpa [Bool.or_eq_true] using h
      simp [this]; rfl
  have hrange : borderForRange (size v) (size v) border = .ok b := by
    unfold borderForRange
    cases border with
    | none => simp [Props.C09.borderValue] at hb; simp [hb]; rfl
    | some x =>
      cases x with
      | int i => simp [Props.C09.borderValue] at hb; simp [hb]; rfl
      | float _ _ _ => simp [Props.C09.borderValue] at hb
  have hscale : checkValidScale scale.toInt = .ok () := by
    unfold checkValidScale
    have : ¬ scale.toInt ≤ 0 := by omega
    simp [this]; rfl
  refine ⟨iterWith (verboseCell M A (size v) (size v) b) (size v) (size v) s b, ?_, ?_, ?_, ?_⟩
  · simp only [matrixIterVerbose, hborder, hscale, hrange, hA, bind, Except.bind, pure, Except.pure]
    rfl
  · rw [iterWith_eq _ _ _ _ _ hs]; simp [W]
  · intro r hr
    rw [iterWith_eq _ _ _ _ _ hs] at hr
    simp only [List.mem_map, List.mem_range] at hr
    obtain ⟨y, _, rfl⟩ := hr
    simp [W]
  · intro x y hx hy hd8
    have hx' : x < (size v + 2 * b) * s := hx
    have hy' : y < (size v + 2 * b) * s := hy
    rw [iterWith_eq _ _ _ _ _ hs, getD_map_range _ _ _ _ hy', getD_map_range _ _ _ _ hx']
    have hyb : y / s < size v + 2 * b := (Nat.div_lt_iff_lt_mul hs).2 hy
    have hxb : x / s < size v + 2 * b := (Nat.div_lt_iff_lt_mul hs).2 hx
    unfold typeAt
    by_cases hin : b ≤ y / s ∧ b ≤ x / s ∧ y / s - b < size v ∧ x / s - b < size v
    · obtain ⟨h1, h2, h3, h4⟩ := hin
      simp only [h1, h2, h3, h4, and_self, if_true]
      have ey : y / s = (y / s - b) + b := by omega
      have ex : x / s = (x / s - b) + b := by omega
      rw [ey, ex]
      simp only [Nat.add_sub_cancel]
      exact types_iso_partial v hv1 hv2 M A hA _ _ h3 h4 (hbits _ _) (hsym A hA _ _)
        (fun h => hd8 ⟨h.1, h1, h2, h.2.1, h.2.2⟩) b
    · simp only [hin, if_false]
      unfold verboseCell
      have : ¬ (b ≤ y / s ∧ y / s < b + size v ∧ b ≤ x / s ∧ x / s < b + size v) := by
        intro h; apply hin; omega
      simp only [this, if_false]
      decide

/-! non-vacuity -/
example : alignmentMatrix? (size 2) = some ((List.range 25).map (fun i => (List.range 25).map (fun j =>
    if 16 ≤ i ∧ i ≤ 20 ∧ 16 ≤ j ∧ j ≤ 20 then (if (i == 17 || i == 19 || j == 17 || j == 19) && !(i == 16 || i == 20 || j == 16 || j == 20) then 0 else 1) else 2))) := by
  decide +kernel
example : verboseCell [] (List.replicate 21 (List.replicate 21 2)) 21 21 4 (0 + 4) (0 + 4) = isoType 1 0 0 0 := by decide
example : ¬ Props.C09.Refused (.int 3) none := by
  intro h; rcases h with h | ⟨x, hx, _⟩
  · simp [Num.toInt] at h
  · cases hx

end Props.C11
