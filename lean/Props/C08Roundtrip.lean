/-
  C08 (sequence round trip) — every symbol of a Structured Append sequence the model returns for a
  requested symbol count is read by the ISO reference reader as a valid symbol that starts with the
  Structured Append header (position i, total − 1, parity = XOR of all message bytes) and carries its
  chunk; the chunks concatenate to the message.
  Property theorems only; helper lemmas live in Proofs/SequenceRoundtrip.lean (symbol),
  Proofs/SequenceRoundtripStream.lean (stream parser), Proofs/SequenceRoundtripSeq.lean (sequence),
  Proofs/SequenceRoundtripWitness.lean (kernel-evaluated witnesses).
-/
import Props.C08
import Props.EndToEnd
import Proofs.SequenceRoundtripSeq
import Proofs.SequenceRoundtripWitness

namespace Props.C08
open Model

set_option linter.unusedVariables false  -- `hne` is part of the given statement but not needed (QR Code versions only)

/-- **one symbol with a Structured Append header decodes**: `_encode` with header (i, total, parity)
    on a single segment built from `data` (bytes, non-empty) that fits: the reference reader returns the
    reported version / level / mask, intact function patterns, valid RS blocks, zero remainder bits, the
    header, and exactly `data` -/
theorem sa_symbol_decodes (data : List Nat) (mode : Nat) (enc : String) (segs : List Segment) (error : Option Nat)
    (v : Int) (mask : Option Nat) (boost : Bool) (f : String → Option Nat) (i total parity : Nat) (c : Code)
    (hd : ∀ b ∈ data, b < 256) (hne : data ≠ []) (hm : mode ∈ [1, 2, 4, 8, 13])
    (hi : i < 16) (ht : total < 16) (hp : parity < 256) (hv : 1 ≤ v)
    (hs : oneItemSegments data mode enc = .ok segs)
    (hfit : ∃ bl cap, bitLengthWithOverhead segs v false true = some bl ∧ capacity v error = some cap ∧ bl ≤ cap)
    (h : encodeCore segs error v mask false boost f (some (i, total, parity)) = .ok c) :
    ∃ d, Spec.decode c.matrix = .ok d
      ∧ d.header = { version := c.version, level := lvlKey c.error, mask := c.mask }
      ∧ d.fnBad = none ∧ d.badBlocks = 0 ∧ Spec.allZero d.blocks.remainder = true
      ∧ ∃ p, d.parsed = .ok p ∧ p.sa = some (i, total, parity)
          ∧ (p.segments.map (·.bytes)).flatten = data :=
  Proofs.SequenceRoundtrip.sa_symbol_core data mode enc segs error v mask boost f i total parity c
    hd hm hi ht hp hv hs hfit h

/-- the stream level fact behind it: the parser iteration that reads the Structured Append header
    0011 ‖ i₄ ‖ total₄ ‖ parity₈ (QR Code versions, nothing parsed before it) consumes exactly these
    20 bits and records (i, total, parity) -/
theorem parser_reads_sa_header (v : Int) (st pre post : List Nat) (i total parity fuel : Nat) (eci : Option Nat)
    (hv : v > 0) (hi : i < 16) (ht : total < 16) (hp : parity < 256)
    (hst : st = pre ++ saHeader (some (i, total, parity)) ++ post) :
    Spec.parseStream.go v st (Spec.terminatorLen v) (Spec.modeBits v) (fuel + 1) pre.length eci none []
      = Spec.parseStream.go v st (Spec.terminatorLen v) (Spec.modeBits v) fuel (pre.length + 20) eci
          (some (i, total, parity)) [] :=
  Proofs.SequenceRoundtrip.go_sa_hdr v st pre post i total parity fuel eci hv hi ht hp hst

/-- FULL STATEMENT as given (symbol_count requested, no ECI).  It does NOT hold for the model:
    (1) when a version is requested together with the symbol count, the number of symbols is computed
        from the version, not taken from the count (`sequence_roundtrip_fails`: 10 digits, version 1,
        symbol_count 3 gives ONE symbol);
    (2) `msg` is a free parameter here; if it is not the content of `parts` (e.g. three bytes with a
        kanji content), `divide_into_chunks` drops the incomplete last character
        (`sequence_roundtrip_needs_content`). -/
def SequenceRoundtrip : Prop :=
  ∀ (parts : List Part) (msg : List Nat) (msgEnc : String) (error : Option Nat)
    (version : Option Int) (mask : Option Nat) (boost : Bool) (k : Int) (f : String → Option Nat) (cs : List Code),
    (∀ b ∈ msg, b < 256) →
    encodeSequenceAux parts msg msgEnc error version mask false boost (some k) f = .ok (true, cs) →
    cs.length = k.toNat
    ∧ ∃ payloads : List (List Nat), payloads.length = cs.length ∧ payloads.flatten = msg
        ∧ ∀ i (hi : i < cs.length), ∃ d p, Spec.decode cs[i].matrix = .ok d ∧ d.badBlocks = 0 ∧ d.fnBad = none
            ∧ d.parsed = .ok p ∧ p.sa = some (i, cs.length - 1, Spec.xorAll msg)
            ∧ (p.segments.map (·.bytes)).flatten = payloads.getD i []

open Proofs.SequenceRoundtrip (tenDigits version_and_count_witness foreign_message_witness two_symbols_witness)

/-- (1), from the kernel-checked witness `Proofs.SequenceRoundtrip.version_and_count_witness` -/
theorem sequence_roundtrip_fails : ¬ SequenceRoundtrip := by
  intro hall
  have hw := version_and_count_witness
  cases hr : encodeSequenceAux [⟨tenDigits, none, "iso-8859-1"⟩] tenDigits "iso-8859-1" none (some 1) (some 0) false false
      (some 3) (fun _ => none) with
  | error e => rw [hr] at hw; cases hw
  | ok r =>
    obtain ⟨b, cs⟩ := r
    rw [hr] at hw
    cases b with
    | false => cases hw
    | true =>
      simp only [beq_iff_eq] at hw
      have := (hall _ _ _ _ _ _ _ _ _ cs (by decide) hr).1
      rw [hw] at this
      cases this

/-- the same statement restricted to `version = None`, `msg` still free -/
def SequenceRoundtripNoVersion : Prop :=
  ∀ (parts : List Part) (msg : List Nat) (msgEnc : String) (error : Option Nat)
    (mask : Option Nat) (boost : Bool) (k : Int) (f : String → Option Nat) (cs : List Code),
    (∀ b ∈ msg, b < 256) →
    encodeSequenceAux parts msg msgEnc error none mask false boost (some k) f = .ok (true, cs) →
    cs.length = k.toNat
    ∧ ∃ payloads : List (List Nat), payloads.length = cs.length ∧ payloads.flatten = msg
        ∧ ∀ i (hi : i < cs.length), ∃ d p, Spec.decode cs[i].matrix = .ok d ∧ d.badBlocks = 0 ∧ d.fnBad = none
            ∧ d.parsed = .ok p ∧ p.sa = some (i, cs.length - 1, Spec.xorAll msg)
            ∧ (p.segments.map (·.bytes)).flatten = payloads.getD i []

/-- (2), from the kernel-checked witness `Proofs.SequenceRoundtrip.foreign_message_witness`: kanji content 点
    (93 5F), message bytes 93 5F 93 (not the content): one symbol, which carries the two bytes 93 5F only -/
theorem sequence_roundtrip_needs_content : ¬ SequenceRoundtripNoVersion := by
  intro hall
  have hw := foreign_message_witness
  cases hr : encodeSequenceAux [⟨[0x93, 0x5f], none, "shift_jis"⟩] [0x93, 0x5f, 0x93] "shift_jis" none none (some 0) false false
      (some 1) (fun _ => none) with
  | error e => rw [hr] at hw; cases hw
  | ok r =>
    obtain ⟨b, cs⟩ := r
    rw [hr] at hw
    cases b with
    | false => cases hw
    | true =>
    cases cs with
    | nil => cases hw
    | cons c t =>
    cases t with
    | cons c2 t2 => cases hw
    | nil =>
      obtain ⟨-, payloads, hlen, hflat, hall'⟩ := hall _ _ _ _ _ _ _ _ [c] (by decide) hr
      obtain ⟨d, p, hdec, -, -, hpar, -, hbytes⟩ := hall' 0 (by simp)
      simp only [List.getElem_cons_zero] at hdec
      simp only [hdec, hpar, beq_iff_eq] at hw
      rw [hbytes] at hw
      cases payloads with
      | nil => cases hlen
      | cons x rest =>
        cases rest with
        | cons y z => simp at hlen
        | nil =>
          simp only [List.getD_cons_zero] at hw
          simp only [List.flatten_cons, List.flatten_nil, List.append_nil] at hflat
          rw [hflat] at hw
          cases hw

/-- **sequence round trip** (symbol_count requested, no ECI — `make_sequence` never passes eci),
    strongest true variant.  Extra hypothesis `hcontent`: the message bytes are the data of the single
    content part (what `data_to_bytes(content, encoding)` returns for `str | bytes | int` content, DESIGN §3;
    every reachable input satisfies it).  Changed conclusion: the number of symbols equals the requested
    count when no version is requested (with a version the count comes from the version, see above).
    Added to the conclusion: between 1 and 16 symbols, the reported header, zero remainder bits.
    The model returns the symbols; symbol i decodes with header (i, n − 1, XOR of the message bytes); the
    decoded payloads concatenated in order are exactly the message bytes. -/
theorem sequence_roundtrip_partial (parts : List Part) (msg : List Nat) (msgEnc : String) (error : Option Nat)
    (version : Option Int) (mask : Option Nat) (boost : Bool) (k : Int) (f : String → Option Nat) (cs : List Code)
    (hmsg : ∀ b ∈ msg, b < 256)
    (hcontent : parts.map (·.data) = [msg])
    (h : encodeSequenceAux parts msg msgEnc error version mask false boost (some k) f = .ok (true, cs)) :
    (version = none → cs.length = k.toNat)
    ∧ 1 ≤ cs.length ∧ cs.length ≤ 16
    ∧ ∃ payloads : List (List Nat), payloads.length = cs.length ∧ payloads.flatten = msg
        ∧ ∀ i (hi : i < cs.length), ∃ d p, Spec.decode cs[i].matrix = .ok d
            ∧ d.header = { version := cs[i].version, level := lvlKey cs[i].error, mask := cs[i].mask }
            ∧ d.badBlocks = 0 ∧ d.fnBad = none ∧ Spec.allZero d.blocks.remainder = true
            ∧ d.parsed = .ok p ∧ p.sa = some (i, cs.length - 1, Spec.xorAll msg)
            ∧ (p.segments.map (·.bytes)).flatten = payloads.getD i [] :=
  Proofs.SequenceRoundtrip.sequence_core parts msg msgEnc error version mask boost k f cs hmsg
    (fun segs s0 hprep hs0 => Proofs.SequenceRoundtrip.single_part_whole parts msg segs s0 hcontent hprep hs0) h

/-- corollary in the shape of the given statement, under the two hypotheses it needs
    (`version = None`, message = content) -/
theorem sequence_roundtrip_no_version (parts : List Part) (msg : List Nat) (msgEnc : String) (error : Option Nat)
    (mask : Option Nat) (boost : Bool) (k : Int) (f : String → Option Nat) (cs : List Code)
    (hmsg : ∀ b ∈ msg, b < 256)
    (hcontent : parts.map (·.data) = [msg])
    (h : encodeSequenceAux parts msg msgEnc error none mask false boost (some k) f = .ok (true, cs)) :
    cs.length = k.toNat
    ∧ ∃ payloads : List (List Nat), payloads.length = cs.length ∧ payloads.flatten = msg
        ∧ ∀ i (hi : i < cs.length), ∃ d p, Spec.decode cs[i].matrix = .ok d ∧ d.badBlocks = 0 ∧ d.fnBad = none
            ∧ d.parsed = .ok p ∧ p.sa = some (i, cs.length - 1, Spec.xorAll msg)
            ∧ (p.segments.map (·.bytes)).flatten = payloads.getD i [] := by
  obtain ⟨hn, -, -, payloads, h1, h2, h3⟩ :=
    sequence_roundtrip_partial parts msg msgEnc error none mask boost k f cs hmsg hcontent h
  refine ⟨hn rfl, payloads, h1, h2, fun i hi => ?_⟩
  obtain ⟨d, p, a1, -, a3, a4, -, a6, a7, a8⟩ := h3 i hi
  exact ⟨d, p, a1, a3, a4, a6, a7, a8⟩

/-! ### non-vacuity -/

/-- "123" in 2 symbols (`Proofs.SequenceRoundtrip.twoSymbolsCheck`, kernel-evaluated): the input is accepted
    (the hypotheses of `sequence_roundtrip_partial` hold: bytes, message = content), two symbols result, the
    second one decodes with valid blocks to the header (1, 1, parity 48 = 49 ^ 50 ^ 51) and the digit 3 -/
example : Proofs.SequenceRoundtrip.twoSymbolsCheck = true := two_symbols_witness

end Props.C08

#print axioms Props.C08.sa_symbol_decodes
#print axioms Props.C08.parser_reads_sa_header
#print axioms Props.C08.sequence_roundtrip_fails
#print axioms Props.C08.sequence_roundtrip_needs_content
#print axioms Props.C08.sequence_roundtrip_partial
#print axioms Props.C08.sequence_roundtrip_no_version
