/-
  C12 — all output routes give the same document.  Property theorems only (helpers: Proofs/CliLemmas).

  What is logic is proved here on the model (Model/Cli.lean) over the tables regenerated from the
  repository (Gen/Sigs.lean); byte identity of the documents is judged on the implementation itself
  (harness/p_routes.py + Spec/Routes.lean).
-/
import Model.Cli
import Proofs.CliLemmas

namespace Props.C12
open Model Model.Cli Gen Proofs.CliLemmas

/-- the 13 documented output kinds -/
def kinds : List String := ["svg", "svgz", "png", "eps", "txt", "pdf", "ans", "pbm", "pam", "ppm", "tex", "xbm", "xpm"]

def serializerOf (kind : String) : String := if kind == "svgz" then "svg" else kind

/-- keywords and defaults of the serialiser behind a kind (inspect.signature, Gen.Sigs) -/
def sigDefaults (kind : String) : List (String × PyV) :=
  ((Gen.SERIALIZER_DEFAULTS.find? (·.1 == serializerOf kind)).map (·.2)).getD []

/-- the call `serializer(matrix, size, out, **kw)`: `none` = TypeError (unexpected keyword), otherwise the
    value every keyword parameter receives -/
def complete (defaults kw : List (String × PyV)) : Option (List (String × PyV)) :=
  if kw.all (fun kv => defaults.any (·.1 == kv.1)) then
    some (defaults.map (fun d => (d.1, (cget kw d.1).getD d.2)))
  else none

/-- what `segno -o out.<kind> content` (no other option) passes to `QRCode.save` -/
def defaultKwargs (kind : String) : Config :=
  cliKwargs Gen.EXT_TO_KW_MAPPING Gen.CLI_DEFAULT_CONFIG ("out." ++ kind).toList

/-- **cli_kwargs_eq_api** — for every kind, the keywords `build_config` lets through for a command line without
    options, completed with the serialiser's defaults, are the serialiser's own defaults: the command line tool
    calls the serialiser exactly like `qr.save('out.<kind>')`.  (Kernel check over the regenerated signatures; it
    fails for any CLI default that survives the filtering and differs from the serialiser's default — the defect
    D11 `unit=None` for LaTeX — and for a surviving keyword the serialiser does not know.) -/
theorem cli_kwargs_eq_api :
    kinds.all (fun kind => complete (sigDefaults kind) (defaultKwargs kind) == some (sigDefaults kind)) = true := by
  decide +kernel

/-- the keyword table of the command line tool lists only real keywords of the serialisers -/
theorem ext_mapping_sound :
    Gen.EXT_TO_KW_MAPPING.all (fun e => e.2.all (fun k => (sigDefaults e.1).any (·.1 == k))) = true
    ∧ Gen.EXT_TO_KW_MAPPING.map (·.1) = Gen.VALID_SERIALIZERS.map (·.1) := by
  decide +kernel

/-- `build_config` passes only keywords listed for the extension — for EVERY configuration and file name;
    together with `ext_mapping_sound`: the command line tool can never cause "unexpected keyword argument" -/
theorem kwargs_supported (m : List (String × List String)) (config : Config) (fname : Str) (kv : String × PyV)
    (h : kv ∈ buildConfig m config (some fname)) :
    (supportedKeywords m (configExt fname)).contains kv.1 = true := by
  simp only [buildConfig, filterConfig] at h
  split at h
  · simp only [cpop, List.mem_filter] at h
    exact h.1.2
  · simp only [List.mem_filter] at h
    exact h.2

/-- `unit=None` is never passed on (the repaired defect D11), whatever the command line -/
theorem unit_none_never_passed (m : List (String × List String)) (config : Config) (fname : Str) :
    cget (buildConfig m config (some fname)) "unit" ≠ some PyV.none := by
  simp only [buildConfig, filterConfig]
  split
  · intro hc
    rw [cget_cpop_self] at hc
    exact absurd hc (by simp)
  · rename_i h
    intro hc
    rw [hc] at h
    simp at h

/-- the file name matters only through its extension: same keywords for `stem.EXT` in any letter case, `svgz` = `svg` -/
theorem kwargs_extension_only (m : List (String × List String)) (config : Config) (stem stem' ext ext' : Str)
    (hd : '.' ∉ ext) (hc : lower ext' = lower ext) :
    buildConfig m config (some (stem' ++ '.' :: ext')) = buildConfig m config (some (stem ++ '.' :: ext)) := by
  have hd' : '.' ∉ ext' := by
    intro h
    have := (dot_mem_lower ext').2 h
    rw [hc] at this
    exact hd ((dot_mem_lower ext).1 this)
  simp only [buildConfig, filterConfig, configExt, afterLastDot_append _ _ hd, afterLastDot_append _ _ hd', hc]

/-! ### dispatch of `writers.save` (unbounded over strings) -/

/-- **dispatch** — a file name `stem.EXT` selects the same serialiser whatever the letter case of the extension … -/
theorem dispatch_case_insensitive (valid : List String) (stem stem' ext ext' : Str)
    (hd : '.' ∉ ext) (hc : lower ext' = lower ext) :
    dispatch valid (stem' ++ '.' :: ext') false none = dispatch valid (stem ++ '.' :: ext) false none := by
  have hd' : '.' ∉ ext' := by
    intro h
    have := (dot_mem_lower ext').2 h
    rw [hc] at this
    exact hd ((dot_mem_lower ext).1 this)
  simp only [dispatch, dispatchKey, afterLastDot_append _ _ hd, afterLastDot_append _ _ hd', hc]

/-- … and `kind=EXT` (any letter case, any `out`) selects the same serialiser as the file name `stem.ext` -/
theorem dispatch_kind_eq_extension (valid : List String) (stem out ext kind : Str) (isStream : Bool)
    (hd : '.' ∉ ext) (hc : lower kind = lower ext) :
    dispatch valid out isStream (some kind) = dispatch valid (stem ++ '.' :: ext) false none := by
  simp only [dispatch, dispatchKey, afterLastDot_append _ _ hd, hc]

/-- the extension is what follows the LAST dot -/
theorem dispatch_last_dot (valid : List String) (stem ext : Str) (hd : '.' ∉ ext) :
    dispatch valid (stem ++ '.' :: ext) false none = dispatch valid ('x' :: '.' :: ext) false none := by
  have := afterLastDot_append ['x'] ext hd
  simp only [List.cons_append, List.nil_append] at this
  simp only [dispatch, dispatchKey, afterLastDot_append _ _ hd, this]

/-- an unknown extension / kind is refused with ValueError, a known one is never refused -/
theorem dispatch_unknown (valid : List String) (out : Str) (isStream : Bool) (kind : Option Str)
    (h : valid.contains (dispatchKey out isStream kind).1 = false) :
    dispatch valid out isStream kind = .error PyErr.valueError := by
  have h' : (dispatchKey out isStream kind).1 ∉ valid := by simpa using h
  simp only [dispatch, List.contains_iff_mem, h', if_false]
  rfl

theorem dispatch_known (valid : List String) (out : Str) (isStream : Bool) (kind : Option Str)
    (h : valid.contains (dispatchKey out isStream kind).1 = true) :
    dispatch valid out isStream kind = .ok (dispatchKey out isStream kind) := by
  simp only [dispatch, h, if_true]; rfl

def okIs {α : Type} [BEq α] (r : R α) (a : α) : Bool := match r with | .ok x => x == a | .error _ => false
def errIs {α : Type} (r : R α) (e : PyErr) : Bool := match r with | .ok _ => false | .error x => x == e

/-- on the pinned tree: the 12 serialisers plus `svgz` (gzip-compressed SVG, file names and `kind=` only) -/
theorem dispatch_table :
    kinds.all (fun k => okIs (dispatch (Gen.VALID_SERIALIZERS.map (·.1)) ("a." ++ k).toList false none) (serializerOf k, k == "svgz")) = true
    ∧ errIs (dispatch (Gen.VALID_SERIALIZERS.map (·.1)) "a.svgz".toList true none) PyErr.valueError = true
    ∧ okIs (dispatch (Gen.VALID_SERIALIZERS.map (·.1)) "a.svgz".toList true (some "SVGZ".toList)) ("svg", true) = true := by
  decide +kernel

/-! ### file names of a sequence -/

def digit (n : Nat) : Char := Char.ofNat (48 + n % 10)
/-- two decimal digits -/
def two (n : Nat) : Str := [digit (n / 10), digit n]

theorem fmt02_two : ∀ n, n < 100 → fmt02 n = two n := by decide +kernel

/-- **sequence_names** — the n-th of m symbols (1 ≤ n ≤ m ≤ 16, m ≥ 2) saved to `stem.ext` goes to
    `stem-MM-NN.ext` with two-digit numbers, for every stem and extension (braces, blanks, further dots in the
    stem included); a single symbol keeps the name -/
theorem sequence_names (stem ext : Str) (m n : Nat) (hd : '.' ∉ ext) (hm : 2 ≤ m) (hm16 : m ≤ 16) (hn : n ≤ m) :
    seqFileName (stem ++ '.' :: ext) m n = stem ++ ['-'] ++ two m ++ ['-'] ++ two n ++ '.' :: ext := by
  have h1 : m > 1 := by omega
  simp only [seqFileName, h1, if_true, splitLastDot_append _ _ hd, fmt02_two m (by omega), fmt02_two n (by omega)]

theorem sequence_single (out : Str) (n : Nat) : seqFileName out 1 n = out := by
  simp [seqFileName]

/-- different symbols of a sequence never share a file -/
theorem sequence_names_injective (stem ext : Str) (m n n' : Nat) (hd : '.' ∉ ext) (hm : 2 ≤ m) (hm16 : m ≤ 16)
    (hn : n ≤ m) (hn' : n' ≤ m) (h : seqFileName (stem ++ '.' :: ext) m n = seqFileName (stem ++ '.' :: ext) m n') : n = n' := by
  rw [sequence_names stem ext m n hd hm hm16 hn, sequence_names stem ext m n' hd hm hm16 hn'] at h
  have h2 : two n = two n' := by
    have := List.append_cancel_left (as := stem ++ ['-'] ++ two m ++ ['-']) (by simpa [List.append_assoc] using h)
    simpa [two] using this
  have hall : ∀ a, a < 17 → ∀ b, b < 17 → two a = two b → a = b := by decide +kernel
  exact hall n (by omega) n' (by omega) h2

/-! ### non-vacuity -/

example : okIs (dispatch (Gen.VALID_SERIALIZERS.map (·.1)) "my.qr.PnG".toList false none) ("png", false) = true := by decide +kernel
example : errIs (dispatch (Gen.VALID_SERIALIZERS.map (·.1)) "x.foo".toList false none) PyErr.valueError = true := by decide +kernel
example : seqFileName "x{0}.b.png".toList 12 3 = "x{0}.b-12-03.png".toList := by decide +kernel
example : (defaultKwargs "tex") = [("border", .none), ("scale", .int 1)] := by decide +kernel
example : cget (cliKwargs Gen.EXT_TO_KW_MAPPING (cset Gen.CLI_DEFAULT_CONFIG "unit" (.str "mm")) "a.tex".toList) "unit" = some (.str "mm") := by
  decide +kernel

end Props.C12
