/-
  C16 (EPC part) — the refusals of `_make_epc_qr_data` against the documented limits as the judge
  evaluates them: `epc_refusals` proves `Props.C16.epc_refusals_statement` (Props/C16.lean) in full.
  Property theorems only (lemmas: Proofs/HelpersEpcRefusals.lean).

  History: with a judge that rounded the amount half up the statement was false for amounts exactly
  half-way between two cents the lower of which ends in 0 (`Decimal('0.105')`: the code, like
  `f'{amount:.2f}'`, rounds to even and writes `EUR0.1`, a half-up judge counts the seven characters of
  `EUR0.11`, so a payload of exactly 331 bytes looked one byte too long).  `Spec.Helpers.epcChecks` now
  computes the nearest cent with ties to even; the former counterexample is kept below as a
  regression example on which the model and the judge agree.
-/
import Props.C16
import Proofs.HelpersEpcRefusals

namespace Props.C16
open Spec.Helpers Model.Helpers Proofs.Helpers

/-- "the codec of this name can represent the text", read from `EpcArgs.can` (the `canName` of
    `epc_refusals_statement`) -/
abbrev epcCanName (a : EpcArgs) : String → Bool :=
  fun (n : String) => match epcEncodings.idxOf? n with | some i => a.can.getD i false | none => false

/-- **accepted ⇒ no documented limit is violated both with and without surrounding whitespace**: for each
    of the thirteen limits the judge's check passes for the trimmed values (name, text / reference,
    BIC: the code strips them), for the values as given (IBAN, purpose: the code does not strip them),
    or either way (amount, encoding request, codec); the judge's byte count for the trimmed values is
    at most the number of bytes of the payload -/
theorem epc_accept_no_limit_violated (a : EpcArgs) (k : Nat) (t : Str) (h : epcData a (epcCanName a) = some (k, t)) :
    epcMustRefuse a = none :=
  accept_no_limit_violated a k t h

/-- **accepted ⇒ the character set number is the prescribed one**: the requested one, else the first of
    2..8 that can represent the text, else 1 (the two searches — `encodings[1:]` numbered from 2 by name
    in the model, `can[1..7]` in the specification — agree); in particular the request was valid -/
theorem epc_accept_charset (a : EpcArgs) (k : Nat) (t : Str) (h : epcData a (epcCanName a) = some (k, t)) :
    (match epcRequested a.encoding with | .ok req => k = epcCharset req a.can | .error _ => False) :=
  accept_charset a k t h

/-- **accepted ⇒ at most 331 bytes** in the declared character set (UTF-8 bytes for 1, else one byte per
    character) -/
theorem epc_accept_size (a : EpcArgs) (k : Nat) (t : Str) (h : epcData a (epcCanName a) = some (k, t)) :
    (if k = 1 then Spec.Helpers.utf8Len t else t.length) ≤ epcMaxBytes :=
  accept_size a k t h

/-- **refused ⇒ not an input that must be accepted**: whenever the model raises ValueError, at least one
    of the thirteen documented limits is violated for the values as given or for the trimmed values -/
theorem epc_refuse_not_must_accept (a : EpcArgs) (h : epcData a (epcCanName a) = none) : epcMustAccept a = false :=
  refuse_not_must_accept a h

/-- **EPC refusals** (the full statement of Props/C16.lean): whenever the model accepts, no documented
    limit is violated in the judge's sense, the character set number is the one the specification
    prescribes and the payload has at most 331 bytes; whenever the model refuses, the input is not one
    the judge says must be accepted. -/
theorem epc_refusals : epc_refusals_statement :=
  fun a => ⟨fun k t h => ⟨accept_no_limit_violated a k t h, accept_charset a k t h, accept_size a k t h⟩,
    fun h => refuse_not_must_accept a h⟩

/-! ### regression example: an amount half-way between two cents at the size limit -/

/-- name of 70, IBAN of 34, BIC of 11, purpose of 4 characters, text of 92 `ä` and two `t`, amount
    105/1000 (written `EUR0.1`), only UTF-8 can represent the text: exactly 331 bytes -/
def epcTieExample : EpcArgs :=
  { name := some (List.replicate 70 'n'), iban := some (List.replicate 34 'i'), amount := { num := 105, den := 1000 },
    text := some (List.replicate 92 'ä' ++ List.replicate 2 't'), bic := some (List.replicate 11 'b'),
    purpose := some (List.replicate 4 'p'), can := [true] }

/-- the model accepts it with character set 1 and 331 bytes, and the judge agrees: nothing to refuse, must
    be accepted; with one more character both refuse -/
example :
    (∃ t, epcData epcTieExample (epcCanName epcTieExample) = some (1, t) ∧ Spec.Helpers.utf8Len t = 331)
    ∧ epcMustRefuse epcTieExample = none ∧ epcMustAccept epcTieExample = true
    ∧ epcMustRefuse { epcTieExample with text := some (List.replicate 92 'ä' ++ List.replicate 3 't') }
        = some "payload-exceeds-331-bytes" := by
  refine ⟨⟨epcPayload epcTieExample 1, ?_, ?_⟩, by decide +kernel, by decide +kernel, by decide +kernel⟩
  · have hl : epcRefusedByLimits epcTieExample = false := by decide +kernel
    have hlen : byteLen 1 (epcPayload epcTieExample 1) = 331 := by
      rw [payload_byteLen epcTieExample 1 (by omega) (by omega)]
      decide +kernel
    show epcData epcTieExample (canNameOf epcTieExample) = _
    rw [epcData_eq]
    have hreq : epcRequested epcTieExample.encoding = .ok none := rfl
    have hk : epcCharset none epcTieExample.can = 1 := by decide
    have hc : epcTieExample.can.getD (1 - 1) false = true := rfl
    rw [hreq]
    simp only [hk, hl, hc, hlen, Bool.false_eq_true, if_false, Bool.true_eq_false]
    rfl
  · have hlen : byteLen 1 (epcPayload epcTieExample 1) = 331 := by
      rw [payload_byteLen epcTieExample 1 (by omega) (by omega)]
      decide +kernel
    exact hlen

#print axioms epc_accept_no_limit_violated
#print axioms epc_accept_charset
#print axioms epc_accept_size
#print axioms epc_refuse_not_must_accept
#print axioms epc_refusals

end Props.C16
