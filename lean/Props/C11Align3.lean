/-
  C11, alignment tie per version (kernel-evaluated, see Proofs/Align.lean `alignCheck`): the matrix that
  `add_alignment_patterns` fills (Model.alignmentMatrix?, table `consts.ALIGNMENT_POS` regenerated in Gen/Align.lean)
  is 2 outside the Annex E blocks, 0 / 1 inside, and the blocks lie in the ISO alignment region.
-/
import Proofs.Align

namespace Props.C11Align

open Proofs.Align

theorem align_v6 : alignCheck (6) = true := by decide +kernel
theorem align_v14 : alignCheck (14) = true := by decide +kernel
theorem align_v19 : alignCheck (19) = true := by decide +kernel
theorem align_v27 : alignCheck (27) = true := by decide +kernel
theorem align_v38 : alignCheck (38) = true := by decide +kernel

end Props.C11Align
