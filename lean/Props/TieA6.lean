/-
  Tie A, sixth round — the segment list IS what the source says now.

  `Gen/Funcs6.lean` is written by the AST translator (tools/pytolean.py, grammar: docs/TRANSLATOR.md, round 6) from the CURRENT
  source of the repository on every run: `Segments.add_segment(self, segment)` — a METHOD that updates `self` (`self.segments`,
  `self.bit_length`, `self.modes`) — as the function from the state triple (segments, bit_length, modes) and the segment to the
  new triple (spec key `self_state`; `del xs[-1]`, `{…}.get(key, default)` on a dict display, `%` by a computed divisor inside a
  chained `and`, construction of the `_Segment` tuple).  `Model.addSegment` is the hand model (a list of segments; the model
  derives the bit length and the modes from the list, `Model.bitLengthWithOverhead`).
  Translation validation: `Gen/Funcs6Check.lean` (imported here): 54 kernel-checked results of the real method.
-/
import Gen.Funcs6Check
import Proofs.TieA6Segments
import Props.TieA3Kanji

namespace Props.TieA6
open Gen.Py Proofs.TieA Proofs.TieA2 Proofs.TieA6 Model

/-- (the segment tuple of this round is the one `make_segment_tie…` of round 3 speak about) -/
theorem segT_eq_segI : segT = Props.TieA3.segI := rfl

/-- `Segments.add_segment`: for EVERY state that satisfies the class invariant (`bit_length` = Σ |bits|, `modes` = the modes of
    the segments) whose segments are images of model segments, and every segment, the translation returns — without raising —
    the state that belongs to the segments of `Model.addSegment` -/
theorem add_segment_tie (segs : List Segment) (s : Segment) (bitLength : Int) (modes : List Int)
    (hinv : StateInv (segs.map segT, bitLength, modes)) :
    Gen.Funcs6.add_segment (segs.map segT) bitLength modes (segT s) = .ok (stateOf ((Model.addSegment segs s).map segT)) := by
  rw [← addSegT_model]
  exact add_segment_inv (segs.map segT, bitLength, modes) (segT s) hinv

/-- … its three components spelled out: the segments, `bit_length` = the sum of the lengths of their bit strings,
    `modes` = their modes -/
theorem add_segment_tie_components (segs : List Segment) (s : Segment) (bitLength : Int) (modes : List Int)
    (hinv : StateInv (segs.map segT, bitLength, modes)) :
    Gen.Funcs6.add_segment (segs.map segT) bitLength modes (segT s)
      = .ok ((Model.addSegment segs s).map segT,
             (((Model.addSegment segs s).map (fun x => (x.bits.length : Int))).sum),
             (Model.addSegment segs s).map (fun x => (x.mode : Int))) := by
  rw [add_segment_tie segs s bitLength modes hinv]
  simp [stateOf, bitSum, segT, toI, Function.comp_def]

/-- the invariant is preserved — for ARBITRARY states of the translation (any integers as character counts / modes, not only
    images of model segments): from a state with `bit_length` = Σ |bits| and `modes` = map mode the method does not raise and
    the state it leaves satisfies the invariant again -/
theorem add_segment_invariant (st : State) (seg : Seg) (hinv : StateInv st) :
    ∃ st', Gen.Funcs6.add_segment st.1 st.2.1 st.2.2 seg = .ok st' ∧ StateInv st' ∧ st'.1 = addSegT st.1 seg :=
  ⟨stateOf (addSegT st.1 seg), add_segment_inv st seg hinv, stateInv_stateOf _, rfl⟩

-- the invariant is needed: with `modes` empty next to a non-empty list of segments the real method (and the translation)
-- raises IndexError at `del self.modes[-1]` (a sample of `Gen/Funcs6Check.lean`, repeated here)
set_option synthInstance.maxSize 512 in
example : Gen.Funcs6.add_segment [([0, 1, 1, 0, 0, 0, 0, 1], 1, 4, some "iso-8859-1")] 0 []
    ([0, 1, 1, 0, 0, 0, 0, 1], 1, 4, some "iso-8859-1") = .error .indexError := by decide +kernel

/-- `prepare_data`'s loop over `add_segment`, from the state of `Segments.__init__` (`[]`, 0, `[]`) -/
def addSegments (ss : List Seg) : M State :=
  Gen.Py.foldlM ss (([], 0, []) : State) (fun st seg => Gen.Funcs6.add_segment st.1 st.2.1 st.2.2 seg)

theorem foldlM_add_segment (ss : List Segment) (acc : List Segment) :
    Gen.Py.foldlM (ss.map segT) (stateOf (acc.map segT)) (fun st seg => Gen.Funcs6.add_segment st.1 st.2.1 st.2.2 seg)
      = .ok (stateOf ((ss.foldl Model.addSegment acc).map segT)) := by
  induction ss generalizing acc with
  | nil => rfl
  | cons s rest ih =>
    rw [List.map_cons, Gen.Py.foldlM]
    have h := add_segment_tie acc s (stateOf (acc.map segT)).2.1 (stateOf (acc.map segT)).2.2 (stateInv_stateOf _)
    rw [show (stateOf (acc.map segT)).1 = acc.map segT from rfl, h]
    exact ih (Model.addSegment acc s)

/-- folding `add_segment` over a list of segments from the empty `Segments` object: the segments are those of the model's
    fold, `bit_length` and `modes` belong to them; nothing is raised -/
theorem add_segments_fold_tie (ss : List Segment) :
    addSegments (ss.map segT) = .ok (stateOf ((ss.foldl Model.addSegment []).map segT)) :=
  foldlM_add_segment ss []

/-- the model's `prepareData` is that fold when every part yields a segment -/
theorem prepareData_eq_fold (parts : List Part) (ss : List Segment)
    (h : parts.mapM (fun p => Model.makeSegment p.data p.mode p.encoding) = .ok ss) :
    Model.prepareData parts = .ok (ss.foldl Model.addSegment []) := by
  unfold Model.prepareData
  suffices H : ∀ (parts : List Part) (ss acc : List Segment),
      parts.mapM (fun p => Model.makeSegment p.data p.mode p.encoding) = .ok ss →
      parts.foldlM (fun segs p => do
        let s ← Model.makeSegment p.data p.mode p.encoding
        pure (Model.addSegment segs s)) acc = (.ok (ss.foldl Model.addSegment acc) : R (List Segment)) from H parts ss [] h
  intro parts
  induction parts with
  | nil =>
    intro ss acc h
    simp only [List.mapM_nil] at h
    cases h
    rfl
  | cons p rest ih =>
    intro ss acc h
    rw [List.mapM_cons] at h
    cases hp : Model.makeSegment p.data p.mode p.encoding with
    | error e => rw [hp] at h; cases h
    | ok s =>
      rw [hp] at h
      cases hr : rest.mapM (fun p => Model.makeSegment p.data p.mode p.encoding) with
      | error e => rw [hr] at h; cases h
      | ok ss' =>
        rw [hr] at h
        cases h
        rw [List.foldlM_cons, hp]
        exact ih ss' (Model.addSegment acc s) hr

/-- when every part yields a segment (`hseg`), folding the regenerated `add_segment` over these segments from the empty state
    gives the state that belongs to `Model.prepareData parts` (the version with the regenerated `make_segment` in the loop, and
    with parts that raise, is `prepare_data_tie_partial` below) -/
theorem prepare_data_segments_fold (parts : List Part) (ss : List Segment)
    (hseg : parts.mapM (fun p => Model.makeSegment p.data p.mode p.encoding) = .ok ss) :
    ∃ segs, Model.prepareData parts = .ok segs ∧ addSegments (ss.map segT) = .ok (stateOf (segs.map segT)) :=
  ⟨_, prepareData_eq_fold parts ss hseg, add_segments_fold_tie ss⟩

/-- `prepare_data`'s loop body as the translated callees compose it: `add_segment(make_segment(seg_content, seg_mode,
    seg_encoding))` for every part, from the state of `Segments.__init__`; the opaque reads of `make_segment` (round 3) are fed
    per part as there: `data_to_bytes(…)` = (the bytes of the part, their number, the codec name), `find_mode(…)` = the model's
    `findMode`, the builtin `int` = `intOf` -/
def prepareDataT (raw : Part → String) (enc : Part → Option String) (intOf : List Int → M Int) (parts : List Part) (init : State) : M State :=
  Gen.Py.foldlM parts init (fun st p =>
    Gen.Py.bind (Gen.Funcs3.make_segment (raw p) (p.mode.map Int.ofNat) (enc p) (.ok (toI p.data, (p.data.length : Int), p.encoding))
        (findMode p.data : Int) intOf)
      (fun seg => Gen.Funcs6.add_segment st.1 st.2.1 st.2.2 seg))

theorem prepareDataT_acc (raw : Part → String) (enc : Part → Option String) (intOf : List Int → M Int)
    (hint : ∀ c : List Nat, c ≠ [] → (∀ b ∈ c, 48 ≤ b ∧ b ≤ 57) → intOf (toI c) = .ok (Int.ofNat (digitsVal c)))
    (parts : List Part)
    (hparts : ∀ p ∈ parts, (∀ b ∈ p.data, b < 256) ∧
      (p.mode = none ∨ p.mode = some 1 ∨ p.mode = some 2 ∨ p.mode = some 4 ∨ p.mode = some 8 ∨ p.mode = some 13))
    (acc : List Segment) :
    toR (prepareDataT raw enc intOf parts (stateOf (acc.map segT)))
      = (parts.foldlM (fun segs p => do
          let s ← Model.makeSegment p.data p.mode p.encoding
          pure (Model.addSegment segs s)) acc : R (List Segment)).map (fun segs => stateOf (segs.map segT)) := by
  induction parts generalizing acc with
  | nil => rfl
  | cons p rest ih =>
    have hp := hparts p (List.mem_cons_self ..)
    have hms := Props.TieA3.make_segment_tie_modes (raw p) p.data p.mode (enc p) p.encoding intOf hp.1 hint hp.2
    unfold prepareDataT
    rw [Gen.Py.foldlM, List.foldlM_cons]
    cases hm : Model.makeSegment p.data p.mode p.encoding with
    | error e =>
      rw [hm] at hms
      cases hg : Gen.Funcs3.make_segment (raw p) (p.mode.map Int.ofNat) (enc p) (.ok (toI p.data, (p.data.length : Int), p.encoding))
          (findMode p.data : Int) intOf with
      | ok v => rw [hg] at hms; cases hms
      | error e' =>
        rw [hg] at hms
        simp only [Gen.Py.bind_error]
        have he : (Except.error (exc e') : R Seg) = Except.error e := hms
        cases he
        rfl
    | ok sg =>
      rw [hm] at hms
      cases hg : Gen.Funcs3.make_segment (raw p) (p.mode.map Int.ofNat) (enc p) (.ok (toI p.data, (p.data.length : Int), p.encoding))
          (findMode p.data : Int) intOf with
      | error e' => rw [hg] at hms; cases hms
      | ok v =>
        rw [hg] at hms
        have hv : v = segT sg := by
          have : (Except.ok v : R Seg) = Except.ok (Props.TieA3.segI sg) := hms
          cases this
          rfl
        subst hv
        simp only [Gen.Py.bind_ok]
        have h := add_segment_tie acc sg (stateOf (acc.map segT)).2.1 (stateOf (acc.map segT)).2.2 (stateInv_stateOf _)
        rw [show (stateOf (acc.map segT)).1 = acc.map segT from rfl, h]
        exact ih (fun q hq => hparts q (List.mem_cons_of_mem _ hq)) (Model.addSegment acc sg)

/-- `prepare_data`, list branch, as the fold of the REGENERATED `make_segment` (round 3) and `add_segment` (this round) over
    already-split parts (bytes < 256, a documented mode request or none, the builtin `int` reads digit strings): the final state of
    the `Segments` object — or the exception a part raises — is that of `Model.prepareData`; `bit_length` and `modes` are those that
    belong to the model's segments.
    MISSING (hence the fold is stated in Lean, `prepareDataT`, and not regenerated): the statements of `prepare_data` around the two
    calls — `Segments()`, the bound method, `isinstance(content, (str, bytes, int))`, the unpacking of `item` with `item[1] or mode`. -/
theorem prepare_data_tie_partial (raw : Part → String) (enc : Part → Option String) (intOf : List Int → M Int)
    (hint : ∀ c : List Nat, c ≠ [] → (∀ b ∈ c, 48 ≤ b ∧ b ≤ 57) → intOf (toI c) = .ok (Int.ofNat (digitsVal c)))
    (parts : List Part)
    (hparts : ∀ p ∈ parts, (∀ b ∈ p.data, b < 256) ∧
      (p.mode = none ∨ p.mode = some 1 ∨ p.mode = some 2 ∨ p.mode = some 4 ∨ p.mode = some 8 ∨ p.mode = some 13)) :
    toR (prepareDataT raw enc intOf parts ([], 0, []))
      = (Model.prepareData parts).map (fun segs => stateOf (segs.map segT)) :=
  prepareDataT_acc raw enc intOf hint parts hparts []

end Props.TieA6
