/-
  Tie A, third round — `make_segment`: the kanji and hanzi branches (pairs of bytes in 13 bits, with their `ValueError`s), and
  the case analysis over (requested mode, mode found by `find_mode`) that puts the branch theorems of Props/TieA3.lean together.

  FINDING: `Props.TieA3.make_segment_tie_statement` is FALSE as stated (`make_segment_tie_statement_false`): for a requested
  mode NUMBER that is no mode constant (not 1, 2, 4, 8, 13), not below the mode `find_mode` finds, and an ODD number of bytes
  whose complete pairs are all valid Shift JIS double bytes, the code runs into its last `else` (the kanji loop, without the
  parity check, which is made for 8 and 13 only) and reads `segment_data[i + 1]` past the end: `IndexError`; `Model.makeSegment`
  drops the odd byte (`Model.pairs`) and returns a segment.  Smallest input: mode 3, data b"1".  `make_segment_tie_full_partial`
  is the statement with exactly that corner excluded.
-/
import Props.TieA3
import Proofs.TieA3Kanji

namespace Props.TieA3
open Gen.Py Proofs.TieA Proofs.TieA2 Proofs.TieA3 Model

/-- kanji / hanzi mode — requested (8, 13; whatever `find_mode` finds, which is never above 8), or found by `find_mode` when no
    mode is requested (kanji only) — for EVERY byte string: two bytes per character, `ValueError` for an odd number of bytes,
    `ValueError` at the first pair whose trail byte is outside the range (hanzi: 0xA1 … 0xFE, kanji: `_is_shift_jis_trail_byte`) or
    whose code is outside both code ranges; otherwise 13 bits per pair ((diff >> 8) · 0x60 / 0xC0 + (diff & 0xFF)); the same
    outcome as `Model.makeSegment` (`Model.pairs` / `mapM`). -/
theorem make_segment_tie_kanji_hanzi (raw : String) (data : List Nat) (mode : Option Nat) (enc : Option String) (encName : String)
    (intOf : List Int → M Int) (hd : ∀ b ∈ data, b < 256)
    (hmode : mode = some 8 ∨ mode = some 13 ∨ (mode = none ∧ findMode data = 8)) :
    toR (Gen.Funcs3.make_segment raw (mode.map Int.ofNat) enc (.ok (toI data, (data.length : Int), encName)) (findMode data : Int) intOf)
      = (Model.makeSegment data mode encName).map segI := by
  have hle : ¬ 8 < findMode data := by
    rcases findMode_cases data with h | h | h | h <;> rw [h] <;> omega
  rcases hmode with h | h | ⟨h, hg⟩
  · subst h
    by_cases hev : data.length % 2 = 0
    · have h1 := make_segment_kanji_py raw data 8 enc encName intOf hd hev (by omega) hle
      have h2 := make_segment_kanji_model data 8 encName hev (by omega) hle
      refine h1.trans ?_
      rw [h2]
      cases List.mapM kanjiGroup (pairs data) <;> rfl
    · exact make_segment_tie_odd raw data 8 enc encName intOf (Or.inl rfl) (by omega)
  · subst h
    by_cases hev : data.length % 2 = 0
    · have h1 := make_segment_hanzi_py raw data enc encName intOf hd hev
      have h2 := make_segment_hanzi_model data encName hev
      refine h1.trans ?_
      rw [h2]
      cases List.mapM hanziGroup (pairs data) <;> rfl
    · exact make_segment_tie_odd raw data 13 enc encName intOf (Or.inr rfl) (by omega)
  · subst h
    have h1 := make_segment_kanji_none_py raw data enc encName intOf hd hg
    have h2 := make_segment_kanji_none_model data encName hg
    refine h1.trans ?_
    rw [h2]
    cases List.mapM kanjiGroup (pairs data) <;> rfl

/-- a requested mode NUMBER that is none of the constants 1, 2, 4, 8, 13 and not below the mode found runs into the last `else` of
    the code (the kanji loop; the number of characters is NOT halved): for an EVEN number of bytes the model agrees -/
theorem make_segment_tie_other_even (raw : String) (data : List Nat) (m : Nat) (enc : Option String) (encName : String)
    (intOf : List Int → M Int) (hd : ∀ b ∈ data, b < 256) (hev : data.length % 2 = 0)
    (hm : m ≠ 1 ∧ m ≠ 2 ∧ m ≠ 4 ∧ m ≠ 13) (hge : ¬ m < findMode data) :
    toR (Gen.Funcs3.make_segment raw (some (m : Int)) enc (.ok (toI data, (data.length : Int), encName)) (findMode data : Int) intOf)
      = (Model.makeSegment data (some m) encName).map segI := by
  have h1 := make_segment_kanji_py raw data m enc encName intOf hd hev hm hge
  have h2 := make_segment_kanji_model data m encName hev hm hge
  refine h1.trans ?_
  rw [h2]
  cases List.mapM kanjiGroup (pairs data) <;> rfl

/-- the FULL statement with one corner excluded: a requested mode number that is no mode constant (1, 2, 4, 8, 13) and not below
    the mode found, with an ODD number of bytes (there the code raises `IndexError` where the model returns a segment or
    `ValueError`, see `make_segment_tie_statement_false`).  Every other combination of requested mode (any number, or None),
    mode found and byte string is covered. -/
theorem make_segment_tie_full_partial (raw : String) (data : List Nat) (mode : Option Nat) (enc : Option String) (encName : String)
    (intOf : List Int → M Int) (hd : ∀ b ∈ data, b < 256)
    (hint : ∀ c : List Nat, c ≠ [] → (∀ b ∈ c, 48 ≤ b ∧ b ≤ 57) → intOf (toI c) = .ok (Int.ofNat (digitsVal c)))
    (hcorner : ∀ m, mode = some m →
      m = 1 ∨ m = 2 ∨ m = 4 ∨ m = 8 ∨ m = 13 ∨ m < findMode data ∨ data.length % 2 = 0) :
    toR (Gen.Funcs3.make_segment raw (mode.map Int.ofNat) enc (.ok (toI data, (data.length : Int), encName)) (findMode data : Int) intOf)
      = (Model.makeSegment data mode encName).map segI := by
  have hfm := findMode_cases data
  cases mode with
  | none =>
    rcases hfm with h | h | h | h
    · exact make_segment_tie_partial raw data none enc encName intOf hint (Or.inr (Or.inl ⟨h, Or.inl rfl⟩))
    · exact make_segment_tie_partial raw data none enc encName intOf hint (Or.inr (Or.inr ⟨h, Or.inl rfl⟩))
    · exact make_segment_tie_partial raw data none enc encName intOf hint (Or.inl (Or.inr ⟨rfl, h⟩))
    · exact make_segment_tie_kanji_hanzi raw data none enc encName intOf hd (Or.inr (Or.inr ⟨rfl, h⟩))
  | some m =>
    by_cases h4 : m = 4
    · subst h4
      exact make_segment_tie_partial raw data (some 4) enc encName intOf hint (Or.inl (Or.inl rfl))
    by_cases hlt : m < findMode data
    · exact make_segment_tie_refused raw data m enc encName intOf h4 hlt
    by_cases h1 : m = 1
    · subst h1
      exact make_segment_tie_partial raw data (some 1) enc encName intOf hint (Or.inr (Or.inl ⟨by omega, Or.inr rfl⟩))
    by_cases h2 : m = 2
    · subst h2
      have : findMode data = 1 ∨ findMode data = 2 := by omega
      rcases this with h | h
      · exact make_segment_tie_alnum_digits raw data enc encName intOf h
      · exact make_segment_tie_partial raw data (some 2) enc encName intOf hint (Or.inr (Or.inr ⟨h, Or.inr rfl⟩))
    by_cases h8 : m = 8
    · subst h8
      exact make_segment_tie_kanji_hanzi raw data (some 8) enc encName intOf hd (Or.inl rfl)
    by_cases h13 : m = 13
    · subst h13
      exact make_segment_tie_kanji_hanzi raw data (some 13) enc encName intOf hd (Or.inr (Or.inl rfl))
    have hev : data.length % 2 = 0 := by
      have := hcorner m rfl
      omega
    exact make_segment_tie_other_even raw data m enc encName intOf hd hev ⟨h1, h2, h4, h13⟩ hlt

/-- every mode `make_segment` documents (None or one of the constants 1, 2, 4, 8, 13): the full equality -/
theorem make_segment_tie_modes (raw : String) (data : List Nat) (mode : Option Nat) (enc : Option String) (encName : String)
    (intOf : List Int → M Int) (hd : ∀ b ∈ data, b < 256)
    (hint : ∀ c : List Nat, c ≠ [] → (∀ b ∈ c, 48 ≤ b ∧ b ≤ 57) → intOf (toI c) = .ok (Int.ofNat (digitsVal c)))
    (hmode : mode = none ∨ mode = some 1 ∨ mode = some 2 ∨ mode = some 4 ∨ mode = some 8 ∨ mode = some 13) :
    toR (Gen.Funcs3.make_segment raw (mode.map Int.ofNat) enc (.ok (toI data, (data.length : Int), encName)) (findMode data : Int) intOf)
      = (Model.makeSegment data mode encName).map segI :=
  make_segment_tie_full_partial raw data mode enc encName intOf hd hint (by
    intro m hm
    rcases hmode with h | h | h | h | h | h <;> rw [h] at hm <;> simp at hm <;> omega)

/-- the builtin `int` on digit strings, as a function of the translated byte list (for the counterexample) -/
def intOfDigits (l : List Int) : M Int := .ok (Int.ofNat (digitsVal (l.map Int.toNat)))

/-- THE FULL STATEMENT IS FALSE: `make_segment(b"1", mode=3)` — the code: `IndexError` (`segment_data[1]` in the kanji loop of
    the last `else`); the model: the segment (no bits, 1 character, mode 3, no encoding) -/
theorem make_segment_tie_statement_false : ¬ make_segment_tie_statement := by
  intro h
  have := h "1" [49] (some 3) none "iso-8859-1" intOfDigits (by decide) (by
    intro c _ _
    have e : (Int.toNat ∘ Int.ofNat) = id := by funext x; simp
    simp [intOfDigits, toI, e])
  revert this
  decide +kernel

/-- the two sides on that input -/
example : toR (Gen.Funcs3.make_segment "1" (some 3) none (.ok ([49], 1, "iso-8859-1")) (findMode [49] : Int) intOfDigits)
      = .error .indexError
    ∧ (Model.makeSegment [49] (some 3) "iso-8859-1").map segI = .ok ([], 1, 3, none) := by decide +kernel

/-- non-vacuity: "点" (Shift JIS 0x93 0x5F) without a requested mode (kanji is found) and with kanji requested: 13 bits
    (0x935F − 0x8140 = 0x121F; 0x12 · 0xC0 + 0x1F = 3487 = 0b0110110011111), one character, mode 8, no encoding — on both sides -/
example : findMode [0x93, 0x5f] = 8
    ∧ Gen.Funcs3.make_segment "点" none none (.ok ([0x93, 0x5f], 2, "shift_jis")) 8 intOfDigits
      = .ok ([0, 1, 1, 0, 1, 1, 0, 0, 1, 1, 1, 1, 1], 1, 8, none)
    ∧ (Model.makeSegment [0x93, 0x5f] none "shift_jis").map segI = .ok ([0, 1, 1, 0, 1, 1, 0, 0, 1, 1, 1, 1, 1], 1, 8, none)
    ∧ Gen.Funcs3.make_segment "点" (some 8) none (.ok ([0x93, 0x5f], 2, "shift_jis")) 8 intOfDigits
      = .ok ([0, 1, 1, 0, 1, 1, 0, 0, 1, 1, 1, 1, 1], 1, 8, none)
    ∧ (Model.makeSegment [0x93, 0x5f] (some 8) "shift_jis").map segI = .ok ([0, 1, 1, 0, 1, 1, 0, 0, 1, 1, 1, 1, 1], 1, 8, none) :=
  ⟨by decide +kernel, by decide +kernel, by decide +kernel, by decide +kernel, by decide +kernel⟩

/-- … a trail byte outside the range: `ValueError` on both sides; "啊" (GB 2312 0xB0 0xA1) in hanzi mode -/
example : Gen.Funcs3.make_segment "" (some 8) none (.ok ([0x93, 0x7f], 2, "shift_jis")) 4 intOfDigits = .error .valueError
    ∧ (Model.makeSegment [0x93, 0x7f] (some 8) "shift_jis").map segI = .error .valueError
    ∧ toR (Gen.Funcs3.make_segment "啊" (some 13) none (.ok ([0xb0, 0xa1], 2, "gb2312")) 4 intOfDigits)
      = (Model.makeSegment [0xb0, 0xa1] (some 13) "gb2312").map segI
    ∧ (Model.makeSegment [0xb0, 0xa1] (some 13) "gb2312").map segI = .ok ([0, 0, 0, 1, 1, 1, 1, 0, 0, 0, 0, 0, 0], 1, 13, none) :=
  ⟨by decide +kernel, by decide +kernel, by decide +kernel, by decide +kernel⟩

#print axioms make_segment_tie_kanji_hanzi
#print axioms make_segment_tie_other_even
#print axioms make_segment_tie_full_partial
#print axioms make_segment_tie_modes
#print axioms make_segment_tie_statement_false

end Props.TieA3
