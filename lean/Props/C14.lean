/-
  C14 — arguments are honoured or refused with ValueError; nothing else escapes.
  Property theorems only (helpers: Proofs/ArgsLemmas, Proofs/CliLemmas).  They speak about the model
  (Model/Args.lean composed with Model.encode) over the tables regenerated from the repository; the
  implementation is tied to the model by the correspondence run of harness/p_args.py and judged directly
  by Spec/Args.lean.
-/
import Model.Args
import Proofs.CliLemmas
import Proofs.ArgsLemmas
import Proofs.SegmentErr
import Proofs.EncodeStages

namespace Props.C14
open Model Model.Args Model.Cli Gen Proofs.ArgsLemmas Proofs.SegmentErr Proofs.EncodeStages

/-- outcomes the property allows: the ValueError family and LookupError -/
def isRefusal : PyErr → Bool
  | .valueError | .dataOverflow | .unicodeError | .lookupError => true
  | _ => false

/-- outcomes the property forbids -/
def isCrash : PyErr → Bool
  | .indexError | .keyError | .typeError | .assertionError => true
  | _ => false

/-! ## spelling invariance -/

/-- error levels in any letter case (unbounded over case patterns) -/
theorem error_level_case (s s' : String) (h : upper s'.toList = upper s.toList) :
    normalizeErrorLevel (.str s') = normalizeErrorLevel (.str s) := by
  simp only [normalizeErrorLevel, h]

/-- mode names in any letter case (unbounded over case patterns) -/
theorem mode_case (s s' : String) (h : lower s'.toList = lower s.toList) :
    normalizeMode (.str s') = normalizeMode (.str s) := by
  simp only [normalizeMode, asInt, Option.bind, h]

/-- every case pattern of a Micro QR version name ("m1", "M1", …) -/
theorem version_name_case (s : Str) (d : Char) (hd : d = '1' ∨ d = '2' ∨ d = '3' ∨ d = '4') (h : upper s = ['M', d]) :
    normalizeVersion (.str (String.ofList s)) = normalizeVersion (.str (String.ofList ['M', d])) := by
  cases s with
  | nil => simp [upper] at h
  | cons c1 t =>
    cases t with
    | nil => simp [upper] at h
    | cons c2 t2 =>
      cases t2 with
      | cons c3 t3 => simp [upper] at h
      | nil =>
        simp only [upper, List.map_cons, List.map_nil, List.cons.injEq, and_true] at h
        have h2 : c2 = d := upperC_digit c2 d (by rcases hd with h | h | h | h <;> subst h <;> decide) h.2
        subst h2
        rcases upperC_eq_M c1 h.1 with h1 | h1 <;> subst h1 <;> rcases hd with h | h | h | h <;> subst h <;> decide +kernel

/-- a version given as a numeric string is the version given as that integer -/
theorem version_numeric_string (s : String) (i : Int) (h : intOfStr s.toList = some i) :
    normalizeVersion (.str s) = normalizeVersion (.int i) := by
  simp only [normalizeVersion, pyInt, h]

/-- … in particular "1" … "40" -/
theorem version_decimal : ∀ n : Nat, n < 41 → 1 ≤ n →
    normalizeVersion (.str (toString n)) = .ok (some (n : Int)) := by decide +kernel

/-- a mask given as a numeric string is the mask given as that integer -/
theorem mask_numeric_string (s : String) (i : Int) (h : intOfStr s.toList = some i) :
    maskRequest (.str s) = maskRequest (.int i) := by
  simp only [maskRequest, pyInt, h]

theorem mask_decimal : ∀ n : Nat, n < 8 → maskRequest (.str (toString n)) = .value (n : Int) := by decide +kernel

/-- **spelling_invariance** — the public functions depend on `version`, `error`, `mode`, `mask` only through their
    normalised values: any spelling that normalises alike (by the lemmas above: names and levels in any letter case,
    numeric strings) gives the same outcome — the same symbol or the same refusal -/
theorem spelling_invariance (c : Call) (version' error' mode' mask' : PyV)
    (hv : normalizeVersion version' = normalizeVersion c.version)
    (he : normalizeErrorLevel error' = normalizeErrorLevel c.error)
    (hm : normalizeMode mode' = normalizeMode c.mode)
    (hk : maskRequest mask' = maskRequest c.mask) :
    api { c with version := version', error := error', mode := mode', mask := mask' } = api c := by
  simp only [api, apiEncode, apiSequence, normalizeMask, encodeLookup, hv, he, hm, hk]

/-! ## excluded combinations are refused -/

/-- version outside 1 … 40 -/
theorem version_out_of_range (i : Int) (h : i < 1 ∨ 40 < i) : normalizeVersion (.int i) = .error .valueError := by
  simp only [normalizeVersion, pyInt]
  by_cases h1 : i < 1
  · simp [h1, throw, throwThe, MonadExceptOf.throw]
  · have h3 : ¬ (i < 41) := by omega
    have h4 : i ∉ Gen.MICRO_VERSIONS := by simp [Gen.MICRO_VERSIONS]; omega
    simp [h1, h3, h4, throw, throwThe, MonadExceptOf.throw]

/-- a version that is neither a number nor a Micro QR name -/
theorem version_unknown_name (s : String) (h1 : intOfStr s.toList = none)
    (h2 : assocStr Gen.MICRO_VERSION_MAPPING (upper s.toList) = none) :
    normalizeVersion (.str s) = .error .valueError := by
  simp [normalizeVersion, pyInt, h1, h2, throw, throwThe, MonadExceptOf.throw]

/-- a refused version is refused by every public function -/
theorem api_refuses_version (c : Call) (h : normalizeVersion c.version = .error .valueError) :
    api c = .error .valueError := by
  cases hf : c.fn <;> simp [api, hf, apiEncode, apiSequence, sequenceVersionCheck, h, bind, Except.bind]

/-- make / make_qr / make_micro: whatever the three normalisers or the combination checks refuse is a ValueError of the call -/
theorem apiEncode_refuses (c : Call) (micro : Option Bool) (eci : Bool)
    (h : (∃ e, normalizeVersion c.version = .error e) ∨ (∃ e, normalizeErrorLevel c.error = .error e)
         ∨ (∃ e, normalizeMode c.mode = .error e)
         ∨ (∀ v er m, normalizeVersion c.version = .ok v → normalizeErrorLevel c.error = .ok er → normalizeMode c.mode = .ok m →
              comboChecks v er m eci micro = .error .valueError)) :
    apiEncode c micro eci = .error .valueError := by
  simp only [apiEncode, bind, Except.bind]
  cases hv : normalizeVersion c.version with
  | error e => rw [normalizeVersion_err _ _ hv]
  | ok v =>
    cases he : normalizeErrorLevel c.error with
    | error e => rw [normalizeErrorLevel_err _ _ he]
    | ok er =>
      cases hm : normalizeMode c.mode with
      | error e => rw [normalizeMode_err _ _ hm]
      | ok m =>
        rcases h with ⟨e, h⟩ | ⟨e, h⟩ | ⟨e, h⟩ | h
        · rw [hv] at h; cases h
        · rw [he] at h; cases h
        · rw [hm] at h; cases h
        · simp only [h v er m hv he hm]

def isMicroVersion (v : Option Int) : Bool :=
  match v with | some x => Gen.MICRO_VERSIONS.contains x | none => false

theorem comboChecks_refuses (v : Option Int) (er m : Option Nat) (eci : Bool) (micro : Option Bool)
    (hne : comboChecks v er m eci micro ≠ .ok ()) : comboChecks v er m eci micro = .error .valueError := by
  cases h : comboChecks v er m eci micro with
  | ok u => cases u; exact absurd h hne
  | error e => rw [comboChecks_err _ _ _ _ _ _ h]

/-- level H with Micro QR (micro=True or a Micro version) -/
theorem combo_H_micro (v : Option Int) (m : Option Nat) (eci : Bool) (micro : Option Bool)
    (hmicro : micro = some true ∨ isMicroVersion v = true) :
    comboChecks v (some Gen.ERROR_LEVEL_H) m eci micro = .error .valueError := by
  apply comboChecks_refuses
  intro h
  unfold comboChecks at h
  simp only [bind, Except.bind, pure, Except.pure, throw, throwThe, MonadExceptOf.throw] at h
  repeat' split at h
  all_goals first | (cases h; done) | skip
  all_goals (simp only [isMicroVersion] at hmicro; simp_all)

/-- ECI with Micro QR -/
theorem combo_eci_micro (v : Option Int) (er m : Option Nat) (micro : Option Bool)
    (hmicro : micro = some true ∨ isMicroVersion v = true) :
    comboChecks v er m true micro = .error .valueError := by
  apply comboChecks_refuses
  intro h
  unfold comboChecks at h
  simp only [bind, Except.bind, pure, Except.pure, throw, throwThe, MonadExceptOf.throw] at h
  repeat' split at h
  all_goals first | (cases h; done) | skip
  all_goals (simp only [isMicroVersion] at hmicro; simp_all)

/-- a mode that the requested version does not offer -/
theorem combo_mode_version (x : Int) (md : Nat) (er : Option Nat) (eci : Bool) (micro : Option Bool)
    (hs : isModeSupported md x ≠ some true) :
    comboChecks (some x) er (some md) eci micro = .error .valueError := by
  apply comboChecks_refuses
  intro h
  unfold comboChecks at h
  simp only [bind, Except.bind, pure, Except.pure, throw, throwThe, MonadExceptOf.throw] at h
  repeat' split at h
  all_goals first | (cases h; done) | skip
  all_goals simp_all

/-- `micro=False` with a Micro QR version, `micro=True` with a QR Code version -/
theorem combo_micro_conflict (x : Int) (er m : Option Nat) (eci : Bool) (micro : Option Bool)
    (hc : (micro = some false ∧ Gen.MICRO_VERSIONS.contains x = true) ∨ (micro = some true ∧ Gen.MICRO_VERSIONS.contains x = false)) :
    comboChecks (some x) er m eci micro = .error .valueError := by
  apply comboChecks_refuses
  intro h
  unfold comboChecks at h
  simp only [bind, Except.bind, pure, Except.pure, throw, throwThe, MonadExceptOf.throw] at h
  repeat' split at h
  all_goals first | (cases h; done) | skip
  all_goals (rcases hc with ⟨h1, h2⟩ | ⟨h1, h2⟩ <;> simp_all)

/-- which modes the Micro QR versions offer, on the regenerated tables: M1 numeric; M2 + alphanumeric; M3, M4 + byte,
    kanji; hanzi in none of them; every QR Code version offers all five -/
theorem mode_table :
    (Gen.MICRO_VERSIONS.all fun x => isModeSupported Gen.MODE_HANZI x == some false) = true
    ∧ isModeSupported Gen.MODE_ALPHANUMERIC Gen.VERSION_M1 = some false
    ∧ isModeSupported Gen.MODE_BYTE Gen.VERSION_M1 = some false ∧ isModeSupported Gen.MODE_BYTE Gen.VERSION_M2 = some false
    ∧ isModeSupported Gen.MODE_KANJI Gen.VERSION_M1 = some false ∧ isModeSupported Gen.MODE_KANJI Gen.VERSION_M2 = some false
    ∧ ([Gen.MODE_NUMERIC, Gen.MODE_ALPHANUMERIC, Gen.MODE_BYTE, Gen.MODE_KANJI, Gen.MODE_HANZI].all fun md =>
         isModeSupported md 1 == some true) = true := by decide +kernel

/-- **excluded_refused** (make, make_qr, make_micro) — level H, ECI or a mode the version does not offer (hanzi in
    particular) with Micro QR, and contradictory `micro` / `version`, are refused with ValueError -/
theorem excluded_refused (c : Call) (micro : Option Bool) (eci : Bool) (v : Option Int) (er m : Option Nat)
    (hv : normalizeVersion c.version = .ok v) (he : normalizeErrorLevel c.error = .ok er) (hm : normalizeMode c.mode = .ok m)
    (hex : (er = some Gen.ERROR_LEVEL_H ∧ (micro = some true ∨ isMicroVersion v = true))
         ∨ (eci = true ∧ (micro = some true ∨ isMicroVersion v = true))
         ∨ (∃ x md, v = some x ∧ m = some md ∧ isModeSupported md x ≠ some true)
         ∨ (∃ x, v = some x ∧ ((micro = some false ∧ Gen.MICRO_VERSIONS.contains x = true)
                               ∨ (micro = some true ∧ Gen.MICRO_VERSIONS.contains x = false)))) :
    apiEncode c micro eci = .error .valueError := by
  apply apiEncode_refuses
  right; right; right
  intro v' er' m' hv' he' hm'
  rw [hv] at hv'; rw [he] at he'; rw [hm] at hm'
  cases hv'; cases he'; cases hm'
  rcases hex with ⟨h1, h2⟩ | ⟨h1, h2⟩ | ⟨x, md, h1, h2, h3⟩ | ⟨x, h1, h2⟩
  · subst h1; exact combo_H_micro _ _ _ _ h2
  · subst h1; exact combo_eci_micro _ _ _ _ h2
  · subst h1; subst h2; exact combo_mode_version _ _ _ _ _ h3
  · subst h1; exact combo_micro_conflict _ _ _ _ _ h2

/-- `encodeLookup` returns a symbol only if `Model.encode` does -/
theorem encodeLookup_ok (c : Call) (parts : List Part) (er : Option Nat) (v : Option Int) (m : Option Nat)
    (mask : Option Nat) (eci : Bool) (micro : Option Bool) (r : Code)
    (h : encodeLookup c parts er v m mask eci micro = .ok r) :
    encode parts er v m mask eci micro c.boost c.eciNumber = .ok r := by
  unfold encodeLookup at h
  repeat' split at h
  all_goals first | (cases h; done) | assumption | skip

/-- **mask out of range** — an integer mask (or numeric string) below 0 or above 7 never yields a symbol -/
theorem mask_out_of_range_refused (c : Call) (micro : Option Bool) (eci : Bool) (i : Int)
    (hk : maskRequest c.mask = .value i) (hr : i < 0 ∨ 8 ≤ i) (o : Outcome) :
    apiEncode c micro eci ≠ .ok o := by
  intro h
  unfold apiEncode at h
  obtain ⟨v, _, h⟩ := bind_ok h
  obtain ⟨er, _, h⟩ := bind_ok h
  obtain ⟨m, _, h⟩ := bind_ok h
  obtain ⟨_, _, h⟩ := bind_ok h
  obtain ⟨parts, _, h⟩ := bind_ok h
  simp only [hk] at h
  obtain ⟨code, hc, _⟩ := bind_ok h
  have hc' := encodeLookup_ok _ _ _ _ _ _ _ _ _ hc
  refine encode_bad_mask _ _ _ _ _ _ _ _ _ ?_ _ hc'
  by_cases h0 : 0 ≤ i
  · simp only [h0, if_true]; omega
  · simp only [h0, if_false, badMask]; omega

/-! ### make_sequence -/

/-- Structured Append with a Micro QR version -/
theorem sequence_refuses_micro_version (c : Call) (x : Int) (hv : normalizeVersion c.version = .ok (some x)) (hx : x < 1) :
    apiSequence c = .error .valueError := by
  simp [apiSequence, sequenceVersionCheck, hv, hx, bind, Except.bind, throw, throwThe, MonadExceptOf.throw]

/-- neither version nor symbol count -/
theorem sequence_requires_version_or_count (c : Call) (hv : normalizeVersion c.version = .ok none) (hc : c.symbolCount = .none) :
    apiSequence c = .error .valueError := by
  simp [apiSequence, sequenceVersionCheck, hv, hc, bind, Except.bind, throw, throwThe, MonadExceptOf.throw]

/-- **symbol_count outside 1 … 16** -/
theorem sequence_refuses_symbol_count (c : Call) (i : Int) (hc : c.symbolCount = .int i) (hr : i < 1 ∨ 16 < i) :
    apiSequence c = .error .valueError := by
  have hs : symbolCountCheck (.int i) = .error .valueError := by
    have h1 : ¬ (1 ≤ i ∧ i ≤ 16) := by omega
    simp [symbolCountCheck, asInt, h1, throw, throwThe, MonadExceptOf.throw]
  simp only [apiSequence, sequenceVersionCheck, bind, Except.bind, hc]
  cases hv : normalizeVersion c.version with
  | error e => rw [normalizeVersion_err _ _ hv]
  | ok v =>
    cases v with
    | none => simp [hs, pure, Except.pure]
    | some x =>
      by_cases hx : x < 1
      · simp [hx, throw, throwThe, MonadExceptOf.throw]
      · simp [hx, hs, pure, Except.pure]

/-! ## nothing but refusals escapes -/

/-- the documented domain (DESIGN §3), as far as crashes are concerned: the codec service converts the content
    (str / bytes / int) or refuses it with UnicodeError / LookupError; `mask` is None or something `int()` converts or
    rejects with ValueError (int, bool, float, str); `symbol_count` is None or an integer.  (Decidable for every
    concrete call.) -/
def Documented (c : Call) : Prop :=
  maskRequest c.mask ≠ .typeError
  ∧ (c.symbolCount = .none ∨ (asInt c.symbolCount).isSome = true)
  ∧ (∀ e, c.parts = .error e → isCrash e = false)

/-- The part of the obligation that is NOT proved in this file: `_encode` (`Model.encodeCore`: error level boosting,
    bit stream, padding, Reed–Solomon blocks, matrix, mask, format / version information) on segments that were built
    by `prepare_data`, fit into the version (`Fits`: the capacity of the version at the starting level is defined and
    not exceeded), a mask in range and a valid level ends in a symbol or in a refusal.  Everything before `_encode` —
    normalisation, combination checks, `prepare_data`, `find_version`, the capacity check of a requested version,
    `normalize_mask` — is proved below to raise refusals only.  The hypothesis is exercised on every run by the
    correspondence of harness/p_args.py and the symbol sweeps (the model's outcome class is compared with the
    implementation's on every generated call) and belongs to the encoder proofs of C01–C07 / C13. -/
def EncodeCoreCrashFree : Prop :=
  ∀ (ps : List Part) segs er v mask eci boost f e, prepareData ps = .ok segs → Fits segs er eci v → MaskOk v mask →
    (∀ x, er = some x → x ∈ Gen.ERROR_MAPPING.map (·.2)) →
    encodeCore segs (defaultLevel er v) v mask eci boost f = .error e → isCrash e = false

/-- the full statement -/
def NoCrash : Prop := ∀ c : Call, Documented c → ∀ e, api c = .error e → isCrash e = false

/-- `Model.encode` on a valid (or absent) error level: refusals only, up to `_encode` -/
theorem encode_no_crash (hC : EncodeCoreCrashFree) (ps : List Part) (er : Option Nat) (v : Option Int) (m mask : Option Nat)
    (eci : Bool) (micro : Option Bool) (boost : Bool) (f : String → Option Nat) (e : PyErr)
    (her : ∀ x, er = some x → x ∈ Gen.ERROR_MAPPING.map (·.2))
    (h : encode ps er v m mask eci micro boost f = .error e) : isCrash e = false := by
  rw [encode_eq] at h
  rcases bind_err h with h | ⟨_, hcombo, h⟩
  · rw [comboChecks_err _ _ _ _ _ _ h]; rfl
  unfold encTail at h
  rcases bind_err h with h | ⟨segs, hsegs, h⟩
  · rw [prepareData_err _ _ h]; rfl
  rcases bind_err h with h | ⟨g, hg, h⟩
  · rcases findVersion_err _ _ _ _ _ h with h1 | h1 | ⟨_, h2⟩
    · rw [h1]; rfl
    · rw [h1]; rfl
    · -- the `assert not (eci and micro)`: excluded by the ECI / Micro check that has passed
      exfalso
      have h3 : eci = true := by simp_all
      subst h3
      by_cases hm : micro = some true
      · have := combo_eci hm v er m
        rw [this] at hcombo; cases hcombo
      · cases micro with
        | none => simp at h2
        | some b => cases b <;> simp_all
  rcases bind_err h with h | ⟨v', hv', h⟩
  · rw [pickVersion_err _ _ _ h]; rfl
  rcases bind_err h with h | ⟨u, hu, h⟩
  · rw [ownCapacityCheck_err _ _ _ _ _ _ h]; rfl
  rcases bind_err h with h | ⟨u2, hu2, h⟩
  · rw [maskRangeCheck_err _ _ _ h]; rfl
  exact hC ps segs er v' mask eci boost f e hsegs
    (ownCapacityCheck_fits _ _ _ _ _ _ (findVersion_fits _ _ _ _ _ hg) hu) (maskRangeCheck_ok _ _ _ hu2) her h

theorem encodeLookup_err (c : Call) (parts : List Part) (er : Option Nat) (v : Option Int) (m : Option Nat)
    (mask : Option Nat) (eci : Bool) (micro : Option Bool) (e : PyErr)
    (h : encodeLookup c parts er v m mask eci micro = .error e) :
    e = .lookupError ∨ ∃ f, encode parts er v m mask eci micro c.boost f = .error e := by
  unfold encodeLookup at h
  split at h
  · split at h
    · split at h
      · cases h; left; rfl
      · rename_i f' e' he'; cases h; right; exact ⟨_, he'⟩
    · rename_i he _ _; cases h; right; exact ⟨_, he⟩
  · right; exact ⟨_, h⟩

theorem apiEncode_no_crash (hC : EncodeCoreCrashFree) (c : Call) (micro : Option Bool) (eci : Bool) (hd : Documented c)
    (e : PyErr) (h : apiEncode c micro eci = .error e) : isCrash e = false := by
  unfold apiEncode at h
  rcases bind_err h with h | ⟨v, hv, h⟩
  · rw [normalizeVersion_err _ _ h]; rfl
  rcases bind_err h with h | ⟨er, her, h⟩
  · rw [normalizeErrorLevel_err _ _ h]; rfl
  rcases bind_err h with h | ⟨m, hm, h⟩
  · rw [normalizeMode_err _ _ h]; rfl
  rcases bind_err h with h | ⟨_, _, h⟩
  · rw [comboChecks_err _ _ _ _ _ _ h]; rfl
  rcases bind_err h with h | ⟨ps, hps, h⟩
  · exact hd.2.2 e h
  have hlev : ∀ x, er = some x → x ∈ Gen.ERROR_MAPPING.map (·.2) := by
    intro x hx; subst hx; exact normalizeErrorLevel_range _ _ her
  have key : ∀ parts mask e', encodeLookup c parts er v m mask eci micro = .error e' → isCrash e' = false := by
    intro parts mask e' he'
    rcases encodeLookup_err _ _ _ _ _ _ _ _ _ he' with h1 | ⟨f, h1⟩
    · rw [h1]; rfl
    · exact encode_no_crash hC _ _ _ _ _ _ _ _ _ _ hlev h1
  simp only [] at h
  split at h
  · rcases bind_err h with h | ⟨_, _, h⟩
    · exact key _ _ _ h
    · cases h
  · rcases bind_err h with h | ⟨_, _, h⟩
    · exact key _ _ _ h
    · cases h
  · rcases bind_err h with h | ⟨_, _, h⟩
    · exact key _ _ _ h
    · cases h; rfl
  · rename_i hk; exact absurd hk hd.1

theorem apiSequence_no_crash (c : Call) (hd : Documented c)
    (e : PyErr) (h : apiSequence c = .error e) : isCrash e = false := by
  unfold apiSequence at h
  rcases bind_err h with h | ⟨v, hv, h⟩
  · rw [normalizeVersion_err _ _ h]; rfl
  rcases bind_err h with h | ⟨_, _, h⟩
  · have : e = .valueError := by
      unfold sequenceVersionCheck at h
      simp only [pure, Except.pure, throw, throwThe, MonadExceptOf.throw] at h
      repeat' split at h
      all_goals first | (cases h; rfl) | (cases h; done)
    rw [this]; rfl
  rcases bind_err h with h | ⟨_, _, h⟩
  · rcases symbolCountCheck_err _ _ h with h1 | ⟨_, h2⟩
    · rw [h1]; rfl
    · rcases hd.2.1 with h3 | h3
      · rw [h3] at h; simp [symbolCountCheck, pure, Except.pure] at h
      · rw [h2] at h3; cases h3
  rcases bind_err h with h | ⟨_, _, h⟩
  · rw [normalizeErrorLevel_err _ _ h]; rfl
  rcases bind_err h with h | ⟨m, hm, h⟩
  · rw [normalizeMode_err _ _ h]; rfl
  rcases bind_err h with h | ⟨_, _, h⟩
  · rcases normalizeMask_err _ _ _ h with h1 | ⟨_, h2⟩
    · rw [h1]; rfl
    · exact absurd h2 hd.1
  rcases bind_err h with h | ⟨ps, hps, h⟩
  · exact hd.2.2 e h
  rcases bind_err h with h | ⟨_, _, h⟩
  · rw [prepareData_err _ _ h]; rfl
  · cases h

/-- **no_crash_partial** — on the documented domain the public functions end in a symbol or in a refusal (ValueError,
    DataOverflowError, UnicodeError, LookupError), never in IndexError / KeyError / TypeError / AssertionError —
    proved for the whole argument handling and every stage of `encode` up to `_encode`; `_encode` itself enters as the
    explicit hypothesis `EncodeCoreCrashFree`.
    The hypotheses the proof forced into `Documented` are exactly the two undocumented argument types that do crash:
    a `mask` that `int()` rejects by type (e.g. a list) and a `symbol_count` that is not an integer (`'2'`) — both
    TypeError in the implementation, both outside the documented types. -/
theorem no_crash_partial (hC : EncodeCoreCrashFree) : NoCrash := by
  intro c hd e h
  unfold api at h
  split at h
  · exact apiEncode_no_crash hC c _ _ hd e h
  · exact apiEncode_no_crash hC c _ _ hd e h
  · exact apiEncode_no_crash hC c _ _ hd e h
  · exact apiSequence_no_crash c hd e h

/-- the `assert not (eci and micro)` of `find_version` is unreachable from the public functions: the only
    AssertionError of the model is guarded by a check that refuses the same condition with ValueError first -/
theorem assert_unreachable (parts : List Part) (er : Option Nat) (v : Option Int) (m mask : Option Nat)
    (eci : Bool) (micro : Option Bool) (boost : Bool) (f : String → Option Nat)
    (h : (eci && micro == some true) = true) :
    encode parts er v m mask eci micro boost f = .error .valueError := by
  rw [encode_eq]
  have hc : comboChecks v er m eci micro = .error .valueError := by
    have h1 : eci = true := by simp_all
    have h2 : micro = some true := by simp_all
    subst h1; exact combo_eci_micro _ _ _ _ (Or.inl h2)
  simp [hc, bind, Except.bind]

theorem findVersion_assert (segs : List Segment) (er : Option Nat) (eci : Bool) (micro : Option Bool)
    (h : (eci && micro == some true) = false) : findVersion segs er eci micro ≠ .error .assertionError := by
  intro hf
  unfold findVersion at hf
  simp only [h, bind, Except.bind, pure, Except.pure, throw, throwThe, MonadExceptOf.throw] at hf
  repeat' split at hf
  all_goals first | (cases hf; done) | contradiction | skip

/-! ## non-vacuity -/

example : normalizeVersion (.str "m3") = .ok (some (-1)) ∧ normalizeVersion (.str "M3") = .ok (some (-1))
    ∧ normalizeVersion (.str "07") = .ok (some 7) ∧ normalizeVersion (.int 41) = .error .valueError
    ∧ normalizeVersion (.str "M5") = .error .valueError ∧ normalizeVersion (.bool true) = .ok (some 1) := by decide +kernel
example : normalizeErrorLevel (.str "h") = .ok (some Gen.ERROR_LEVEL_H) ∧ normalizeMode (.str "KaNjI") = .ok (some Gen.MODE_KANJI)
    ∧ maskRequest (.str "3") = .value 3 ∧ maskRequest (.str "a") = .valueError ∧ maskRequest (.other "[1]") = .typeError := by
  decide +kernel
/-- a call in the documented domain that is refused, and one that is excluded -/
example : Documented { fn := .makeMicro, parts := .ok [{ data := [49], mode := none, encoding := "iso-8859-1" }], error := .str "h" } := by
  refine ⟨by decide, Or.inl rfl, ?_⟩
  intro e h; cases h
example : apiEncode { fn := .makeMicro, parts := .ok [], error := .str "h" } (some true) false = .error .valueError :=
  excluded_refused _ _ _ none (some Gen.ERROR_LEVEL_H) none (by decide +kernel) (by decide +kernel) (by decide +kernel)
    (Or.inl ⟨rfl, Or.inl rfl⟩)

end Props.C14
