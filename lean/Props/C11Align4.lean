/-
  C11, alignment tie per version (kernel-evaluated, see Proofs/Align.lean `alignCheck`): the matrix that
  `add_alignment_patterns` fills (Model.alignmentMatrix?, table `consts.ALIGNMENT_POS` regenerated in Gen/Align.lean)
  is 2 outside the Annex E blocks, 0 / 1 inside, and the blocks lie in the ISO alignment region.
-/
import Proofs.Align

namespace Props.C11Align

open Proofs.Align

theorem align_v8 : alignCheck (8) = true := by decide +kernel
theorem align_v13 : alignCheck (13) = true := by decide +kernel
theorem align_v20 : alignCheck (20) = true := by decide +kernel
theorem align_v28 : alignCheck (28) = true := by decide +kernel
theorem align_v37 : alignCheck (37) = true := by decide +kernel

end Props.C11Align
