/-
  C11, alignment tie per version (kernel-evaluated, see Proofs/Align.lean `alignCheck`): the matrix that
  `add_alignment_patterns` fills (Model.alignmentMatrix?, table `consts.ALIGNMENT_POS` regenerated in Gen/Align.lean)
  is 2 outside the Annex E blocks, 0 / 1 inside, and the blocks lie in the ISO alignment region.
-/
import Proofs.Align

namespace Props.C11Align

open Proofs.Align

theorem align_vm1 : alignCheck (-1) = true := by decide +kernel
theorem align_v3 : alignCheck (3) = true := by decide +kernel
theorem align_v10 : alignCheck (10) = true := by decide +kernel
theorem align_v23 : alignCheck (23) = true := by decide +kernel
theorem align_v31 : alignCheck (31) = true := by decide +kernel
theorem align_v34 : alignCheck (34) = true := by decide +kernel

end Props.C11Align
