/-
  C16 — helper factories emit payloads whose fields parse back to the given values.
  Property theorems only (lemmas: Proofs/Helpers.lean).  `Gen.*` = the `str.translate` tables and EPC
  constants of segno/helpers.py as they are NOW (regenerated on every run); `Model.Helpers.*` = the
  hand-written model of the builders (tied to the code by the correspondence check);
  `Spec.Helpers.*` = the property as the judge evaluates it on the real payloads.
-/
import Proofs.HelpersModel
import Proofs.HelpersNum
import Proofs.HelpersVcard
import Proofs.HelpersGeo
import Proofs.HelpersMail
import Proofs.HelpersEpc
import Gen.Helpers

namespace Props.C16
open Spec.Helpers Model.Helpers Proofs.Helpers

/-! ### the escaping tables -/

/-- `_MECARD_ESCAPE` puts a backslash before `\ ; : "` and leaves every other character alone -/
theorem mecard_table_escapes : Escaping escMecard mecardSpecial where
  special := by
    intro c h
    rcases h with rfl | rfl | rfl | rfl <;> decide
  other := by
    intro c h
    have h1 : (c == Char.ofNat 92) = false := beq_eq_false_iff_ne.mpr (fun e => h (Or.inl e))
    have h2 : (c == Char.ofNat 59) = false := beq_eq_false_iff_ne.mpr (fun e => h (Or.inr (Or.inl e)))
    have h3 : (c == Char.ofNat 58) = false := beq_eq_false_iff_ne.mpr (fun e => h (Or.inr (Or.inr (Or.inl e))))
    have h4 : (c == Char.ofNat 34) = false := beq_eq_false_iff_ne.mpr (fun e => h (Or.inr (Or.inr (Or.inr e))))
    simp only [escMecard, escOf, Gen.MECARD_ESCAPE, List.lookup, h1, h2, h3, h4]
  backslash := Or.inl rfl

/-! ### escaping round trip (every string) -/

/-- removing the backslash escapes from an escaped value gives the value back, for every string -/
theorem unescape_escape (s : List Char) : unescape (escapeMecard s) = some s :=
  Proofs.Helpers.unescape_escape mecard_table_escapes s

/-- No value can forge or terminate a field: for each delimiter `d` of the syntax (`;`, `:`, `"`) an
    escaped value is a single piece when split at the unescaped `d`, and when it is followed by `d`
    that `d` ends the piece — also when the value ends in a backslash — and the text after it is
    split independently of the value. -/
theorem escaped_has_no_unescaped_delimiter (d : Char) (hd : d = ';' ∨ d = ':' ∨ d = '"') (s rest : List Char) :
    splitUnescaped d (escapeMecard s) = [escapeMecard s]
    ∧ splitUnescaped d (escapeMecard s ++ d :: rest) = escapeMecard s :: splitUnescaped d rest := by
  have hsp : mecardSpecial d := Or.inr hd
  have hne : d ≠ '\\' := by rcases hd with rfl | rfl | rfl <;> decide
  have hc : Closed d (escapeMecard s) := Closed.flatMap (fun c => mecard_table_escapes.closed hsp c) s
  exact ⟨hc.single, hc.then_delim hne rest⟩

example : splitUnescaped ';' (escapeMecard ['a', '\\'] ++ ';' :: ['P', ':', 'x']) = [['a', '\\', '\\'], ['P', ':', 'x']] := by decide

/-! ### WIFI -/

/-- **WIFI round trip** — for every SSID and password (any characters) and every authentication type
    whose written form contains none of `\ ; : "` (in particular the documented WEP / WPA / nopass):
    the payload built by `make_wifi_data` splits at the unescaped `;` into exactly the supplied
    fields `T`, `S`, `P`, `H` in order, each value recovered verbatim. -/
theorem wifi_roundtrip (a : WifiArgs) (hsec : ∀ s, a.security = some s → ∀ c ∈ wifiToken s, ¬ mecardSpecial c) :
    wifiOk (wifiData a) a = true := by
  unfold wifiOk
  rw [wifiData_eq mecard_table_escapes a hsec]
  exact fieldsOk_render mecard_table_escapes (Or.inr (Or.inl rfl)) _ _ (wifi_keys a) _ (by cases a.hidden <;> simp)

example : wifiOk (wifiData { ssid := ['a', ';', '\\'], password := some [':', '"'], security := some ['w', 'p', 'a'], hidden := true })
    { ssid := ['a', ';', '\\'], password := some [':', '"'], security := some ['w', 'p', 'a'], hidden := true } = true := by decide

/-! ### MeCard -/

/-- **MeCard round trip** — for every name, reading, memo, nickname, address part and every (multi-)
    value of phone / videophone / e-mail / URL (any characters, any number of values), and a birthday
    whose text contains none of `\ ; : "` (documented: `YYYYMMDD`): the payload built by
    `make_mecard_data` splits at the unescaped `;` into exactly the supplied fields in the documented
    order (`N`, `SOUND`, `TEL`*, `TELAV`*, `EMAIL`*, `NICKNAME`, `BDAY`, `URL`*, `ADR`, `MEMO`), each
    value recovered verbatim (`ADR`: the seven parts joined by commas), followed by the empty
    terminating field. -/
theorem mecard_roundtrip (a : MecardArgs) (hb : ∀ b, a.birthday = some b → ∀ c ∈ b, ¬ mecardSpecial c) :
    mecardOk (mecardData a) a = true := by
  unfold mecardOk
  rw [mecardData_eq mecard_table_escapes a hb]
  exact fieldsOk_render mecard_table_escapes (Or.inr (Or.inl rfl)) _ _ (mecard_keys a) _ (Or.inr rfl)

example : mecardOk (mecardData { name := ['\\'], email := .list [[';'], []], city := some [',', '"'], birthday := some ['1', '9'] })
    { name := ['\\'], email := .list [[';'], []], city := some [',', '"'], birthday := some ['1', '9'] } = true := by decide

/-! ### vCard -/

/-- `_VCARD_ESCAPE` never lets a CR or LF through: LF is written as backslash + `n`, CR is dropped -/
theorem vcard_table_no_linebreak (c : Char) : ∀ x ∈ escOf Gen.VCARD_ESCAPE c, x ≠ '\r' ∧ x ≠ '\n' := by
  by_cases h1 : c = Char.ofNat 44
  · subst h1; decide
  by_cases h2 : c = Char.ofNat 59
  · subst h2; decide
  by_cases h3 : c = Char.ofNat 10
  · subst h3; decide
  by_cases h4 : c = Char.ofNat 13
  · subst h4; decide
  have b1 := beq_eq_false_iff_ne.mpr h1
  have b2 := beq_eq_false_iff_ne.mpr h2
  have b3 := beq_eq_false_iff_ne.mpr h3
  have b4 := beq_eq_false_iff_ne.mpr h4
  simp only [escOf, Gen.VCARD_ESCAPE, List.lookup, b1, b2, b3, b4, List.mem_singleton]
  intro x hx; subst hx; exact ⟨h4, h3⟩

/-- the same for the table applied to the `N` property -/
theorem vcard_name_table_no_linebreak (c : Char) : ∀ x ∈ escOf Gen.VCARD_LINEBREAK_ESCAPE c, x ≠ '\r' ∧ x ≠ '\n' := by
  by_cases h3 : c = Char.ofNat 10
  · subst h3; decide
  by_cases h4 : c = Char.ofNat 13
  · subst h4; decide
  have b3 := beq_eq_false_iff_ne.mpr h3
  have b4 := beq_eq_false_iff_ne.mpr h4
  simp only [escOf, Gen.VCARD_LINEBREAK_ESCAPE, List.lookup, b3, b4, List.mem_singleton]
  intro x hx; subst hx; exact ⟨h4, h3⟩

/-- the vCard tables in full: `_VCARD_ESCAPE` writes `,` and `;` with a backslash, LF as backslash + `n`,
    drops CR and leaves every other character alone (in particular the backslash itself: the
    docstring of `_escape_vcard` promises more than the table does); `_VCARD_LINEBREAK_ESCAPE` (used for
    the structured `N` property) only rewrites LF and CR -/
theorem vcard_tables_documented (c : Char) :
    escOf Gen.VCARD_ESCAPE c = (if c = ',' ∨ c = ';' then ['\\', c] else if c = '\n' then ['\\', 'n'] else if c = '\r' then [] else [c])
    ∧ escOf Gen.VCARD_LINEBREAK_ESCAPE c = (if c = '\n' then ['\\', 'n'] else if c = '\r' then [] else [c]) := by
  by_cases h1 : c = Char.ofNat 44
  · subst h1; decide
  by_cases h2 : c = Char.ofNat 59
  · subst h2; decide
  by_cases h3 : c = Char.ofNat 10
  · subst h3; decide
  by_cases h4 : c = Char.ofNat 13
  · subst h4; decide
  have b1 := beq_eq_false_iff_ne.mpr h1
  have b2 := beq_eq_false_iff_ne.mpr h2
  have b3 := beq_eq_false_iff_ne.mpr h3
  have b4 := beq_eq_false_iff_ne.mpr h4
  simp only [escOf, Gen.VCARD_ESCAPE, Gen.VCARD_LINEBREAK_ESCAPE, List.lookup, b1, b2, b3, b4]
  have e1 : ¬ (c = ',' ∨ c = ';') := fun h => h.elim h1 h2
  have e3 : ¬ c = '\n' := h3
  have e4 : ¬ c = '\r' := h4
  simp only [if_neg e1, if_neg e3, if_neg e4, and_self]

/-- an escaped vCard value contains no CR and no LF, whatever the value is: it cannot start a line -/
theorem vcard_one_line (s : List Char) :
    (∀ x ∈ escapeVcard s, x ≠ '\r' ∧ x ≠ '\n') ∧ (∀ x ∈ escapeVcardName s, x ≠ '\r' ∧ x ≠ '\n') := by
  constructor
  · intro x hx
    rw [escapeVcard, translate_eq, List.mem_flatMap] at hx
    obtain ⟨c, _, hc⟩ := hx
    exact vcard_table_no_linebreak c x hc
  · intro x hx
    rw [escapeVcardName, translate_eq, List.mem_flatMap] at hx
    obtain ⟨c, _, hc⟩ := hx
    exact vcard_name_table_no_linebreak c x hc

example : escapeVcard ['a', '\r', '\n', 'E', 'N', 'D', ';'] = ['a', '\\', 'n', 'E', 'N', 'D', '\\', ';'] := by decide

/-- **every vCard value occupies exactly one content line** — for all arguments (any characters in any
    value, any number of values of the multi-valued properties; `lat` / `lng` printed by Python as
    numbers, i.e. without line breaks): whenever `make_vcard_data` returns a payload, it consists of
    CRLF-terminated lines without a bare CR or LF, namely BEGIN:VCARD, VERSION:3.0, exactly one content
    line per supplied value carrying the documented property name in the documented order, END:VCARD.
    (A `birthday` / `rev` text with a line break is refused: `_looks_like_datetime` is a full match.) -/
theorem vcard_lines (a : VcardArgs) (hlat : NoBreak (a.lat.getD [])) (hlng : NoBreak (a.lng.getD []))
    (p : Str) (h : vcardData a = some p) : vcardOk p a = true :=
  vcardOk_model vcard_table_no_linebreak vcard_name_table_no_linebreak a hlat hlng p h

def vcardExample : VcardArgs :=
  { name := ['a', '\n'], displayname := [';'], memo := some ['\r', '\n', 'E', 'N', 'D'], email := Arg.list [['x'], []],
    birthday := some ['2', '0', '2', '0', '-', '0', '1', '-', '0', '1'] }
example : (vcardData vcardExample).isSome = true := by decide

/-! ### geo -/

/-- **geo round trip** — for all numbers (exact values `±num/den`, e.g. every finite float and every
    int): the payload of `make_geo_data` is `geo:<lat>,<lng>`; each number is written as
    `[-]digits[.digits]` with at most 8 decimals and no trailing zero, and equals the given number
    rounded to 8 decimals (|written − given| ≤ 0.5·10⁻⁸). -/
theorem geo_roundtrip (lat lng : Rat') (h1 : lat.den ≠ 0) (h2 : lng.den ≠ 0) :
    geoOk (geoData lat lng) lat lng = true :=
  geoOk_model lat lng h1 h2

/-! ### mailto -/

/-- decoding the percent-encoding of `quote(text.encode('utf-8'))` gives back the UTF-8 bytes of the
    text, for every text -/
theorem percent_roundtrip (s : Str) : pctDecode (quoteUtf8 s) = some (Spec.Helpers.utf8 s) := pctDecode_quoteUtf8 s

/-- **mailto round trip** — for every subject and body (any characters) and all recipients / cc / bcc
    whose addresses consist of URI characters other than `% ? & =` (`AddrOk`): whenever
    `make_make_email_data` returns a URI, it consists of RFC 3986 characters only, has the form
    `mailto:<to>[?key=value(&key=value)*]` with the keys cc, bcc, subject, body in this order exactly
    for the supplied values, and the percent-decoded values are the UTF-8 bytes of the inputs; and it
    refuses (ValueError) exactly when `to` is empty. -/
theorem mailto_roundtrip (a : EmailArgs) (hto : ∀ s ∈ a.to.multi, AddrOk s) (hcc : ∀ s ∈ a.cc.multi, AddrOk s)
    (hbcc : ∀ s ∈ a.bcc.multi, AddrOk s) :
    (∀ p, emailData a = some p → mailtoOk p a = true) ∧ (emailData a = none ↔ mailtoMustRefuse a = true) := by
  refine ⟨fun p h => mailtoOk_model a hto hcc hbcc p h, ?_⟩
  rw [emailData_eq]
  unfold mailtoMustRefuse
  cases a.to.multi.isEmpty <;> simp

def emailExample : EmailArgs :=
  { to := Arg.str ['a', '@', 'b'], subject := some ['?', '&', ' ', 'ä'], body := some [] }
example : (emailData emailExample).isSome = true ∧ (∀ s ∈ emailExample.to.multi, AddrOk s) := by
  refine ⟨by decide, ?_⟩
  intro s hs
  simp [emailExample, Arg.multi] at hs
  subst hs
  intro c hc
  simp at hc
  rcases hc with rfl | rfl | rfl <;> decide

/-! ### EPC -/

/-- the constants of `_make_epc_qr_data` / `make_epc_qr` are those of EPC069-12: character sets in the
    order of their numbers, amount range 0.01 … 999 999 999.99, 331 bytes, level M without boosting,
    version ≤ 13 -/
theorem epc_constants :
    Gen.EPC_ENCODINGS = epcEncodings ∧ Gen.EPC_MIN_AMOUNT_CENTS = epcMinCents ∧ Gen.EPC_MAX_AMOUNT_CENTS = epcMaxCents
    ∧ Gen.EPC_MAX_BYTES = epcMaxBytes ∧ (Gen.EPC_ERROR = "m" ∨ Gen.EPC_ERROR = "M") ∧ Gen.EPC_BOOST_ERROR = false ∧ Gen.EPC_MAX_VERSION = 13 := by
  decide

/-- for every amount of `cents`/100 in the admitted range the text `EUR#.##` produced by
    `f'EUR{amount:.2f}'.rstrip('0').rstrip('.')` is read back by the specification's parser as exactly
    `cents` (numerically equal), and is in the range of the standard -/
theorem epc_amount (cents : Nat) (h1 : Gen.EPC_MIN_AMOUNT_CENTS ≤ cents) (h2 : cents ≤ Gen.EPC_MAX_AMOUNT_CENTS) :
    parseAmountCents (fmtAmount cents) = some cents ∧ epcMinCents ≤ cents ∧ cents ≤ epcMaxCents :=
  ⟨parseAmount_fmtAmount cents, by simpa [Gen.EPC_MIN_AMOUNT_CENTS, epcMinCents] using h1,
    by simpa [Gen.EPC_MAX_AMOUNT_CENTS, epcMaxCents] using h2⟩

example : parseAmountCents (fmtAmount 1000) = some 1000 := (epc_amount 1000 (by decide) (by decide)).1

/-- the amount written for an exactly known input `x ≥ 0` (Decimal quantised to two places, ties to
    even) is a nearest cent: the text parses to `c` with |c/100 − x| ≤ 0.005; for an input with at most
    two decimals this is equality -/
theorem epc_amount_value (x : Rat') (hd : x.den ≠ 0) (hn : x.neg = false) :
    ∃ c, parseAmountCents (fmtAmount (roundHalfEven (100 * x.num) x.den)) = some c ∧ isRounding 2 false c x = true := by
  refine ⟨_, parseAmount_fmtAmount _, ?_⟩
  have h := isRounding_roundHalfEven 2 x hd
  rw [hn] at h
  have e : x.num * 10 ^ 2 = 100 * x.num := by omega
  rwa [e] at h

/-- a payload of at most 331 bytes fits a version 13 symbol at level M in byte mode
    (4 mode bits + 16 count bits + 8 bits per byte ≤ 2672 data bits of Table 7) -/
theorem epc_fits_13M (n : Nat) (h : n ≤ Gen.EPC_MAX_BYTES) :
    Spec.capacityOf 13 0 = some 2672 ∧ Spec.cciBits 4 13 = some 16 ∧ Spec.modeBits 13 = 4
    ∧ 4 + 16 + 8 * n ≤ 2672
    ∧ Spec.fits 13 0 [{ mode := 4, count := n, eci := false }] false = true := by
  have hc : Spec.capacityOf 13 0 = some 2672 := by decide +kernel
  have hcc : Spec.cciBits 4 13 = some 16 := by decide +kernel
  have hm : Spec.modeBits 13 = 4 := by decide
  have hn : n ≤ 331 := h
  refine ⟨hc, hcc, hm, by omega, ?_⟩
  simp [Spec.fits, hc, Spec.neededBits, hcc, hm, Spec.payloadBits]
  omega

/-- **EPC layout** — whenever `_make_epc_qr_data` (model) returns the payload text `t` with character set
    number `k` for arguments without line feeds (the EPC character set excludes line breaks): `t` splits
    at LF into exactly the lines of the EPC069-12 version 002 layout in order — `BCD`, `002`, the
    character set number, `SCT`, BIC, name, IBAN, amount, purpose, structured reference and (only if
    given) the unstructured text (`Model.Helpers.epcLines`: the supplied values, BIC / name without
    surrounding and reference / text without trailing whitespace) —; the amount line parses to a
    number of cents that is a nearest cent of the supplied amount and lies in 0.01 … 999 999 999.99. -/
theorem epc_layout (a : EpcArgs) (canName : String → Bool) (k : Nat) (t : Str) (h : epcData a canName = some (k, t))
    (hname : ∀ s, a.name = some s → NoLF s) (hiban : ∀ s, a.iban = some s → NoLF s) (htext : ∀ s, a.text = some s → NoLF s)
    (href : ∀ s, a.reference = some s → NoLF s) (hbic : ∀ s, a.bic = some s → NoLF s) (hpur : ∀ s, a.purpose = some s → NoLF s) :
    ∃ cents, splitPlain '\n' t = epcLines a k cents
      ∧ (epcLines a k cents).take 4 = [['B', 'C', 'D'], ['0', '0', '2'], (if k = 0 then [] else decDigits k), ['S', 'C', 'T']]
      ∧ (epcLines a k cents)[7]? = some (fmtAmount cents)
      ∧ parseAmountCents (fmtAmount cents) = some cents ∧ isRounding 2 false cents a.amount = true
      ∧ epcMinCents ≤ cents ∧ cents ≤ epcMaxCents := by
  obtain ⟨_, hl⟩ := epcData_some a canName k t h
  obtain ⟨hd, hn, hmin, hmax⟩ := epc_amount_accepted a (by decide) hl
  refine ⟨roundHalfEven (100 * a.amount.num) a.amount.den, epc_split a canName k t h hname hiban htext href hbic hpur,
    rfl, rfl, parseAmount_fmtAmount _, ?_, ?_, ?_⟩
  · have hr := isRounding_roundHalfEven 2 a.amount hd
    rw [hn] at hr
    have e : a.amount.num * 10 ^ 2 = 100 * a.amount.num := by omega
    rwa [e] at hr
  · -- the rounded value is at least the minimum: x ≥ 0.01 and rounding to cents is monotone
    have h1 : Gen.EPC_MIN_AMOUNT_CENTS = 1 := rfl
    rw [h1] at hmin
    unfold roundHalfEven epcMinCents
    have hpos : 0 < a.amount.den := Nat.pos_of_ne_zero hd
    have hq : 1 ≤ 100 * a.amount.num / a.amount.den := (Nat.le_div_iff_mul_le hpos).mpr hmin
    simp only
    split
    · exact hq
    · split
      · omega
      · split <;> omega
  · have h2 : Gen.EPC_MAX_AMOUNT_CENTS = 99999999999 := rfl
    rw [h2] at hmax
    unfold roundHalfEven epcMaxCents
    have hpos : 0 < a.amount.den := Nat.pos_of_ne_zero hd
    have hdm := Nat.div_add_mod (100 * a.amount.num) a.amount.den
    have hr : 100 * a.amount.num % a.amount.den < a.amount.den := Nat.mod_lt _ hpos
    have hq : 100 * a.amount.num / a.amount.den ≤ 99999999999 := by
      apply Nat.div_le_of_le_mul
      rw [Nat.mul_comm a.amount.den]; exact hmax
    simp only
    -- if the quotient is the maximum the remainder is 0, so no rounding up happens
    by_cases hqm : 100 * a.amount.num / a.amount.den = 99999999999
    · rw [hqm] at hdm ⊢
      have : 100 * a.amount.num % a.amount.den = 0 := by
        have : a.amount.den * 99999999999 = 99999999999 * a.amount.den := Nat.mul_comm _ _
        omega
      simp [this, hpos]
    · split
      · omega
      · split
        · omega
        · split <;> omega

/-- FULL STATEMENT for the EPC refusals (not proved; held by the correspondence check and the judge on
    every run): the model refuses only inputs that violate a documented limit however surrounding
    whitespace is counted, and accepts only inputs that violate none; and for an accepted input the
    character set number is the requested one, else the first of 2..8 that can represent the text,
    else 1, and the encoded payload has at most 331 bytes.  Proved parts: `epc_layout`, `epc_constants`,
    `epc_amount`, `epc_amount_value`, `epc_fits_13M`.  PROVED in Props/C16Epc.lean (`epc_refusals`), after the judge's cent rounding was corrected to ties-to-even
    (the proof attempt exposed a judge that counted a longer amount text at x.y05). -/
def epc_refusals_statement : Prop :=
  ∀ (a : EpcArgs),
    let canName := fun (n : String) => match epcEncodings.idxOf? n with | some i => a.can.getD i false | none => false
    (∀ k t, epcData a canName = some (k, t) → epcMustRefuse a = none
      ∧ (match epcRequested a.encoding with | .ok req => k = epcCharset req a.can | .error _ => False)
      ∧ (if k = 1 then Spec.Helpers.utf8Len t else t.length) ≤ epcMaxBytes)
    ∧ (epcData a canName = none → epcMustAccept a = false)

end Props.C16
