/-
  C08 — Structured Append sequences reassemble.
  Property theorems about the model of `encode_sequence` (Model/Sequence.lean); helper lemmas live in
  Proofs/Sequence.lean.  `Spec.xorAll` is the judge's definition of the parity byte.
-/
import Proofs.Sequence
import Spec.Judge

namespace Props.C08
open Model Proofs.Sequence

/-- `divide_into_chunks(d, k, cs)` for any data whose length is a multiple of the character size:
    exactly k chunks, whole characters only, concatenation = d, sizes differ by at most one character. -/
theorem chunks_concat (d : List Nat) (k cs : Nat) (hk : 0 < k) (hcs : 0 < cs) (hdiv : cs ∣ d.length) :
    (divideIntoChunks d k cs).length = k
    ∧ (divideIntoChunks d k cs).flatten = d
    ∧ (∀ c ∈ divideIntoChunks d k cs, cs ∣ c.length)
    ∧ (∀ a ∈ divideIntoChunks d k cs, ∀ b ∈ divideIntoChunks d k cs, a.length / cs ≤ b.length / cs + 1) := by
  refine ⟨divideIntoChunks_length d k cs, ?_, ?_, ?_⟩
  · rw [divideIntoChunks_flatten d k cs hk, Nat.div_mul_cancel hdiv, List.take_length]
  · intro c hc
    obtain ⟨i, hi, rfl⟩ := List.getElem_of_mem hc
    rw [divideIntoChunks_getElem_length d k cs hk i hi]
    exact Nat.dvd_mul_left _ _
  · intro a ha b hb
    obtain ⟨i, hi, rfl⟩ := List.getElem_of_mem ha
    obtain ⟨j, hj, rfl⟩ := List.getElem_of_mem hb
    rw [divideIntoChunks_getElem_length d k cs hk i hi, divideIntoChunks_getElem_length d k cs hk j hj,
      Nat.mul_div_cancel _ hcs, Nat.mul_div_cancel _ hcs]
    split <;> split <;> omega

/-- non-vacuity: 7 two-byte characters in 3 chunks -/
example : divideIntoChunks [1, 2, 3, 4, 5, 6, 7, 8, 9, 10, 11, 12, 13, 14] 3 2 = [[1, 2, 3, 4, 5, 6], [7, 8, 9, 10], [11, 12, 13, 14]] := by
  decide

/-- the parity the model puts into every header is the XOR of all bytes of the message (the judge's
    `Spec.xorAll`), and it fits the 8 bit field -/
theorem parity_is_xor (segs : List Segment) (msg : List Nat) (msgEnc : String) (error : Option Nat) (version : Option Int)
    (eci : Bool) (symbolCount : Option Nat) (mode : Nat) (chunks : List (List Nat)) (v : Int) (parity : Nat)
    (h : planSequence segs msg msgEnc error version eci symbolCount = .ok (mode, chunks, v, parity)) :
    parity = Spec.xorAll msg ∧ ((∀ b ∈ msg, b < 256) → parity < 256) := by
  obtain ⟨_, _, _, _, hp, _⟩ := planSequence_ok _ _ _ _ _ _ _ _ _ _ _ h
  subst hp
  refine ⟨rfl, ?_⟩
  intro hb
  unfold xorBytes
  have key : ∀ (l : List Nat) (acc : Nat), acc < 256 → (∀ b ∈ l, b < 256) → l.foldl (· ^^^ ·) acc < 256 := by
    intro l
    induction l with
    | nil => intro acc ha _; simpa using ha
    | cons x xs ih =>
      intro acc ha hl
      simp only [List.foldl_cons]
      exact ih _ (Nat.xor_lt_two_pow (n := 8) ha (hl x (by simp))) (fun b hb' => hl b (by simp [hb']))
  exact key msg 0 (by omega) hb

/-- level used by `encode_sequence`: the requested one, default L -/
abbrev levelOf (error : Option Nat) : Option Nat := if error.isNone then some Gen.ERROR_LEVEL_L else error

/-- Every symbol of a Structured Append sequence is `_encode`'s tail applied to a data bit stream that
    starts with 0011 ‖ i₄ ‖ (total − 1)₄ ‖ parity₈ where parity is the XOR of the message bytes — the same
    in all symbols.  (`encodeCore = boost ∘ header ‖ segments ∘ encodeTail` is `Proofs.Sequence.encodeCore_eq`.) -/
theorem sa_header_bits (parts : List Part) (msg : List Nat) (msgEnc : String) (error : Option Nat) (version : Option Int)
    (mask : Option Nat) (eci boost : Bool) (symbolCount : Option Int) (n : String → Option Nat) (cs : List Code)
    (h : encodeSequenceAux parts msg msgEnc error version mask eci boost symbolCount n = .ok (true, cs))
    (i : Nat) (hi : i < cs.length) :
    ∃ payload,
      encodeTail ([0, 0, 1, 1] ++ appendBits i 4 ++ appendBits (cs.length - 1) 4 ++ appendBits (Spec.xorAll msg) 8 ++ payload)
        cs[i].segments cs[i].error cs[i].version mask = .ok cs[i] := by
  obtain ⟨_, _, _, segs, _, hcase⟩ := encodeSequenceAux_ok _ _ _ _ _ _ _ _ _ _ _ _ h
  rcases hcase with ⟨hf, _⟩ | ⟨_, mode, chunks, v, parity, hplan, hmap⟩
  · cases hf
  · obtain ⟨hlen, hget⟩ := zipIdx_mapM_ok _ _ _ hmap
    obtain ⟨segs', _, henc⟩ := symbolOf_ok _ _ _ _ _ _ _ _ _ _ _ _ (hget i (by omega) hi)
    obtain ⟨hv, hs, payload, htail, _⟩ := encodeCore_ok _ _ _ _ _ _ _ _ _ henc
    obtain ⟨_, _, _, _, hp, _⟩ := planSequence_ok _ _ _ _ _ _ _ _ _ _ _ hplan
    refine ⟨payload, ?_⟩
    rw [hv, hs, hlen]
    have hhdr : saHeader (some (i, chunks.length - 1, parity))
        = [0, 0, 1, 1] ++ appendBits i 4 ++ appendBits (chunks.length - 1) 4 ++ appendBits (Spec.xorAll msg) 8 := by
      rw [hp]; rfl
    rw [← hhdr]
    exact htail

/-- 1 ≤ count ≤ 16; `symbol_count = k` alone gives exactly k symbols; `version = v` alone gives only
    version-v symbols; never a Micro QR symbol. -/
theorem count_bounds (parts : List Part) (msg : List Nat) (msgEnc : String) (error : Option Nat) (version : Option Int)
    (mask : Option Nat) (eci boost : Bool) (symbolCount : Option Int) (n : String → Option Nat) (cs : List Code)
    (h : encodeSequence parts msg msgEnc error version mask eci boost symbolCount n = .ok cs) :
    1 ≤ cs.length ∧ cs.length ≤ 16
    ∧ (∀ k, symbolCount = some k → version = none → (cs.length : Int) = k)
    ∧ (∀ v, version = some v → symbolCount = none → ∀ c ∈ cs, c.version = v)
    ∧ (∀ c ∈ cs, 1 ≤ c.version ∧ c.version ≤ 40) := by
  unfold encodeSequence at h
  obtain ⟨⟨isSa, cs'⟩, haux, hcs⟩ := exceptMap_ok.1 h
  simp only at hcs
  subst hcs
  clear h
  obtain ⟨hv1, _, hk, segs, _, hcase⟩ := encodeSequenceAux_ok _ _ _ _ _ _ _ _ _ _ _ _ haux
  rcases hcase with ⟨_, hsn, g, c, hg, hle, hc, hcs⟩ | ⟨_, mode, chunks, v, parity, hplan, hmap⟩
  · -- single symbol without header
    subst hcs
    obtain ⟨hcv, _⟩ := encodeCore_ok _ _ _ _ _ _ _ _ _ hc
    have hgq : 1 ≤ g ∧ g ≤ 40 := by
      have : levelOf error = some ((levelOf error).getD 0) := by
        unfold levelOf; cases error <;> simp
      rw [show (if error.isNone = true then some Gen.ERROR_LEVEL_L else error) = levelOf error from rfl, this] at hg
      obtain ⟨h1, h2, _⟩ := findVersion_qr _ _ _ _ _ hg
      exact ⟨h1, h2⟩
    refine ⟨by simp, by simp, ?_, ?_, ?_⟩
    · intro k hk'; rw [hsn] at hk'; cases hk'
    · intro v hv _ c' hc'; simp at hc'; subst hc'; rw [hcv, hv]; rfl
    · intro c' hc'; simp at hc'; subst hc'; rw [hcv]
      cases version with
      | none => simpa using hgq
      | some vv =>
        simp only [Option.getD_some] at hle hc ⊢
        exact ⟨hv1 vv rfl, encodeCore_version_le _ _ _ _ _ _ _ _ _ hc⟩
  · -- Structured Append
    obtain ⟨hlen, hget⟩ := zipIdx_mapM_ok _ _ _ hmap
    obtain ⟨s0, num, _, _, _, hnum, hchunks, _, hnv, hnn, hfind, hvs⟩ := planSequence_ok _ _ _ _ _ _ _ _ _ _ _ hplan
    have hcl : chunks.length = num := by rw [hchunks]; exact divideIntoChunks_length _ _ _
    have hver : ∀ c ∈ cs', c.version = v := by
      intro c hc
      obtain ⟨i, hi, rfl⟩ := List.getElem_of_mem hc
      obtain ⟨segs', _, henc⟩ := symbolOf_ok _ _ _ _ _ _ _ _ _ _ _ _ (hget i (by omega) hi)
      exact (encodeCore_ok _ _ _ _ _ _ _ _ _ henc).1
    have hpos : 1 ≤ num := by
      cases version with
      | some vv => exact numberOfSymbols_pos _ _ _ _ _ _ _ _ (hnv vv rfl)
      | none =>
        rw [hnn rfl]
        cases symbolCount with
        | none => simp
        | some k => have := hk k rfl; simp only [Option.map_some, Option.getD_some]; omega
    have hvq : 1 ≤ v ∧ v ≤ 40 := by
      cases symbolCount with
      | some k =>
        obtain ⟨segsL, _, hf⟩ := hfind k.toNat rfl
        have : levelOf error = some ((levelOf error).getD 0) := by
          unfold levelOf; cases error <;> simp
        rw [show (if error.isNone = true then some Gen.ERROR_LEVEL_L else error) = levelOf error from rfl, this] at hf
        obtain ⟨h1, h2, _⟩ := findVersion_qr _ _ _ _ _ hf
        exact ⟨h1, h2⟩
      | none =>
        have hvv := hvs rfl
        refine ⟨hv1 v hvv, ?_⟩
        -- the capacity lookup of the first symbol succeeded, so v is a table key ≤ 40
        have h0 : 0 < cs'.length := by omega
        obtain ⟨segs', _, henc⟩ := symbolOf_ok _ _ _ _ _ _ _ _ _ _ _ _ (hget 0 (by omega) h0)
        exact encodeCore_version_le _ _ _ _ _ _ _ _ _ henc
    refine ⟨by omega, by omega, ?_, ?_, ?_⟩
    · intro k hk' hvn
      subst hk' hvn
      rw [hlen, hcl, hnn rfl]
      have := hk k rfl
      simp only [Option.map_some, Option.getD_some]
      omega
    · intro vv hvv hsn c hc
      rw [hver c hc]
      subst hsn
      have := hvs rfl
      rw [hvv] at this
      cases this; rfl
    · intro c hc; rw [hver c hc]; exact hvq

/-- the data bit stream of the symbol made from `chunk` (mode indicator, character count, payload and
    the 20 bit Structured Append header) fits the capacity of version `v` at level `error` -/
def ChunkFits (chunk : List Nat) (mode : Nat) (msgEnc : String) (v : Int) (error : Option Nat) (eci : Bool) : Prop :=
  ∃ segs bl cap, oneItemSegments chunk mode msgEnc = .ok segs ∧ bitLengthWithOverhead segs v eci true = some bl
    ∧ capacity v error = some cap ∧ bl ≤ cap

/-- FULL STATEMENT ("whose data fits its capacity" for every symbol of every planned sequence).  It does
    NOT hold for the model (nor for the implementation, finding D16): see `each_fits_fails_by_version`. -/
def EachFits : Prop :=
  ∀ (segs : List Segment) (msg : List Nat) (msgEnc : String) (e : Nat) (version : Option Int) (eci : Bool)
    (symbolCount : Option Nat) (mode : Nat) (chunks : List (List Nat)) (v : Int) (parity : Nat),
    planSequence segs msg msgEnc (some e) version eci symbolCount = .ok (mode, chunks, v, parity) →
    (∀ c ∈ chunks, (oneItemSegments c mode msgEnc).isOk) →
    ∀ c ∈ chunks, ChunkFits c mode msgEnc v (some e) eci

/-- PARTIAL (the `symbol_count` path): the version is searched for the longest chunk and the bit length
    is monotone in the chunk length, hence every chunk fits.  Missing for the full statement: the
    `version=` path, where the number of symbols is only estimated (D16). -/
theorem each_fits_partial (segs : List Segment) (msg : List Nat) (msgEnc : String) (e : Nat) (version : Option Int) (eci : Bool)
    (k : Nat) (mode : Nat) (chunks : List (List Nat)) (v : Int) (parity : Nat)
    (h : planSequence segs msg msgEnc (some e) version eci (some k) = .ok (mode, chunks, v, parity))
    (hseg : ∀ c ∈ chunks, (oneItemSegments c mode msgEnc).isOk) :
    ∀ c ∈ chunks, ChunkFits c mode msgEnc v (some e) eci := by
  obtain ⟨_, _, _, _, _, _, _, _, _, _, hfind, _⟩ := planSequence_ok _ _ _ _ _ _ _ _ _ _ _ h
  obtain ⟨segsL, hL, hfv⟩ := hfind k rfl
  obtain ⟨_, _, cap, blL, hcap, hblL, hle⟩ := findVersion_qr _ _ _ _ _ hfv
  obtain ⟨sL, rfl, hmL, heL, hbL⟩ := oneItemSegments_ok _ _ _ _ hL
  intro c hc
  have hok := hseg c hc
  cases hseg' : oneItemSegments c mode msgEnc with
  | error err => rw [hseg'] at hok; cases hok
  | ok segsC =>
    obtain ⟨sC, rfl, hmC, heC, hbC⟩ := oneItemSegments_ok _ _ _ _ hseg'
    rw [bitLength_single] at hblL
    unfold ChunkFits
    have hmono : sC.bits.length ≤ sL.bits.length := by
      rw [hbC, hbL]; exact payloadLen_mono _ _ _ (longest_ge chunks c hc)
    rw [hmL, heL] at hblL
    cases hcl : cciLen mode (if v > 0 then Gen.version_range v else v) with
    | none => rw [hcl] at hblL; cases hblL
    | some cl =>
      rw [hcl] at hblL
      simp only [Option.map_some, Option.some.injEq] at hblL
      have hblC := bitLength_single sC v eci true
      rw [hmC, heC, hcl] at hblC
      simp only [Option.map_some] at hblC
      refine ⟨[sC], _, cap, hseg', hblC, hcap, ?_⟩
      omega

/-- PARTIAL, on the symbols the model returns (`symbol_count` requested): the data bit stream of every
    symbol — Structured Append header included — fits the capacity of the version and of the error
    level the symbol was finally given (boosting included). -/
theorem each_symbol_fits_partial (parts : List Part) (msg : List Nat) (msgEnc : String) (error : Option Nat) (version : Option Int)
    (mask : Option Nat) (eci boost : Bool) (k : Int) (n : String → Option Nat) (cs : List Code)
    (h : encodeSequenceAux parts msg msgEnc error version mask eci boost (some k) n = .ok (true, cs)) :
    ∀ c ∈ cs, ∃ bl cap, bitLengthWithOverhead c.segments c.version eci true = some bl
      ∧ capacity c.version c.error = some cap ∧ bl ≤ cap := by
  obtain ⟨_, _, _, segs, _, hcase⟩ := encodeSequenceAux_ok _ _ _ _ _ _ _ _ _ _ _ _ h
  rcases hcase with ⟨hf, _⟩ | ⟨_, mode, chunks, v, parity, hplan, hmap⟩
  · cases hf
  · obtain ⟨hlen, hget⟩ := zipIdx_mapM_ok _ _ _ hmap
    have hlvl : (if error.isNone = true then some Gen.ERROR_LEVEL_L else error)
        = some ((if error.isNone = true then some Gen.ERROR_LEVEL_L else error).getD 0) := by
      cases error <;> simp
    rw [hlvl] at hplan
    have hsegok : ∀ c ∈ chunks, (oneItemSegments c mode msgEnc).isOk := by
      intro c hc
      obtain ⟨i, hi, rfl⟩ := List.getElem_of_mem hc
      obtain ⟨segs', hs', _⟩ := symbolOf_ok _ _ _ _ _ _ _ _ _ _ _ _ (hget i hi (by omega))
      simp only at hs'
      rw [hs']; rfl
    have hfits := each_fits_partial _ _ _ _ _ _ _ _ _ _ _ hplan hsegok
    intro c hc
    obtain ⟨i, hi, rfl⟩ := List.getElem_of_mem hc
    obtain ⟨segs', hs', henc⟩ := symbolOf_ok _ _ _ _ _ _ _ _ _ _ _ _ (hget i (by omega) hi)
    simp only at hs' henc
    obtain ⟨segsC, bl, cap, h1, h2, h3, h4⟩ := hfits chunks[i] (List.getElem_mem _)
    rw [hs'] at h1
    cases h1
    obtain ⟨hv, hsg, _, _, hb0, hb1⟩ := encodeCore_ok _ _ _ _ _ _ _ _ _ henc
    rw [hv, hsg]
    cases boost with
    | false =>
      rw [hb0 rfl, hlvl]
      exact ⟨bl, cap, h2, h3, h4⟩
    | true =>
      rcases boost_fits _ _ _ _ _ _ (hb1 rfl) with he | ⟨cap', bl', hc', hb', hle'⟩
      · rw [he, hlvl]; exact ⟨bl, cap, h2, h3, h4⟩
      · exact ⟨bl', cap', hb', hc', hle'⟩

/-- non-vacuity of `each_fits_partial`: 10 digits in 3 symbols (chunks of 4, 3, 3 digits, version 1) -/
example : (planSequence [{ bits := [], charCount := 10, mode := 1, encoding := none }] [49, 50, 51, 52, 53, 54, 55, 56, 57, 48]
      "iso-8859-1" (some 1) none false (some 3)).toOption
    = some (1, [[49, 50, 51, 52], [53, 54, 55], [56, 57, 48]], 1, 1) := by
  decide +kernel

/-- the numeric message '1' * len of the witness, as one prepared segment -/
def digitsMsg (len : Nat) : List Nat := List.replicate len 49

/-- does the model, asked for version `v` at level `lvl` (no symbol count), plan a first chunk of
    '1' * len whose bit stream is longer than the capacity? -/
def firstChunkOverflows (len : Nat) (v : Int) (lvl : Nat) : Bool :=
  match prepareData [{ data := digitsMsg len, mode := none, encoding := "iso-8859-1" }] with
  | .ok segs =>
    match planSequence segs (digitsMsg len) "iso-8859-1" (some lvl) (some v) false none with
    | .ok (mode, chunk :: _, v', _) =>
      (match oneItemSegments chunk mode "iso-8859-1" with
       | .ok segs' =>
         (match bitLengthWithOverhead segs' v' false true, capacity v' (some lvl) with
          | some bl, some cap => decide (cap < bl)
          | _, _ => false)
       | .error _ => false)
    | _ => false
  | .error _ => false

/-- D16, kernel-checked witness: `make_sequence('1' * 71, version=1)` (level L, capacity 152 bits) is
    planned as 2 symbols whose first chunk has 36 digits = 20 + 4 + 10 + 120 = 154 bits. -/
example : firstChunkOverflows 71 1 Gen.ERROR_LEVEL_L = true := by decide +kernel

/-- the full statement therefore fails (for the model exactly as for the implementation) -/
theorem each_fits_fails_by_version : ¬ EachFits := by
  intro hall
  have hplan : (planSequence [{ bits := [], charCount := 71, mode := 1, encoding := none }] (digitsMsg 71) "iso-8859-1"
      (some 1) (some 1) false none).toOption
      = some (1, [digitsMsg 36, digitsMsg 35], 1, 49) := by decide +kernel
  cases hp : planSequence [{ bits := [], charCount := 71, mode := 1, encoding := none }] (digitsMsg 71) "iso-8859-1"
      (some 1) (some 1) false none with
  | error e => rw [hp] at hplan; cases hplan
  | ok r =>
    rw [hp] at hplan
    simp only [Except.toOption, Option.some.injEq] at hplan
    subst hplan
    have hsegs : ∀ c ∈ [digitsMsg 36, digitsMsg 35], (oneItemSegments c 1 "iso-8859-1").isOk := by decide +kernel
    obtain ⟨segs, bl, cap, h1, h2, h3, h4⟩ := hall _ _ _ _ _ _ _ _ _ _ _ hp hsegs (digitsMsg 36) (by simp)
    have hb : (oneItemSegments (digitsMsg 36) 1 "iso-8859-1").toOption.bind (fun s => bitLengthWithOverhead s 1 false true) = some 154 := by
      decide +kernel
    have hc : capacity 1 (some 1) = some 152 := by decide +kernel
    rw [h1] at hb
    simp only [Except.toOption, Option.bind_some] at hb
    rw [h2] at hb
    rw [h3] at hc
    cases hb; cases hc
    omega

end Props.C08
