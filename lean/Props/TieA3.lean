/-
  Tie A, third round — data masking and module placement ARE what the source says now.

  `Gen/Funcs3.lean` is written by the AST translator (tools/pytolean.py, grammar: docs/TRANSLATOR.md, round 3) from the
  CURRENT source of the repository on every run:
  * `apply_mask(matrix, mask_pattern, width, height, is_encoding_region)` — the two callables are parameters of the
    translation (`mask_pattern : Int → Int → Bool`, declared not to raise; `is_encoding_region : Int → Int → M Bool`,
    declared to raise possibly); `row[j] ^= mask_pattern(i, j)` is `Py.setItem2 … (Py.bxor cell (if … then 1 else 0))`;
  * `is_encoding_region(i, j)`, the closure of `find_and_apply_best_mask` over its local `function_matrix`
    (`function_matrix[i][j] > 0x1`), translated on its own with the closure variable as a parameter;
  * `get_data_mask_functions(is_micro)` and its nested `fn0 … fn7` — functions as VALUES: the tuple is a `List (Int → Int → Bool)`;
  * `find_and_apply_best_mask(matrix, width, height, proposed_mask)` — function-valued locals (`is_better = lt`, `eval_mask =
    evaluate_mask`, both re-bound for Micro QR Codes), the closure `is_encoding_region` passed on to `apply_mask`, the copy
    `[ba[:] for ba in matrix]`, the loop over `enumerate(mask_patterns)` with the state (best_matrix, best_pattern, best_score);
    `best_pattern` is first assigned inside the loop: unbound (`none`) until then, read through `Py.unbound`
    (`UnboundLocalError`).  `make_matrix(width, height)` is an OPAQUE read (parameter `function_matrix0`); `sys.maxsize` is
    read from the running interpreter at generation time (9223372036854775807);
  * `add_codewords(matrix, codewords, version)` — three nested loops with the state (idx, matrix); the loop variable
    `right` is rebound inside the loop (`right -= 1`), `upwards ^= j < 6` is `!=` on Booleans, `row = matrix[i]` a view.
  Each theorem states, for all arguments of the documented domain (every n × n matrix, every symbol size), that the
  hand-written model function (`lean/Model/Encoder.lean`) is equal to the translation.  The mask conditions themselves
  (`get_data_mask_functions.fn0 … fn7`) are regenerated into `Gen/Arith.lean` (`Gen.fn0 …`, `Model.maskFn`).
  Translation validation: `Gen/Funcs3Check.lean` (imported here).
-/
import Gen.Funcs3Check
import Proofs.TieA3Mask
import Proofs.TieA3Place
import Proofs.TieA3Fns
import Proofs.TieA3Best
import Proofs.TieA3Segment
import Proofs.TieA3Bound
import Proofs.TieA3Numeric
import Proofs.TieA3Alnum

namespace Props.TieA3
open Gen.Py Proofs.TieA Proofs.TieA2 Proofs.TieA3 Model

/-! ## C06: data masking -/

/-- `is_encoding_region(i, j)` of `find_and_apply_best_mask`, closed over an n × n function matrix: inside the matrix it is
    "the function matrix holds a value > 1" (`Model.applyMask` tests `get2 fm i j > 1`) and does not raise -/
theorem is_encoding_region_tie (fm : Matrix) (n : Nat) (hf : Sq fm n) (i j : Nat) (hi : i < n) (hj : j < n) :
    Gen.Funcs3.is_encoding_region (mI fm) (i : Int) (j : Int) = .ok (decide (get2 fm i j > 1)) :=
  region_cell hf i j hi hj

/-- `apply_mask(matrix, mask_patterns[p], n, n, is_encoding_region)` for EVERY n × n matrix, every n × n function matrix
    and every mask pattern number: the matrix afterwards is `Model.applyMask m fm p`; nothing is raised.  The mask
    pattern passed in is the regenerated condition `Model.maskFn p` (`Gen.fn0 … Gen.fn7`), the region test is the
    translated closure over the function matrix. -/
theorem apply_mask_tie (m fm : Matrix) (n p : Nat) (hs : Sq m n) (hf : Sq fm n) :
    Gen.Funcs3.apply_mask (mI m) (fun i j => maskFn p i.toNat j.toNat) (n : Int) (n : Int) (Gen.Funcs3.is_encoding_region (mI fm))
      = .ok (mI (Model.applyMask m fm p)) :=
  apply_mask_eq m fm n p hs hf

/-- a 2 × 2 matrix, pattern 1 (`i % 2 == 0`: the first row), every module in the encoding region but (1, 1) -/
example : Gen.Funcs3.apply_mask [[0, 1], [1, 1]] (fun i j => maskFn 1 i.toNat j.toNat) 2 2 (Gen.Funcs3.is_encoding_region [[2, 2], [2, 1]])
      = .ok [[1, 0], [1, 1]]
    ∧ Gen.Funcs3.apply_mask [[0, 1], [1, 1]] (fun i j => maskFn 1 i.toNat j.toNat) 3 2 (Gen.Funcs3.is_encoding_region [[2, 2], [2, 1]])
      = .error .indexError := by decide +kernel

/-- the hypotheses are satisfiable: the 21 × 21 matrix of `make_matrix` as matrix and as function matrix -/
example : Sq (Model.makeMatrix 21) 21 := ⟨by decide +kernel, by decide +kernel⟩

/-- the eight mask conditions as translated in round 3 (Python integers, `&` on two's complement) are the conditions the
    arithmetic translator regenerates into Gen/Arith.lean (naturals), on all coordinates i, j ≥ 0 -/
theorem mask_conditions_tie (i j : Nat) :
    Gen.Funcs3.fn0 i j = Gen.fn0 i j ∧ Gen.Funcs3.fn1 i j = Gen.fn1 i j ∧ Gen.Funcs3.fn2 i j = Gen.fn2 i j
    ∧ Gen.Funcs3.fn3 i j = Gen.fn3 i j ∧ Gen.Funcs3.fn4 i j = Gen.fn4 i j ∧ Gen.Funcs3.fn5 i j = Gen.fn5 i j
    ∧ Gen.Funcs3.fn6 i j = Gen.fn6 i j ∧ Gen.Funcs3.fn7 i j = Gen.fn7 i j :=
  ⟨fn0_nat i j, fn1_nat i j, fn2_nat i j, fn3_nat i j, fn4_nat i j, fn5_nat i j, fn6_nat i j, fn7_nat i j⟩

/-- `get_data_mask_functions(is_micro)` is, element by element, `Model.maskPatterns` (QR: 0 … 7, Micro QR: 1, 4, 6, 7) -/
theorem get_data_mask_functions_tie (isMicro : Bool) :
    Rel2 IsMask (Gen.Funcs3.get_data_mask_functions isMicro) (Model.maskPatterns isMicro) :=
  mask_functions isMicro

/-- `find_and_apply_best_mask(matrix, n, n, proposed_mask)` for EVERY n × n matrix of modules 0 / 1 of a symbol size
    (n ≥ 9; n < 25 or n = 4·ver + 17 ≤ 177, as for `add_alignment_patterns_tie`) and every proposed mask number or `None`,
    with `make_matrix(n, n)` = `Model.makeMatrix n`: the same pattern index and the same masked matrix as
    `Model.findAndApplyBestMask` — the function matrix (finder and alignment patterns, dark module), `IndexError` for a proposed
    mask outside the tuple, the strict comparison (`gt` from −1 for Micro QR Codes, `lt` from `sys.maxsize` for QR Codes: the
    first best candidate wins), composed with `evaluate_mask_tie` / `evaluate_micro_mask_tie` / `apply_mask_tie`.  The matrix
    parameter comes back masked when a mask is proposed (it is masked in place) and unchanged otherwise (the candidates are
    copies).  The model starts from "no candidate", the code from `sys.maxsize` = 2⁶³ − 1: `penalty_below_maxsize` shows that
    every penalty score of such a matrix is below 10⁷. -/
theorem find_and_apply_best_mask_tie (m : Matrix) (n : Nat) (hs : Sq m n) (hn : 9 ≤ n) (hal : n < 25 ∨ (n % 4 = 1 ∧ n ≤ 177))
    (hbits : ∀ i j, get2 m i j ≤ 1) (proposed : Option Nat) :
    toR (Gen.Funcs3.find_and_apply_best_mask (mI m) n n (proposed.map Int.ofNat) (mI (Model.makeMatrix n)))
      = (Model.findAndApplyBestMask m proposed).map
          (fun r => (if proposed.isSome then mI r.2 else mI m, ((r.1 : Int), some (mI r.2)))) :=
  best_mask_eq m n hs hn hal hbits (fun _ fm p => by
    have := evaluateMask_lt (applyMask m fm p) n (sq_applyMask fm p hs) (by omega) (applyMask_bits m fm p hbits)
    omega) proposed

/-- N1 + N2 + N3 + N4 of an n × n matrix of 0 / 1 modules, n ≤ 177, is below 10⁷ -/
theorem penalty_below_maxsize (m : Matrix) (n : Nat) (hs : Sq m n) (hn : n ≤ 177) (hbits : ∀ i j, get2 m i j ≤ 1) :
    Model.evaluateMask m < 10000000 :=
  evaluateMask_lt m n hs hn hbits

/-- the function matrix is square, as the tie needs it -/
example : Sq (Model.makeMatrix 177) 177 := sq_makeMatrix 177

/-! ## C01 / C02 / C03: module placement -/

/-- `add_codewords(matrix, codewords, version)` for EVERY n × n matrix with n odd (all symbol sizes 11 … 17, 21 … 177 are
    odd), every bit list and every version number: the matrix afterwards is that of `Model.addCodewords` (the fold over
    `Model.codewordCoords`: two-module columns from the right, the column of the vertical timing pattern skipped for QR
    Codes, upwards / downwards, M1 / M3 starting upwards at the same corner), `ValueError` exactly when bits remain.
    The state of the translation is (idx, matrix), that of the model (matrix, remaining bits): `bits.drop idx`. -/
theorem add_codewords_tie (m : Matrix) (bits : List Nat) (v : Int) (n : Nat) (hs : Sq m n) (hodd : n % 2 = 1) :
    toR (Gen.Funcs3.add_codewords (mI m) (toI bits) v) = (Model.addCodewords m bits v).map mI :=
  add_codewords_eq m bits v n hs hodd

/-- a 3 × 3 matrix with free modules (value 2).  M4 numbering (0): the right column pair downwards, three bits; a fourth
    bit does not fit (`ValueError`).  Version 1: the column pair is shifted left of the timing column, upwards for j < 6.
    M3 (-1): upwards.  (The values are those of the real function.) -/
example : Gen.Funcs3.add_codewords [[2, 0, 2], [2, 1, 2], [0, 0, 2]] [1, 1, 0] 0 = .ok [[2, 0, 1], [2, 1, 1], [0, 0, 0]]
    ∧ Gen.Funcs3.add_codewords [[2, 0, 2], [2, 1, 2], [0, 0, 2]] [1, 1, 0, 1] 0 = .error .valueError
    ∧ Gen.Funcs3.add_codewords [[2, 0, 2], [2, 1, 2], [0, 0, 2]] [1, 0] 1 = .ok [[1, 0, 2], [0, 1, 2], [0, 0, 2]]
    ∧ Gen.Funcs3.add_codewords [[2, 0, 2], [2, 1, 2], [0, 0, 2]] [1, 1, 0] (-1) = .ok [[2, 0, 0], [2, 1, 1], [0, 0, 1]]
    ∧ Model.addCodewords #[#[2, 0, 2], #[2, 1, 2], #[0, 0, 2]] [1, 1, 0] 0 = .ok #[#[2, 0, 1], #[2, 1, 1], #[0, 0, 0]] := by
  decide +kernel

/-! ## C01 / C13: the bit stream of one segment -/

/-- `write_segment(buff, segment, ver, ver_range, eci)` as `_encode` calls it (`ver` = None for a QR Code, `ver_range` the
    version of a Micro QR Code / `version_range(version)`), for EVERY buffer, segment, version number and ECI flag: the
    buffer afterwards is the old buffer followed by the bits of `Model.writeSegment` — ECI header (mode 7 and the assignment
    number, only for a byte segment in another encoding than ISO 8859-1), mode indicator (4 bits + the Hanzi subset indicator;
    `ver + 3` bits of the mapped mode for M2 … M4; none for M1), character count indicator, data bits; `ValueError` (no ECI
    number) and `KeyError` (mode without Micro QR mapping / without character count length) in the same cases.
    `get_eci_assignment_number(segment.encoding)` is an OPAQUE read (`codecs.lookup` is a runtime service): `eciM` supplies it
    from the model's ECI table parameter. -/
theorem write_segment_tie (buff : List Nat) (s : Segment) (v : Int) (eci : Bool) (eciNumber : String → Option Nat) :
    toR (Gen.Funcs3.write_segment (toI buff) s.mode s.encoding s.charCount (toI s.bits) (verArg v) (verRangeOf v) eci
        (eciM eciNumber s.encoding))
      = (Model.writeSegment s v eci eciNumber).map (fun bs => toI (buff ++ bs)) :=
  write_segment_eq buff s v eci eciNumber

/-- version 1, a numeric segment "12" (7 bits): mode 0001, count 0000000010; M2 (-2): mode 0 in one bit, count in 4 bits;
    a UTF-8 byte segment with ECI: 0111 00011010 0100 … -/
example : Gen.Funcs3.write_segment [] 1 none 2 [0, 0, 0, 1, 1, 0, 0] none 1 false (.ok 0)
      = .ok [0, 0, 0, 1, 0, 0, 0, 0, 0, 0, 0, 0, 1, 0, 0, 0, 0, 1, 1, 0, 0]
    ∧ Gen.Funcs3.write_segment [1] 1 none 2 [0, 0, 0, 1, 1, 0, 0] (some (-2)) (-2) false (.ok 0)
      = .ok [1, 0, 0, 0, 1, 0, 0, 0, 0, 1, 1, 0, 0]
    ∧ Gen.Funcs3.write_segment [] 4 (some "utf-8") 0 [] none 1 true (.ok 26)
      = .ok [0, 1, 1, 1, 0, 0, 0, 1, 1, 0, 1, 0, 0, 1, 0, 0, 0, 0, 0, 0, 0, 0, 0, 0]
    ∧ Gen.Funcs3.write_segment [] 13 none 1 [] (some (-1)) (-1) false (.ok 0) = .error .keyError := by decide +kernel

/-! ## C07 / C13: `make_segment` -/

/-- what translated code returns for a segment of the model: `_Segment(bits, char_count, mode, encoding)` -/
def segI (s : Segment) : List Int × Int × Int × Option String := (toI s.bits, (s.charCount : Int), (s.mode : Int), s.encoding)

/-- FULL STATEMENT (not proved in this round, see `make_segment_tie_partial`): `make_segment(data, mode, encoding)` for every
    byte string, every requested mode (or None) and codec name.  OPAQUE reads of the translation: `data_to_bytes(data, encoding)`
    (text codecs: the bytes, their number and the codec name used), `find_mode(segment_data)` (its tie is `find_mode_tie`, the
    regular expression behind `is_alphanumeric` is opaque there), and the builtin `int` applied to a chunk of ≤ 3 bytes (decimal
    parsing; required to agree with `Model.digitsVal` on non-empty digit strings). -/
def make_segment_tie_statement : Prop :=
  ∀ (raw : String) (data : List Nat) (mode : Option Nat) (enc : Option String) (encName : String) (intOf : List Int → M Int),
    (∀ b ∈ data, b < 256) →
    (∀ c : List Nat, c ≠ [] → (∀ b ∈ c, 48 ≤ b ∧ b ≤ 57) → intOf (toI c) = .ok (Int.ofNat (digitsVal c))) →
    toR (Gen.Funcs3.make_segment raw (mode.map Int.ofNat) enc (.ok (toI data, (data.length : Int), encName)) (findMode data : Int) intOf)
      = (Model.makeSegment data mode encName).map segI

/-- PROVED PART: byte mode (requested, or found by `find_mode` when no mode is requested), numeric mode and alphanumeric mode
    (found by `find_mode`; requested or not): the segment of `Model.makeSegment`, for every byte string — 8 bits per byte, the
    codec name kept; groups of three digits in 10 bits, a rest of two / one digit in 7 / 4 bits (`data[i:i + 3]` over
    `range(0, n, 3)` against `Model.chunks 3`, the opaque `int` against `Model.digitsVal`); pairs of characters in 11 bits, a single
    one in 6 (`consts.ALPHANUMERIC_CHARS.find` against `Model.alnumIndex`, for the 45 characters of the table).
    MISSING: the kanji and hanzi branches (pairs of bytes against `Model.pairs`, with their `ValueError`s). -/
theorem make_segment_tie_partial (raw : String) (data : List Nat) (mode : Option Nat) (enc : Option String) (encName : String)
    (intOf : List Int → M Int)
    (hint : ∀ c : List Nat, c ≠ [] → (∀ b ∈ c, 48 ≤ b ∧ b ≤ 57) → intOf (toI c) = .ok (Int.ofNat (digitsVal c)))
    (hmode : (mode = some 4 ∨ (mode = none ∧ findMode data = 4)) ∨ (findMode data = 1 ∧ (mode = none ∨ mode = some 1))
      ∨ (findMode data = 2 ∧ (mode = none ∨ mode = some 2))) :
    toR (Gen.Funcs3.make_segment raw (mode.map Int.ofNat) enc (.ok (toI data, (data.length : Int), encName)) (findMode data : Int) intOf)
      = (Model.makeSegment data mode encName).map segI := by
  rcases hmode with hb | ⟨hg, hn⟩ | ⟨hg, hn⟩
  · rw [make_segment_byte_py raw data mode enc encName intOf hb, make_segment_byte_model data mode encName hb]
    rfl
  · rw [make_segment_numeric_py raw data mode enc encName intOf hint hg hn, make_segment_numeric_model data mode encName hg hn]
    rfl
  · rw [make_segment_alnum_py raw data mode enc encName intOf hg hn, make_segment_alnum_model data mode encName hg hn]
    rfl

/-- alphanumeric mode requested for digits-only data (`find_mode` finds numeric; digits are in the alphanumeric table) -/
theorem make_segment_tie_alnum_digits (raw : String) (data : List Nat) (enc : Option String) (encName : String)
    (intOf : List Int → M Int) (hg : findMode data = 1) :
    toR (Gen.Funcs3.make_segment raw (some (2 : Int)) enc (.ok (toI data, (data.length : Int), encName)) (findMode data : Int) intOf)
      = (Model.makeSegment data (some 2) encName).map segI := by
  obtain ⟨h1, h2⟩ := make_segment_alnum_digits raw data enc encName intOf hg
  rw [h1, h2]
  rfl

/-- kanji / hanzi requested for an odd number of bytes: `ValueError` on both sides -/
theorem make_segment_tie_odd (raw : String) (data : List Nat) (md : Nat) (enc : Option String) (encName : String)
    (intOf : List Int → M Int) (hmd : md = 8 ∨ md = 13) (hodd : data.length % 2 = 1) :
    toR (Gen.Funcs3.make_segment raw (some (md : Int)) enc (.ok (toI data, (data.length : Int), encName)) (findMode data : Int) intOf)
      = (Model.makeSegment data (some md) encName).map segI := by
  obtain ⟨h1, h2⟩ := make_segment_odd raw data md enc encName intOf hmd hodd
  rw [h1, h2]
  rfl

/-- … and a requested mode (other than byte) below the mode `find_mode` finds is refused with `ValueError` on both sides -/
theorem make_segment_tie_refused (raw : String) (data : List Nat) (md : Nat) (enc : Option String) (encName : String)
    (intOf : List Int → M Int) (hmd : md ≠ 4) (hlt : md < findMode data) :
    toR (Gen.Funcs3.make_segment raw (some (md : Int)) enc (.ok (toI data, (data.length : Int), encName)) (findMode data : Int) intOf)
      = (Model.makeSegment data (some md) encName).map segI := by
  obtain ⟨h1, h2⟩ := make_segment_refused raw data md enc encName intOf hmd hlt
  rw [h1, h2]
  rfl

/-- "ab" in byte mode; "12" without a requested mode is numeric (the opaque `int` is the decimal value here) -/
example : Gen.Funcs3.make_segment "ab" (some 4) none (.ok ([97, 98], 2, "iso-8859-1")) 4 (fun _ => .ok 0)
      = .ok ([0, 1, 1, 0, 0, 0, 0, 1, 0, 1, 1, 0, 0, 0, 1, 0], 2, 4, some "iso-8859-1")
    ∧ Gen.Funcs3.make_segment "12" none none (.ok ([49, 50], 2, "iso-8859-1")) 1 (fun _ => .ok 12)
      = .ok ([0, 0, 0, 1, 1, 0, 0], 2, 1, none) := by decide +kernel

end Props.TieA3
