/-
  C03 (part 3) — the final message: block split, Reed-Solomon blocks, interleaving, M1/M3 half
  codeword and remainder bits as the model of make_final_message / make_blocks builds them are read
  back by the reference de-interleaver as valid RS blocks carrying exactly the data stream.
  Property theorems only; helper lemmas live in Proofs/Message.lean.
-/
import Spec.Decode
import Model.Encoder
import Props.C03
import Props.C13
import Proofs.Message

namespace Props.C03

/-- round-robin interleaving (shorter blocks run out first) is undone by the reference de-interleaver,
    for EVERY list of blocks -/
theorem deinterleave_interleave (blocks : List (List Nat)) :
    Spec.deinterleave (blocks.map List.length) (Model.interleave blocks) = blocks :=
  Proofs.Message.deinterleave_interleave blocks

/-- 8-bit codewords and bit strings convert back and forth -/
theorem chunk8_of_codeword_bits (cws : List Nat) (h : ∀ c ∈ cws, c < 256) :
    Spec.chunk8 cws.length ((cws.map (fun x => Model.appendBits x 8)).flatten) = cws :=
  Proofs.Message.chunk8_bitsOf cws h

theorem toInts_bits (bits : List Nat) (hb : ∀ b ∈ bits, b ≤ 1) (h8 : bits.length % 8 = 0) :
    ((Model.toInts (bits.length + 1) bits).map (fun x => Model.appendBits x 8)).flatten = bits :=
  Proofs.Message.toInts_bits bits hb h8

/-- STATEMENT AS ORIGINALLY GIVEN — FALSE for M1/M3 when the stream is longer than the capacity and
    has a 1 among the (up to four) bits that follow the capacity: `toints()` packs those bits into
    the low nibble of the last data codeword, `make_blocks` computes the EC codewords over that full
    codeword, but `make_final_message` emits only its high nibble, so the reader (who completes the
    half codeword with 0000) sees a block that is not an RS codeword.
    Counterexample: M1 (v = -3, no level), cap = 20, stream = 20 ones ++ [0,0,0,1]: `badBlocks = 1`;
    see `final_message_blocks_valid_counterexample`.  Not reachable through `encode`: for M1/M3
    `finishStream` returns exactly `cap` bits (`m13_stream_has_capacity_length`). -/
def FinalMessageBlocksValid : Prop :=
  ∀ (v : Int) (e : Option Nat) (cap : Nat) (stream bits : List Nat),
    -3 ≤ v → v ≤ 40 → Model.capacity v e = some cap → cap ≤ stream.length →
    (∀ b ∈ stream, b ≤ 1) → Model.makeFinalMessage v e stream = .ok bits →
    ∃ b, Spec.splitBlocks v (Model.lvlKey e) bits = .ok b ∧ Spec.badBlocks b = 0
      ∧ Spec.allZero b.remainder = true ∧ Spec.dataStream v b = stream.take cap

theorem final_message_blocks_valid_counterexample : ¬ FinalMessageBlocksValid := by
  intro H
  obtain ⟨b, hs, hbad, -⟩ := H (-3) none 20 (List.replicate 20 1 ++ [0, 0, 0, 1])
    [1,1,1,1,1,1,1,1, 1,1,1,1,1,1,1,1, 1,1,1,1, 1,0,1,0,0,1,0,1, 0,1,0,1,0,1,0,0]
    (by decide) (by decide) (by decide +kernel) (by decide) (by decide) (by decide +kernel)
  have hk : (match Spec.splitBlocks (-3) (Model.lvlKey none)
      [1,1,1,1,1,1,1,1, 1,1,1,1,1,1,1,1, 1,1,1,1, 1,0,1,0,0,1,0,1, 0,1,0,1,0,1,0,0] with
      | .ok b => Spec.badBlocks b | .error _ => 0) = 1 := by decide +kernel
  rw [hs] at hk
  simp only [hbad] at hk
  exact absurd hk (by decide)

/-- **message level C03** (strongest true variant; the extra hypothesis `hz` only concerns M1/M3 and
    holds whenever the stream has exactly `cap` bits, as every stream built by `finishStream` has):
    for every version / level of Table 9 and EVERY data bit stream of (at least) the capacity, the
    bit sequence `make_final_message` hands to the placement, split by the reference reader according
    to the frozen ISO Table 9, consists of valid Reed-Solomon blocks, zero remainder bits, and
    carries exactly the first `cap` bits of the stream as data -/
theorem final_message_blocks_valid_partial (v : Int) (e : Option Nat) (cap : Nat) (stream bits : List Nat)
    (h1 : -3 ≤ v) (h2 : v ≤ 40) (hcap : Model.capacity v e = some cap) (hlen : cap ≤ stream.length)
    (hb : ∀ b ∈ stream, b ≤ 1)
    (hz : Spec.fourBitFinal v = true → ∀ b ∈ (stream.drop cap).take 4, b = 0)
    (h : Model.makeFinalMessage v e stream = .ok bits) :
    ∃ b, Spec.splitBlocks v (Model.lvlKey e) bits = .ok b ∧ Spec.badBlocks b = 0
      ∧ Spec.allZero b.remainder = true ∧ Spec.dataStream v b = stream.take cap :=
  Proofs.Message.final_blocks_valid v e cap stream bits h1 h2 hcap hlen hb hz h

/-- the original statement holds as given for all QR versions and M2 / M4 -/
theorem final_message_blocks_valid_not_m1m3 (v : Int) (e : Option Nat) (cap : Nat) (stream bits : List Nat)
    (h1 : -3 ≤ v) (h2 : v ≤ 40) (hcap : Model.capacity v e = some cap) (hlen : cap ≤ stream.length)
    (hb : ∀ b ∈ stream, b ≤ 1) (hf : Spec.fourBitFinal v = false)
    (h : Model.makeFinalMessage v e stream = .ok bits) :
    ∃ b, Spec.splitBlocks v (Model.lvlKey e) bits = .ok b ∧ Spec.badBlocks b = 0
      ∧ Spec.allZero b.remainder = true ∧ Spec.dataStream v b = stream.take cap :=
  final_message_blocks_valid_partial v e cap stream bits h1 h2 hcap hlen hb
    (fun hf' => by rw [hf] at hf'; cases hf') h

/-- … and for every version when the stream has exactly `cap` bits -/
theorem final_message_blocks_valid_exact (v : Int) (e : Option Nat) (cap : Nat) (stream bits : List Nat)
    (h1 : -3 ≤ v) (h2 : v ≤ 40) (hcap : Model.capacity v e = some cap) (hlen : stream.length = cap)
    (hb : ∀ b ∈ stream, b ≤ 1) (h : Model.makeFinalMessage v e stream = .ok bits) :
    ∃ b, Spec.splitBlocks v (Model.lvlKey e) bits = .ok b ∧ Spec.badBlocks b = 0
      ∧ Spec.allZero b.remainder = true ∧ Spec.dataStream v b = stream.take cap :=
  final_message_blocks_valid_partial v e cap stream bits h1 h2 hcap (by omega) hb
    (fun _ b hb' => by rw [List.drop_of_length_le (by omega)] at hb'; simp at hb') h

/-- the stream `finishStream` builds for M1/M3 has exactly `cap` bits, so the hypothesis `hz` of
    `final_message_blocks_valid_partial` always holds inside `encode` -/
theorem m13_stream_has_capacity_length (v : Int) (e : Option Nat) (cap : Nat) (buff stream : List Nat)
    (hcap : Model.capacity v e = some cap) (hl : buff.length ≤ cap) (hf : Spec.fourBitFinal v = true)
    (h : Model.finishStream buff v cap = .ok stream) : stream.length = cap := by
  rw [Proofs.Stream.finish_iso buff v cap e hcap hl (Or.inl hf)] at h
  rw [← Except.ok.inj h, List.length_append]
  exact Proofs.Stream.isoTail_length v cap buff.length e hcap hl

/-- the final message fills exactly the number of bits Table 9 and the remainder-bit table give -/
theorem final_message_length (v : Int) (e : Option Nat) (cap : Nat) (stream bits : List Nat)
    (h1 : -3 ≤ v) (h2 : v ≤ 40) (hcap : Model.capacity v e = some cap) (hlen : cap ≤ stream.length)
    (h : Model.makeFinalMessage v e stream = .ok bits) (ecc : List (Nat × Nat × Nat))
    (hecc : Spec.eccOf v (Model.lvlKey e) = some ecc) :
    bits.length + (if Spec.fourBitFinal v then 4 else 0)
      = 8 * (ecc.map (fun b => b.1 * b.2.1)).foldl (· + ·) 0 + Spec.remainderBits v :=
  Proofs.Message.final_length v e cap stream bits h1 h2 hcap hlen h ecc hecc

/-! ### non-vacuity -/

/-- blocks of unequal length (the shorter one runs out first) -/
example : Model.interleave [[1, 2], [3, 4, 5]] = [1, 3, 2, 4, 5] := by decide

/-- `make_final_message` succeeds on a 1-M symbol (cap = 128) and the theorem's conclusion is
    computed to hold on it -/
example : (match Model.makeFinalMessage 1 (some 0) (List.replicate 128 1) with
    | .ok bits => (match Spec.splitBlocks 1 0 bits with
      | .ok b => Spec.badBlocks b == 0 && Spec.dataStream 1 b == List.replicate 128 1
      | .error _ => false)
    | .error _ => false) = true := by decide +kernel

end Props.C03

#print axioms Props.C03.deinterleave_interleave
#print axioms Props.C03.chunk8_of_codeword_bits
#print axioms Props.C03.toInts_bits
#print axioms Props.C03.final_message_blocks_valid_counterexample
#print axioms Props.C03.final_message_blocks_valid_partial
#print axioms Props.C03.final_message_blocks_valid_not_m1m3
#print axioms Props.C03.final_message_blocks_valid_exact
#print axioms Props.C03.m13_stream_has_capacity_length
#print axioms Props.C03.final_message_length
