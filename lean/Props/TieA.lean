/-
  Tie A, widened — the hand-written model functions ARE what the source says now.

  `Gen/Funcs.lean` is written by the AST translator (tools/pytolean.py, grammar: docs/TRANSLATOR.md) from the
  CURRENT source of the repository on every run.  Each theorem below states, for all arguments of the documented
  domain (unbounded), that a function of the hand-written model (`lean/Model`) is equal to the translation of the
  corresponding Python function.  The property theorems about the model are thereby, for these functions,
  theorems about the source as it is now: an edit of the source changes `Gen/Funcs.lean` and the equality no
  longer type-checks / proves.  Where the model has no counterpart the documented / ISO fact is stated about the
  translation directly.

  Conventions: `toR` reads a result of translated code (`Except PyExc`) as a result of the model (`Except PyErr`);
  `ofOption e` reads an `Option` result of the model whose `none` stands for the exception `e`.
  Translation validation (`Gen/FuncsCheck.lean`, imported here): the Lean kernel evaluates every
  translated function on sample arguments and compares with what the real Python function returned.
-/
import Gen.FuncsCheck
import Proofs.TieA
import Proofs.TieAFormat
import Proofs.TieABits
import Proofs.TieAGetBit
import Proofs.TieAOverhead

set_option linter.unusedSimpArgs false

namespace Props.TieA
open Gen.Py Proofs.TieA Model Model.Args

/-! ## encoder.py: sizes, version ranges, modes -/

/-- `calc_matrix_size`: the general translation coincides with the one the model uses (`Gen/Arith.lean`) -/
theorem calc_matrix_size_tie : Gen.Funcs.calc_matrix_size = Gen.calc_matrix_size := rfl

/-- ISO/IEC 18004 §5.3: QR Code version v has 21 + 4·(v − 1) modules per side; Micro QR Code Mk (constant k − 4) has
    11 + 2·(k − 1) -/
theorem calc_matrix_size_iso (v : Int) :
    (0 < v → Gen.Funcs.calc_matrix_size v = 21 + 4 * (v - 1)) ∧ (v ≤ 0 → Gen.Funcs.calc_matrix_size v = 11 + 2 * ((v + 4) - 1)) := by
  unfold Gen.Funcs.calc_matrix_size
  constructor <;> intro h <;> split_ifs <;> simp_all <;> omega

example : Gen.Funcs.calc_matrix_size 40 = 177 ∧ Gen.Funcs.calc_matrix_size (-3) = 11 := by decide

/-- `version_range`: the model's `Gen.version_range` (0 = raises) is the translated function; `ValueError` exactly
    outside 1 … 40 -/
theorem version_range_tie (v : Int) :
    Gen.Funcs.version_range v = if Gen.version_range v = 0 then .error .valueError else .ok (Gen.version_range v) := by
  unfold Gen.Funcs.version_range Gen.version_range
  split_ifs <;> simp_all

/-- ISO/IEC 18004 Table 3: versions 1–9, 10–26, 27–40 -/
theorem version_range_iso (v : Int) :
    Gen.Funcs.version_range v =
      if 1 ≤ v ∧ v ≤ 9 then .ok 1 else if 10 ≤ v ∧ v ≤ 26 then .ok 2 else if 27 ≤ v ∧ v ≤ 40 then .ok 3 else .error .valueError := by
  unfold Gen.Funcs.version_range
  split_ifs <;> simp_all <;> omega

example : Gen.Funcs.version_range 26 = .ok 2 ∧ Gen.Funcs.version_range 41 = .error .valueError := by decide

/-- `is_mode_supported(mode, ver)` for every mode number and every version number; `ValueError` = unknown mode.
    (Also ties the two independent dumps of `consts.SUPPORTED_MODES`.) -/
theorem is_mode_supported_tie (mode : Nat) (v : Int) :
    Gen.Funcs.is_mode_supported mode v = ofOption .valueError (Model.isModeSupported mode v) := by
  have known : ∀ m : Nat, m = 1 ∨ m = 2 ∨ m = 4 ∨ m = 7 ∨ m = 8 ∨ m = 13 →
      Gen.Funcs.is_mode_supported m v = ofOption .valueError (Model.isModeSupported m v) := by
    intro m hm
    rcases hm with h | h | h | h | h | h <;> subst h <;>
      simp [Gen.Funcs.is_mode_supported, Model.isModeSupported, Gen.Funcs.T_consts_SUPPORTED_MODES, Gen.SUPPORTED_MODES,
        lookup, List.find?, Model.assoc] <;>
      by_cases hv : 0 < v <;> simp [hv] <;> bool_omega
  by_cases hk : mode = 1 ∨ mode = 2 ∨ mode = 4 ∨ mode = 7 ∨ mode = 8 ∨ mode = 13
  · exact known mode hk
  · have hn : mode ≠ 1 ∧ mode ≠ 2 ∧ mode ≠ 4 ∧ mode ≠ 7 ∧ mode ≠ 8 ∧ mode ≠ 13 := by omega
    obtain ⟨h1, h2, h4, h7, h8, h13⟩ := hn
    have e1 : ((1 : Int) == (mode : Int)) = false := by simp; omega
    have e2 : ((2 : Int) == (mode : Int)) = false := by simp; omega
    have e4 : ((4 : Int) == (mode : Int)) = false := by simp; omega
    have e7 : ((7 : Int) == (mode : Int)) = false := by simp; omega
    have e8 : ((8 : Int) == (mode : Int)) = false := by simp; omega
    have e13 : ((13 : Int) == (mode : Int)) = false := by simp; omega
    rw [isModeSupported_unknown mode ⟨h1, h2, h4, h7, h8, h13⟩]
    simp [Gen.Funcs.is_mode_supported, Gen.Funcs.T_consts_SUPPORTED_MODES, lookup, List.find?, e1, e2, e4, e7, e8, e13]

example : Gen.Funcs.is_mode_supported 8 (-2) = .ok false ∧ Gen.Funcs.is_mode_supported 8 (-1) = .ok true
    ∧ Gen.Funcs.is_mode_supported 3 5 = .error .valueError := by decide

/-- `find_minimum_version_for_mode` -/
theorem find_minimum_version_for_mode_tie (mode : Nat) :
    Gen.Funcs.find_minimum_version_for_mode mode = ofOption .valueError (Model.findMinimumVersionForMode mode) := by
  by_cases hk : mode = 1 ∨ mode = 2 ∨ mode = 4 ∨ mode = 7 ∨ mode = 8 ∨ mode = 13
  · rcases hk with h | h | h | h | h | h <;> subst h <;> decide
  · have hn : mode ≠ 1 ∧ mode ≠ 2 ∧ mode ≠ 4 ∧ mode ≠ 7 ∧ mode ≠ 8 ∧ mode ≠ 13 := by omega
    unfold Gen.Funcs.find_minimum_version_for_mode Model.findMinimumVersionForMode
    simp [is_mode_supported_tie, isModeSupported_unknown mode hn, Gen.MICRO_VERSIONS, List.findSome?]

example : Gen.Funcs.find_minimum_version_for_mode 8 = .ok (-1) := by decide

/-- `_is_shift_jis_trail_byte` -/
theorem is_shift_jis_trail_byte_tie (b : Nat) : Gen.Funcs._is_shift_jis_trail_byte b = Model.isSjisTrail b := by
  unfold Gen.Funcs._is_shift_jis_trail_byte Model.isSjisTrail
  bool_omega

/-- `calc_format_info(version, error, mask_pattern)` for every version number, every error level (or `None`) and every
    mask number ≥ 0: the same format word, `IndexError` / `KeyError` in the same cases -/
theorem calc_format_info_tie (v : Int) (e : Option Nat) (mask : Nat) :
    toR (Gen.Funcs.calc_format_info v (e.map Int.ofNat) mask) = (Model.calcFormatInfo v e mask).map Int.ofNat := by
  by_cases hv : 0 < v
  · exact cfi_qr v hv e mask
  · exact cfi_micro v hv e mask

example : Gen.Funcs.calc_format_info 1 (some 1) 0 = .ok 30660 ∧ Gen.Funcs.calc_format_info (-3) none 3 = .ok 19228
    ∧ Gen.Funcs.calc_format_info (-3) (some 1) 0 = .error .keyError ∧ Gen.Funcs.calc_format_info 1 (some 3) 8 = .error .indexError := by
  decide

/-- `calc_qrcode_bit_length` (inner function of `encode_sequence`) for every character count, version range, mode number,
    encoding name and flag combination, including its quirks (7 bits for a numeric remainder of 0; 0 payload bits for an
    unknown mode); `KeyError` exactly when `CHAR_COUNT_INDICATOR_LENGTH[mode][ver_range]` does not exist -/
theorem calc_qrcode_bit_length_tie (cc : Nat) (vr : Int) (mode : Nat) (enc : String) (eci sa : Bool) :
    toR (Gen.Funcs.calc_qrcode_bit_length cc vr mode enc eci sa)
      = toR (ofOption .keyError ((Model.calcQrcodeBitLength cc vr mode enc eci sa).map Int.ofNat)) :=
  cqbl cc vr mode enc eci sa

example : Gen.Funcs.calc_qrcode_bit_length 10 1 1 "iso-8859-1" false true = .ok (4 + 10 + 20 + 34) := by decide

/-- `Segments.bit_length_with_overhead(version, eci, is_sa)` — the quantity `find_version`, `boost_error_level` and
    `encode` compare with `consts.SYMBOL_CAPACITY` (C04, C05) — for every segment list, every version number ≤ 40 and
    every flag combination.  The translated method reads the segment list through `self.modes`, `self.bit_length` and
    the count of ECI indicators; these are supplied from the model's segments.
    (For version > 40 Python raises `ValueError` in `version_range` where the model reports `KeyError`; the encoder never
    asks for such a version.) -/
theorem bit_length_with_overhead_tie (segs : List Segment) (v : Int) (hv : v ≤ 40) (eci isSa : Bool) :
    Gen.Funcs.bit_length_with_overhead v eci isSa
        (Int.ofNat (segs.filter (fun s => s.mode == Gen.MODE_BYTE && s.encoding != some Gen.DEFAULT_BYTE_ENCODING)).length)
        (segs.map (fun s => (s.mode : Int))) (Int.ofNat (sumNat (segs.map (fun s => s.bits.length))))
      = ofOption .keyError ((Model.bitLengthWithOverhead segs v eci isSa).map Int.ofNat) :=
  blwo segs v hv eci isSa

example : Gen.Funcs.bit_length_with_overhead 1 false false 0 [4] 80 = .ok 92
    ∧ Gen.Funcs.bit_length_with_overhead (-1) false false 0 [1, 2] 30 = .ok 43 := by decide

/-! ## encoder.py: names (no counterpart in the model: the documented facts) -/

/-- `get_mode_name` inverts `consts.MODE_MAPPING`, and refuses every other number -/
theorem get_mode_name_fact (c : Int) :
    Gen.Funcs.get_mode_name c = ofOption .valueError ((Gen.MODE_MAPPING.find? (fun kv => (kv.2 : Int) == c)).map (·.1)) := by
  by_cases hk : c = 1 ∨ c = 2 ∨ c = 4 ∨ c = 8 ∨ c = 13
  · rcases hk with h | h | h | h | h <;> subst h <;> decide
  · have e1 : ((1 : Int) == c) = false := by simp; omega
    have e2 : ((2 : Int) == c) = false := by simp; omega
    have e4 : ((4 : Int) == c) = false := by simp; omega
    have e8 : ((8 : Int) == c) = false := by simp; omega
    have e13 : ((13 : Int) == c) = false := by simp; omega
    simp [Gen.Funcs.get_mode_name, Gen.MODE_MAPPING, List.find?, e1, e2, e4, e8, e13]

/-- `get_error_name` inverts `consts.ERROR_MAPPING`, and refuses every other number -/
theorem get_error_name_fact (c : Int) :
    Gen.Funcs.get_error_name c = ofOption .valueError ((Gen.ERROR_MAPPING.find? (fun kv => (kv.2 : Int) == c)).map (·.1)) := by
  by_cases hk : c = 0 ∨ c = 1 ∨ c = 2 ∨ c = 3
  · rcases hk with h | h | h | h <;> subst h <;> decide
  · have e0 : ((0 : Int) == c) = false := by simp; omega
    have e1 : ((1 : Int) == c) = false := by simp; omega
    have e2 : ((2 : Int) == c) = false := by simp; omega
    have e3 : ((3 : Int) == c) = false := by simp; omega
    simp [Gen.Funcs.get_error_name, Gen.ERROR_MAPPING, List.find?, e0, e1, e2, e3]

/-- `get_version_name`: the number itself for 1 … 40, the name from `consts.MICRO_VERSION_MAPPING` for a Micro QR
    version constant, `ValueError` otherwise — i.e. exactly for the versions `normalize_version` produces -/
theorem get_version_name_fact (v : Int) :
    Gen.Funcs.get_version_name v =
      if 0 < v ∧ v < 41 then .ok (.inl v)
      else ofOption .valueError ((Gen.MICRO_VERSION_MAPPING.find? (fun kv => kv.2 == v)).map (fun kv => .inr kv.1)) := by
  by_cases hk : v = -3 ∨ v = -2 ∨ v = -1 ∨ v = 0
  · rcases hk with h | h | h | h <;> subst h <;> decide
  · have e0 : ((0 : Int) == v) = false := by simp; omega
    have e1 : ((-1 : Int) == v) = false := by simp; omega
    have e2 : ((-2 : Int) == v) = false := by simp; omega
    have e3 : ((-3 : Int) == v) = false := by simp; omega
    simp [Gen.Funcs.get_version_name, Gen.MICRO_VERSION_MAPPING, List.find?, e0, e1, e2, e3]

example : Gen.Funcs.get_mode_name 8 = .ok "kanji" ∧ Gen.Funcs.get_error_name 2 = .ok "H"
    ∧ Gen.Funcs.get_version_name (-3) = .ok (.inr "M1") ∧ Gen.Funcs.get_version_name 7 = .ok (.inl 7) := by decide

/-! ## encoder.py: argument normalisation (the `int` / `None` domain of the arguments) -/

/-- `normalize_version(None)` -/
theorem normalize_version_none_tie : toR (Gen.Funcs.normalize_version none) = normalizeVersion .none := rfl

/-- `normalize_version(i)` for every integer i -/
theorem normalize_version_int_tie (i : Int) : toR (Gen.Funcs.normalize_version (some i)) = normalizeVersion (.int i) := by
  unfold Gen.Funcs.normalize_version normalizeVersion
  simp only [pyInt, Gen.Funcs.T_consts_MICRO_VERSIONS, Gen.MICRO_VERSIONS]
  by_cases h : i < 1
  · simp [h, exc, throw, throwThe, MonadExceptOf.throw]
  · simp [h, pure, throw, throwThe, MonadExceptOf.throw, Except.pure]
    split_ifs <;> simp_all [exc] <;> omega

example : toR (Gen.Funcs.normalize_version (some 40)) = .ok (some 40) ∧ toR (Gen.Funcs.normalize_version (some 0)) = .error .valueError := by
  decide

/-- `normalize_mask(None, is_micro)` -/
theorem normalize_mask_none_tie (b : Bool) :
    toR (Gen.Funcs.normalize_mask none b) = (normalizeMask .none b).map (Option.map Int.ofNat) := rfl

/-- `normalize_mask(i, is_micro)` for every integer i -/
theorem normalize_mask_int_tie (i : Int) (b : Bool) :
    toR (Gen.Funcs.normalize_mask (some i) b) = (normalizeMask (.int i) b).map (Option.map Int.ofNat) := by
  unfold Gen.Funcs.normalize_mask normalizeMask
  simp only [maskRequest, pyInt]
  cases b <;> simp [pure, throw, throwThe, MonadExceptOf.throw, Except.pure] <;>
    split_ifs <;> simp_all [exc, Except.map] <;> omega

example : toR (Gen.Funcs.normalize_mask (some 7) false) = .ok (some 7) ∧ toR (Gen.Funcs.normalize_mask (some 4) true) = .error .valueError := by
  decide

/-- `normalize_mode(None)` -/
theorem normalize_mode_none_tie : toR (Gen.Funcs.normalize_mode none) = (normalizeMode .none).map (Option.map Int.ofNat) := rfl

/-- `normalize_mode(i)` for every integer i: the mode constants are accepted, everything else is a `ValueError`
    (`i.lower()` raises `AttributeError`, which is caught) -/
theorem normalize_mode_int_tie (i : Int) :
    toR (Gen.Funcs.normalize_mode (some i)) = (normalizeMode (.int i)).map (Option.map Int.ofNat) := by
  by_cases hk : i = 1 ∨ i = 2 ∨ i = 4 ∨ i = 8 ∨ i = 13
  · rcases hk with h | h | h | h | h <;> subst h <;> decide
  · have e1 : (1 == i) = false := by simp; omega
    have e2 : (2 == i) = false := by simp; omega
    have e4 : (4 == i) = false := by simp; omega
    have e8 : (8 == i) = false := by simp; omega
    have e13 : (13 == i) = false := by simp; omega
    have h1 : ¬ i = 1 := by omega
    have h2 : ¬ i = 2 := by omega
    have h4 : ¬ i = 4 := by omega
    have h8 : ¬ i = 8 := by omega
    have h13 : ¬ i = 13 := by omega
    unfold Gen.Funcs.normalize_mode normalizeMode
    simp only [asInt, Gen.Funcs.T_consts_MODE_MAPPING_values, Gen.MODE_MAPPING, Option.bind]
    simp [throw, throwThe, MonadExceptOf.throw, List.find?, h1, h2, h4, h8, h13, e1, e2, e4, e8, e13, exc, Except.map]

example : toR (Gen.Funcs.normalize_mode (some 13)) = .ok (some 13) := by decide

/-- `normalize_errorlevel(None, accept_none=True)` -/
theorem normalize_errorlevel_none_tie :
    toR (Gen.Funcs.normalize_errorlevel none true) = (normalizeErrorLevel .none).map (Option.map Int.ofNat) := rfl

/-- `normalize_errorlevel(None)` (accept_none=False) is refused -/
theorem normalize_errorlevel_none_refused : Gen.Funcs.normalize_errorlevel none false = .error .valueError := rfl

/-- `normalize_errorlevel(i, accept_none)` for every integer i -/
theorem normalize_errorlevel_int_tie (i : Int) (acc : Bool) :
    toR (Gen.Funcs.normalize_errorlevel (some i) acc) = (normalizeErrorLevel (.int i)).map (Option.map Int.ofNat) := by
  by_cases hk : i = 0 ∨ i = 1 ∨ i = 2 ∨ i = 3
  · rcases hk with h | h | h | h <;> subst h <;> cases acc <;> decide
  · have e0 : (0 == i) = false := by simp; omega
    have e1 : (1 == i) = false := by simp; omega
    have e2 : (2 == i) = false := by simp; omega
    have e3 : (3 == i) = false := by simp; omega
    have h0 : ¬ i = 0 := by omega
    have h1 : ¬ i = 1 := by omega
    have h2 : ¬ i = 2 := by omega
    have h3 : ¬ i = 3 := by omega
    unfold Gen.Funcs.normalize_errorlevel normalizeErrorLevel
    simp only [asInt, Gen.Funcs.T_consts_ERROR_MAPPING_values, Gen.ERROR_MAPPING, Option.bind]
    simp [throw, throwThe, MonadExceptOf.throw, List.find?, h0, h1, h2, h3, e0, e1, e2, e3, exc, Except.map]

example : toR (Gen.Funcs.normalize_errorlevel (some 2) false) = .ok (some 2) := by decide

/-! ## utils.py: border, scale, symbol size -/

/-- `get_default_border_size` -/
theorem get_default_border_size_tie (w h : Int) : Gen.Funcs.get_default_border_size (w, h) = Gen.get_default_border_size w h := rfl

/-- ISO/IEC 18004 §5.3.8 / §9.1: the quiet zone is 4 modules for every QR Code version and 2 modules for every Micro QR
    Code version (the default border of a square symbol of the size `calc_matrix_size` gives) -/
theorem get_default_border_size_iso (v : Int) (hv : -3 ≤ v) :
    Gen.Funcs.get_default_border_size (Gen.Funcs.calc_matrix_size v, Gen.Funcs.calc_matrix_size v) = if 0 < v then 4 else 2 := by
  unfold Gen.Funcs.get_default_border_size Gen.Funcs.calc_matrix_size
  split_ifs <;> simp_all <;> omega

/-- `check_valid_scale` -/
theorem check_valid_scale_tie (s : Int) : toR (Gen.Funcs.check_valid_scale s) = Model.checkValidScale s := by
  unfold Gen.Funcs.check_valid_scale Model.checkValidScale
  split_ifs <;> simp_all [exc, pure, throw, throwThe, MonadExceptOf.throw, Except.pure] <;> omega

/-- `check_valid_border` for `None` and every integer -/
theorem check_valid_border_tie (b : Option Int) :
    toR (Gen.Funcs.check_valid_border b) = Model.checkValidBorder (b.map Model.Num.int) := by
  unfold Gen.Funcs.check_valid_border Model.checkValidBorder
  cases b <;> simp [Model.Num.isFractional, Model.Num.isNegative, pure, throw, throwThe, MonadExceptOf.throw, Except.pure]
  split_ifs <;> simp_all [exc]

/-- `get_border`: the border the iterators of the model use -/
theorem get_border_tie (w h : Nat) (b : Option Int) :
    Model.borderForRange w h (b.map Model.Num.int) = .ok (Gen.Funcs.get_border ((w : Int), (h : Int)) b).toNat := by
  cases b <;> rfl

/-- `get_symbol_size` (no counterpart in the model): the documented size, (width + 2·border)·scale × (height + 2·border)·scale -/
theorem get_symbol_size_fact (w h s : Int) (b : Option Int) :
    Gen.Funcs.get_symbol_size (w, h) s b
      = ((w + 2 * Gen.Funcs.get_border (w, h) b) * s, (h + 2 * Gen.Funcs.get_border (w, h) b) * s) := by
  cases b <;> rfl

example : Gen.Funcs.get_symbol_size (21, 21) 10 none = (290, 290) ∧ Gen.Funcs.get_symbol_size (11, 11) 1 none = (15, 15) := by decide

/-- `get_bit(i, j)` of `matrix_iter_verbose` inside the symbol, for every symbol size, flag combination and position:
    the module type is the one the model's decision chain (`getBitBranch`, C09 / C11) yields.
    `val` = `matrix[i][j]` ∈ {0, 1}, `a` = `alignment_matrix[i][j]` ∈ {0, 1, 2}. -/
theorem get_bit_inside_tie (w h i j : Int) (sq mi : Bool) (a val : Nat) (hi : 0 ≤ i ∧ i < h) (hj : 0 ≤ j ∧ j < w)
    (ha : a = 0 ∨ a = 1 ∨ a = 2) (hval : val = 0 ∨ val = 1) :
    Gen.Funcs.get_bit w h sq mi i j val a = .ok (Int.ofNat (Model.getBitInside w h sq mi a val i j)) :=
  get_bit_inside w h i j sq mi a val hi hj ha hval

/-- `get_bit(ii − border, jj − border)` exactly as `matrix_iter_verbose` calls it (flags computed from the size, values read
    from the matrix and the alignment matrix) is the cell function `verboseCell` of the model, quiet zone included -/
theorem get_bit_tie (M A : List (List Nat)) (w h b ii jj : Nat)
    (hval : ∀ i j, (M.getD i []).getD j 0 = 0 ∨ (M.getD i []).getD j 0 = 1)
    (ha : ∀ i j, (A.getD i []).getD j 2 = 0 ∨ (A.getD i []).getD j 2 = 1 ∨ (A.getD i []).getD j 2 = 2) :
    Gen.Funcs.get_bit w h (w == h) (w == h && decide (w < 21)) ((ii : Int) - b) ((jj : Int) - b)
        ((M.getD (ii - b) []).getD (jj - b) 0) ((A.getD (ii - b) []).getD (jj - b) 2)
      = .ok (Int.ofNat (Model.verboseCell M A w h b ii jj)) := by
  unfold Model.verboseCell
  by_cases hin : b ≤ ii ∧ ii < b + h ∧ b ≤ jj ∧ jj < b + w
  · rw [if_pos hin]
    have e1 : ((ii : Int) - b) = ((ii - b : Nat) : Int) := by omega
    have e2 : ((jj : Int) - b) = ((jj - b : Nat) : Int) := by omega
    rw [e1, e2]
    exact get_bit_inside w h _ _ _ _ _ _ (by omega) (by omega) (ha _ _) (hval _ _)
  · rw [if_neg hin]
    exact get_bit_outside _ _ _ _ _ _ _ _ (by omega)

example : Gen.Funcs.get_bit 21 21 true false 13 8 1 2 = .ok 512 ∧ Gen.Funcs.get_bit 21 21 true false 6 10 1 2 = .ok 3072
    ∧ Gen.Funcs.get_bit 21 21 true false (-1) 3 0 2 = .ok 18 := by decide

/-! ## writers.py -/

/-- `_alpha_value(a, alpha_float=False)` for an integer a ≥ 0 -/
theorem alpha_value_tie (a : Nat) : toR (Gen.Funcs._alpha_value a) = (Model.alphaOfInt a).map Int.ofNat := by
  unfold Gen.Funcs._alpha_value Model.alphaOfInt
  simp [pure, throw, throwThe, MonadExceptOf.throw, Except.pure]
  split_ifs <;> simp_all [exc, Except.map] <;> omega

/-- `_alpha_value(a, alpha_float=False)` refuses negative integers -/
theorem alpha_value_negative (a : Int) (h : a < 0) : Gen.Funcs._alpha_value a = .error .valueError := by
  unfold Gen.Funcs._alpha_value
  split_ifs <;> simp_all <;> omega

/-- `_valid_width_height_and_border`: refuses exactly what the model's `validSB` refuses … -/
theorem valid_width_height_and_border_tie (w h s : Int) (b : Option Int) :
    toR ((Gen.Funcs._valid_width_height_and_border (w, h) s b).map (fun _ => ())) =
      Model.RasterDocs.validSB (.int s) (b.map Model.Num.int) := by
  unfold Gen.Funcs._valid_width_height_and_border Model.RasterDocs.validSB
  rw [← check_valid_scale_tie, ← check_valid_border_tie]
  simp only [Model.Num.toInt]
  cases hs : Gen.Funcs.check_valid_scale s <;> cases hb : Gen.Funcs.check_valid_border b <;> rfl

/-- … and returns the symbol size and the effective border -/
theorem valid_width_height_and_border_value (w h s : Int) (b : Option Int) (r : Int × Int × Int)
    (hr : Gen.Funcs._valid_width_height_and_border (w, h) s b = .ok r) :
    r = ((w + 2 * Gen.Funcs.get_border (w, h) b) * s, (h + 2 * Gen.Funcs.get_border (w, h) b) * s, Gen.Funcs.get_border (w, h) b) := by
  unfold Gen.Funcs._valid_width_height_and_border at hr
  cases hs : Gen.Funcs.check_valid_scale s <;> cases hb : Gen.Funcs.check_valid_border b <;> simp [hs, hb] at hr
  rw [← hr]
  rfl

example : Gen.Funcs._valid_width_height_and_border (21, 21) 2 none = .ok (58, 58, 4) := by decide

end Props.TieA
