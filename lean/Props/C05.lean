-- placeholder, theorems follow
import Spec.Decode
namespace Props.C05
theorem placeholder : True := trivial
end Props.C05
