/-
  C05 — error level is never below the request; boosting never changes the version.
  Property theorems only; helper lemmas live in Proofs/Sizing.lean.
-/
import Spec.Sizing
import Model.Encoder
import Props.C04
import Proofs.Sizing

namespace Props.C05
open Props.C04

/-- Table 7: within one version the capacity does not grow with the level (L ≥ M ≥ Q ≥ H) — needed
    because the boosting loop stops at the first level that does not fit -/
theorem capacity_antitone :
    Spec.capacityTable.all (fun a => Spec.capacityTable.all (fun b =>
      a.1 != b.1 || a.2.1 == -1 || b.2.1 == -1 || Spec.levelRank a.2.1 > Spec.levelRank b.2.1 || a.2.2 ≥ b.2.2)) = true := by
  exact Proofs.Sizing.capacity_antitone

/-- level H never occurs for Micro versions, Q only for M4 (Table 7/9 have no such entries) -/
theorem micro_levels :
    Spec.capacityTable.all (fun a => a.1 > 0 || (a.2.1 != 2 && (a.2.1 != 3 || a.1 == 0))) = true := by
  exact Proofs.Sizing.micro_levels

/-- **boost**: for single-segment content and a requested (or defaulted) level `e`, the boosted level is
    the highest level defined for `v`, not below `e`, whose capacity holds the content -/
theorem boost_is_highest_fitting (v : Int) (e : Nat) (s : Model.Segment) (eci sa : Bool)
    (hwf : WF s) (h1 : -3 ≤ v) (h2 : v ≤ 40) (he : e ∈ [0, 1, 2, 3])
    (hfit : Spec.fits v (e : Int) [info eci s] sa = true) :
    Model.boostErrorLevel v (some e) [s] eci sa
      = .ok (some (Spec.expectedLevel v (some e) true [info eci s] sa).toNat) := by
  exact Proofs.Sizing.boost_is_highest_fitting v e s eci sa hwf h1 h2 he hfit

/-- boosting never lowers the level -/
theorem boost_never_below (v : Int) (e : Nat) (segs : List Model.Segment) (eci sa : Bool) (r : Option Nat)
    (he : e ∈ [0, 1, 2, 3]) (h : Model.boostErrorLevel v (some e) segs eci sa = .ok r) :
    ∃ e', r = some e' ∧ Spec.levelRank (e' : Int) ≥ Spec.levelRank (e : Int) := by
  exact Proofs.Sizing.boost_never_below v e segs eci sa r h

/-- multi-part content and M1 (no level) are left alone -/
theorem boost_identity_cases (v : Int) (error : Option Nat) (segs : List Model.Segment) (eci sa : Bool)
    (h : error = none ∨ error = some 2 ∨ segs.length ≠ 1) :
    Model.boostErrorLevel v error segs eci sa = .ok error := by
  exact Proofs.Sizing.boost_identity_cases v error segs eci sa h

/-- **version is independent of boosting** and so is success -/
theorem version_boost_invariant (parts : List Model.Part) (error : Option Nat) (version : Option Int)
    (mode : Option Nat) (mask : Option Nat) (eci : Bool) (micro : Option Bool)
    (eciNumber : String → Option Nat) (c1 c2 : Model.Code)
    (hb : Model.encode parts error version mode mask eci micro true eciNumber = .ok c1)
    (hn : Model.encode parts error version mode mask eci micro false eciNumber = .ok c2) :
    c1.version = c2.version := by
  exact Proofs.Sizing.version_boost_invariant parts error version mode mask eci micro eciNumber c1 c2 hb hn

/-- without boosting the level is exactly the requested one, or L by default, or none for M1 -/
theorem noboost_exact (parts : List Model.Part) (error : Option Nat) (version : Option Int)
    (mode : Option Nat) (mask : Option Nat) (eci : Bool) (micro : Option Bool)
    (eciNumber : String → Option Nat) (c : Model.Code)
    (h : Model.encode parts error version mode mask eci micro false eciNumber = .ok c) :
    c.error = (if error.isNone && c.version != -3 then some 1 else error) := by
  exact Proofs.Sizing.noboost_exact parts error version mode mask eci micro eciNumber c h

end Props.C05

#print axioms Props.C05.capacity_antitone
#print axioms Props.C05.micro_levels
#print axioms Props.C05.boost_is_highest_fitting
#print axioms Props.C05.boost_never_below
#print axioms Props.C05.boost_identity_cases
#print axioms Props.C05.version_boost_invariant
#print axioms Props.C05.noboost_exact
