/-
  C02 (part 2) — the model of add_format_info / add_version_info / make_matrix + finder + alignment
  puts format information, version information and function patterns where ISO/IEC 18004 puts them.
  Property theorems only; helper lemmas live in Proofs/Placement.lean.
-/
import Spec.Decode
import Model.Encoder
import Props.C02
import Proofs.Placement

namespace Props.C02

/-- square matrix of size n -/
def SquareN (m : Model.Matrix) (n : Nat) : Prop := m.size = n ∧ ∀ i, i < n → (m.getD i #[]).size = n

/-- `calc_format_info` = BCH(15,5) word of (level indicator ‖ mask) XOR mask constant (QR) -/
theorem calcFormatInfo_qr (v : Int) (e mask : Nat) (hv : 1 ≤ v) (he : e < 4) (hm : mask < 8) :
    Model.calcFormatInfo v (some e) mask = .ok (Spec.formatWordQR e mask) := by
  exact Proofs.Placement.calcFormatInfo_qr v e mask hv he hm

/-- Micro: word of (symbol number ‖ mask) -/
theorem calcFormatInfo_micro (v : Int) (lvl : Option Nat) (mask s : Nat) (hv : v < 1) (hm : mask < 4)
    (hs : Spec.microSymbolNumber v (Model.lvlKey lvl) = some s) :
    Model.calcFormatInfo v lvl mask = .ok (Spec.formatWordMicro s mask) := by
  exact Proofs.Placement.calcFormatInfo_micro v lvl mask s hv hm hs

/-- **format information, QR**: after `add_format_info`, bit k of the format word sits at the ISO
    position of BOTH copies, for every k < 15, and the dark module is set — whatever the data is -/
theorem format_written_qr (m m' : Model.Matrix) (v : Int) (e mask : Nat) (hv1 : 1 ≤ v) (hv2 : v ≤ 40)
    (he : e < 4) (hm : mask < 8) (hs : SquareN m (Spec.size v))
    (h : Model.addFormatInfo m v (some e) mask = .ok m') :
    (∀ k, k < 15 → Spec.cell m' (Spec.fmtPos1 k).1 (Spec.fmtPos1 k).2 = (Spec.formatWordQR e mask >>> k) % 2)
    ∧ (∀ k, k < 15 → Spec.cell m' (Spec.fmtPos2 (Spec.size v) k).1 (Spec.fmtPos2 (Spec.size v) k).2
          = (Spec.formatWordQR e mask >>> k) % 2)
    ∧ Spec.cell m' (Spec.size v - 8) 8 = 1 := by
  exact Proofs.Placement.format_written_qr m m' v e mask hv1 hv2 he hm hs h

/-- **format information, Micro QR** -/
theorem format_written_micro (m m' : Model.Matrix) (v : Int) (lvl : Option Nat) (mask s : Nat)
    (hv1 : -3 ≤ v) (hv2 : v < 1) (hm : mask < 4) (hs : SquareN m (Spec.size v))
    (hsym : Spec.microSymbolNumber v (Model.lvlKey lvl) = some s)
    (h : Model.addFormatInfo m v lvl mask = .ok m') :
    ∀ k, k < 15 → Spec.cell m' (Spec.fmtPosMicro k).1 (Spec.fmtPosMicro k).2 = (Spec.formatWordMicro s mask >>> k) % 2 := by
  exact Proofs.Placement.format_written_micro m m' v lvl mask s hv1 hv2 hm hs hsym h

/-- `add_format_info` touches only format cells and the dark module -/
theorem format_info_touches_only_format_cells (m m' : Model.Matrix) (v : Int) (lvl : Option Nat) (mask i j : Nat)
    (hv1 : -3 ≤ v) (hv2 : v ≤ 40) (hs : SquareN m (Spec.size v))
    (h : Model.addFormatInfo m v lvl mask = .ok m')
    (hk : Spec.kind v i j ≠ .format ∧ Spec.kind v i j ≠ .darkmodule) :
    Spec.cell m' i j = Spec.cell m i j := by
  exact Proofs.Placement.format_info_touches_only_format_cells m m' v lvl mask i j hv1 hv2 hs h hk

/-- **version information**: for versions 7..40 bit k of the (18,6) Golay word of v sits at both ISO blocks -/
theorem version_written (m m' : Model.Matrix) (v : Int) (hv1 : 7 ≤ v) (hv2 : v ≤ 40) (hs : SquareN m (Spec.size v))
    (h : Model.addVersionInfo m v = .ok m') :
    (∀ k, k < 18 → Spec.cell m' (Spec.verPos1 (Spec.size v) k).1 (Spec.verPos1 (Spec.size v) k).2 = (Spec.golay18 v.toNat >>> k) % 2)
    ∧ (∀ k, k < 18 → Spec.cell m' (Spec.verPos2 (Spec.size v) k).1 (Spec.verPos2 (Spec.size v) k).2 = (Spec.golay18 v.toNat >>> k) % 2) := by
  exact Proofs.Placement.version_written m m' v hv1 hv2 hs h

/-- versions below 7 carry no version information -/
theorem version_info_noop (m : Model.Matrix) (v : Int) (h : v < 7) : Model.addVersionInfo m v = .ok m := by
  exact Proofs.Placement.version_info_noop m v h

/-- what the skeleton of version v must look like: fixed function modules have their ISO value,
    reserved format / version cells are light, the dark module is set, data cells hold the placeholder 2 -/
def skeletonOk (v : Int) : Bool :=
  let n := Spec.size v
  match Model.functionMatrix n with
  | .error _ => false
  | .ok fm =>
    fm.size == n &&
    (List.range n).all (fun i => (List.range n).all (fun j =>
      let x := Model.get2 fm i j
      match Spec.kind v i j with
      | .data => x == 2
      | .format => x == 0
      | .version => x == 0
      | .darkmodule => x == 1
      | _ => some x == Spec.fixedValue v i j))

/-- `skeletonOk` is, by unfolding, the check `Proofs.Placement.skeletonOkM`; the latter follows from the
    same check run on a bit-packed replay of the model's list of `set2` writes (`skeletonOkP`, proved
    equivalent in general in Proofs/Placement.lean), which the kernel evaluates about 10× faster. -/
theorem skeletonOk_eq (v : Int) : skeletonOk v = Proofs.Placement.skeletonOkM v := rfl

theorem all_skeletonOk_of_packed (l : List Int) (h : l.all Proofs.Placement.skeletonOkP = true) :
    l.all skeletonOk = true := by
  have := Proofs.Placement.all_skeletonOkM_of_P l h
  rw [List.all_eq_true] at this ⊢
  exact fun v hv => (skeletonOk_eq v).trans (this v hv)

set_option maxRecDepth 100000 in
/-- **function patterns** (kernel-checked per version): the model of
    make_matrix + add_finder_patterns + add_alignment_patterns (+ dark module) equals the ISO skeleton -/
theorem skeleton_iso_micro : ([-3, -2, -1, 0] : List Int).all skeletonOk = true :=
  all_skeletonOk_of_packed _ (by decide +kernel)

set_option maxRecDepth 100000 in
theorem skeleton_iso_v1_to_v6 : ([1, 2, 3, 4, 5, 6] : List Int).all skeletonOk = true :=
  all_skeletonOk_of_packed _ (by decide +kernel)

set_option maxRecDepth 100000 in
theorem skeleton_iso_v7_to_v10 : ([7, 8, 9, 10] : List Int).all skeletonOk = true :=
  all_skeletonOk_of_packed _ (by decide +kernel)

end Props.C02

#print axioms Props.C02.calcFormatInfo_qr
#print axioms Props.C02.calcFormatInfo_micro
#print axioms Props.C02.format_written_qr
#print axioms Props.C02.format_written_micro
#print axioms Props.C02.format_info_touches_only_format_cells
#print axioms Props.C02.version_written
#print axioms Props.C02.version_info_noop
#print axioms Props.C02.skeleton_iso_micro
#print axioms Props.C02.skeleton_iso_v1_to_v6
#print axioms Props.C02.skeleton_iso_v7_to_v10
