/-
  C10 — the JUDGE accepts the document the MODEL emits (reader ∘ writer = identity at the level of Lean definitions).
  Property theorems only; the layers live in Proofs/VectorAccept*.lean (Mathlib-free):
    token level  — `svgPath_svgTokens` (decimal parsing of the printed integers and halves, grouping, interpreter loop),
    geometry     — `strokeRects_subsOf`, `snap_scaled`, `gridSegs_lines` (exact rationals, s > 0),
    coverage     — `checkCoverage_ok`, `model_cover` (from `runs_cover` / `raster_row` / `runs_maximal` ingredients).
-/
import Props.C10
import Proofs.VectorAcceptEps

namespace Props.C10
open Model.Lines Spec.Vector Proofs.Lines Proofs.VectorAccept

/-- token level (SVG): the judge's path interpreter, reading the strings the model prints, computes exactly the
    absolute runs of the model (as horizontal two-point subpaths under the document's transform) -/
theorem judge_reads_model_svg_tokens (xf : Xf) (m : List (List Nat)) (b : Nat) :
    Spec.Vector.svgPath xf (Model.Lines.svgPath m b)
      = .ok (subsOf xf (toInt (matrixToLines m b (2 * (b : Int) + 1) 2))) := by
  unfold Model.Lines.svgPath
  rw [svgPath_svgTokens, rel_abs_svg]

/-- `judge_accepts_model_svg`, with the segments the judge reports made explicit: per matrix row the model's
    non-empty runs, at grid row `border + i` -/
theorem judge_accepts_model_svg_segs (m : List (List Nat)) (b : Nat) (s : Rat) (hs : 0 < s)
    (hsq : ∀ row ∈ m, row.length = m.length) :
    (do
      let subs ← Spec.Vector.svgPath { sx := s, sy := s } (Model.Lines.svgPath m b)
      let rs ← strokeRects (s / 2) subs
      let black : Color := { r := 0, g := 0, b := 0 }
      let P : Rat := ((m.length + 2 * b : Nat) : Rat) * s
      judgePaints { m := m, size := m.length, b := b, s := s, dark := some black, light := none }
        (some (P, P)) false 0 0 [Paint.stroke rs black]) = Except.ok (segsFrom b (rowsGo b 1 m)) := by
  rw [judge_reads_model_svg_tokens]
  simp only [bind, Except.bind]
  rw [strokeRects_subsOf]
  simp only []
  have e : matrixToLines m b (2 * (b : Int) + 1) 2 = attach 2 (2 * (b : Int) - 1) (rowsGo b 1 m) := by
    have := linesGo_rows b 2 m (2 * (b : Int) + 1 - 2) 1
    have e2 : (2 * (b : Int) + 1 - 2) = 2 * (b : Int) - 1 := by omega
    unfold matrixToLines; rw [e2] at this ⊢; exact this
  rw [e]
  exact judgePaints_model m b s hs hsq

/-- THE FULL STATEMENT of C10 (was open in Props/C10.lean): the judge accepts the model's SVG document of every
    symbol-shaped matrix, every border and every positive rational scale. -/
theorem judge_accepts_model_svg_proved : judge_accepts_model_svg := by
  intro m b s hs _ hm
  exact ⟨_, judge_accepts_model_svg_segs m b s hs (fun row hr => (hm row hr).1)⟩

example : ∃ segs,
    (do
      let subs ← Spec.Vector.svgPath { sx := 3 / 2, sy := 3 / 2 } (Model.Lines.svgPath [[1, 0], [0, 1]] 1)
      let rs ← strokeRects ((3 / 2 : Rat) / 2) subs
      let black : Color := { r := 0, g := 0, b := 0 }
      let P : Rat := ((2 + 2 * 1 : Nat) : Rat) * (3 / 2)
      judgePaints { m := [[1, 0], [0, 1]], size := 2, b := 1, s := 3 / 2, dark := some black, light := none }
        (some (P, P)) false 0 0 [Paint.stroke rs black]) = Except.ok segs :=
  judge_accepts_model_svg_proved [[1, 0], [0, 1]] 1 (3 / 2) (by decide +kernel) (by decide) (by decide)

/-! ### PDF -/

/-- the judge accepts the model's PDF content stream (scale ≠ 1: the scale matrix `s 0 0 s 0 0 cm` precedes the
    operators of `Model.Lines.pdfOps`; `st` is any decimal text of the scale, Python's float formatting is not modelled):
    `pdfRun` interprets the operators (`cm`, `m`, `l`, `S`, numbers through `parseDecimal`), the stroked rectangles snap
    to the y-up module grid of the page, every dark module is covered exactly once, no light one. -/
def judge_accepts_model_pdf : Prop :=
  ∀ (m : List (List Nat)) (b : Nat) (s : Rat) (st : String), 0 < s → num? st = some s → m ≠ [] →
    (∀ row ∈ m, row.length = m.length ∧ ∀ c ∈ row, c ≤ 1) →
    ∃ segs,
      (do
        let paints ← pdfRun ([st, "0", "0", st, "0", "0", "cm"] ++ Model.Lines.pdfOps m b)
        let black : Color := { r := 0, g := 0, b := 0 }
        let P : Rat := ((m.length + 2 * b : Nat) : Rat) * s
        judgePaints { m := m, size := m.length, b := b, s := s, dark := some black, light := none }
          (some (P, P)) true P 0 paints) = Except.ok segs

theorem judge_accepts_model_pdf_proved : judge_accepts_model_pdf := by
  intro m b s st hs hst _ hm
  exact ⟨_, pdfRun_model_scaled m b s st hs hst (fun row hr => (hm row hr).1)⟩

/-- the same at scale 1, where `write_pdf` writes no scale matrix -/
def judge_accepts_model_pdf_scale1 : Prop :=
  ∀ (m : List (List Nat)) (b : Nat), m ≠ [] → (∀ row ∈ m, row.length = m.length ∧ ∀ c ∈ row, c ≤ 1) →
    ∃ segs,
      (do
        let paints ← pdfRun (Model.Lines.pdfOps m b)
        let black : Color := { r := 0, g := 0, b := 0 }
        let P : Rat := ((m.length + 2 * b : Nat) : Rat) * 1
        judgePaints { m := m, size := m.length, b := b, s := 1, dark := some black, light := none }
          (some (P, P)) true P 0 paints) = Except.ok segs

theorem judge_accepts_model_pdf_scale1_proved : judge_accepts_model_pdf_scale1 := by
  intro m b _ hm
  exact ⟨_, pdfRun_model_unscaled m b (fun row hr => (hm row hr).1)⟩

example : num? "3.3" = some (33 / 10 : Rat) := by decide +kernel

/-! ### EPS -/

/-- the judge accepts the model's EPS program: prolog (`/m { rmoveto } bind def`, `/l { rlineto } bind def`),
    `s s scale`, `newpath`, the tokens of `Model.Lines.epsPath`, `stroke`.  Needs a dark module in the first row (true
    for every symbol: finder pattern), because `write_eps` takes the first relative move from the initial y
    (see `rel_abs_eps`). -/
def judge_accepts_model_eps : Prop :=
  ∀ (row : List Nat) (rest : List (List Nat)) (b : Nat) (s : Rat) (st : String), 0 < s → num? st = some s →
    (∀ r ∈ row :: rest, r.length = (row :: rest).length ∧ ∀ c ∈ r, c ≤ 1) → (∃ c ∈ row, c ≠ 0) →
    ∃ toks segs, Model.Lines.epsPath (row :: rest) b = some toks ∧
      (do
        let paints ← psRun (["/m", "{", "rmoveto", "}", "bind", "def", "/l", "{", "rlineto", "}", "bind", "def"]
          ++ [st, st, "scale", "newpath"] ++ toks ++ ["stroke"])
        let black : Color := { r := 0, g := 0, b := 0 }
        let P : Rat := (((row :: rest).length + 2 * b : Nat) : Rat) * s
        judgePaints { m := row :: rest, size := (row :: rest).length, b := b, s := s, dark := some black, light := none }
          (some (P, P)) true P 0 paints) = Except.ok segs

theorem judge_accepts_model_eps_proved : judge_accepts_model_eps := by
  intro row rest b s st hs hst hm hdark
  obtain ⟨x1, x2, tail, hL, habs⟩ := rel_abs_eps row rest b (2 * (((row :: rest).length : Int) + (b : Int)) - 1) hdark
  obtain ⟨toks, h1, h2⟩ := eps_accept (row :: rest) b s hs (fun r hr => (hm r hr).1) [st, st, "scale"]
    (eps_pre_exp st s hst) (eps_pre_slash st s hst) (eps_pre_run st s hst) x1 x2 tail hL habs
  refine ⟨toks, segsFrom b (rowsGo b 1 (row :: rest)), h1, ?_⟩
  have e : ["/m", "{", "rmoveto", "}", "bind", "def", "/l", "{", "rlineto", "}", "bind", "def"]
      ++ [st, st, "scale", "newpath"] ++ toks ++ ["stroke"] = prolog ++ epsBody [st, st, "scale"] toks := by
    simp [prolog, epsBody]
  rw [e]; exact h2

/-- the same at scale 1, where `write_eps` writes no `scale` -/
def judge_accepts_model_eps_scale1 : Prop :=
  ∀ (row : List Nat) (rest : List (List Nat)) (b : Nat),
    (∀ r ∈ row :: rest, r.length = (row :: rest).length ∧ ∀ c ∈ r, c ≤ 1) → (∃ c ∈ row, c ≠ 0) →
    ∃ toks segs, Model.Lines.epsPath (row :: rest) b = some toks ∧
      (do
        let paints ← psRun (["/m", "{", "rmoveto", "}", "bind", "def", "/l", "{", "rlineto", "}", "bind", "def"]
          ++ ["newpath"] ++ toks ++ ["stroke"])
        let black : Color := { r := 0, g := 0, b := 0 }
        let P : Rat := (((row :: rest).length + 2 * b : Nat) : Rat) * 1
        judgePaints { m := row :: rest, size := (row :: rest).length, b := b, s := 1, dark := some black, light := none }
          (some (P, P)) true P 0 paints) = Except.ok segs

theorem judge_accepts_model_eps_scale1_proved : judge_accepts_model_eps_scale1 := by
  intro row rest b hm hdark
  obtain ⟨x1, x2, tail, hL, habs⟩ := rel_abs_eps row rest b (2 * (((row :: rest).length : Int) + (b : Int)) - 1) hdark
  obtain ⟨toks, h1, h2⟩ := eps_accept (row :: rest) b 1 (by decide +kernel) (fun r hr => (hm r hr).1) []
    rfl (fun _ h => by cases h) eps_nopre_run x1 x2 tail hL habs
  refine ⟨toks, segsFrom b (rowsGo b 1 (row :: rest)), h1, ?_⟩
  have e : ["/m", "{", "rmoveto", "}", "bind", "def", "/l", "{", "rlineto", "}", "bind", "def"]
      ++ ["newpath"] ++ toks ++ ["stroke"] = prolog ++ epsBody [] toks := by
    simp [prolog, epsBody]
  rw [e]; exact h2

example : ∃ c ∈ [1, 1, 1, 0, 1], c ≠ 0 := ⟨1, by simp, by decide⟩

end Props.C10
