/-
  C04 — smallest fitting symbol is chosen; overflow is reported, never truncated.
  C05 — (in Props/C05.lean) error level never below the request; boosting keeps the version.
  Property theorems only; helper lemmas live in Proofs/Sizing.lean.
-/
import Spec.Sizing
import Model.Encoder
import Proofs.Sizing

namespace Props.C04

/-- what the specification sees of a model segment -/
def info (eci : Bool) (s : Model.Segment) : Spec.SegInfo :=
  { mode := s.mode, count := s.charCount,
    eci := eci && s.mode == 4 && s.encoding != some "iso-8859-1" }

/-- well-formed segment: a known mode and exactly the ISO number of payload bits for its character count -/
def WF (s : Model.Segment) : Prop :=
  s.mode ∈ [1, 2, 4, 8, 13] ∧ s.bits.length = Spec.payloadBits s.mode s.charCount

/-- `make_segment` only produces well-formed segments (ISO 7.4.3–7.4.6 bit counts:
    10·⌊n/3⌋+{0,4,7}, 11·⌊n/2⌋+{0,6}, 8n, 13n) -/
theorem makeSegment_wf (data : List Nat) (mode : Option Nat) (enc : String) (s : Model.Segment)
    (hm : mode ∈ [none, some 1, some 2, some 4, some 8, some 13])
    (h : Model.makeSegment data mode enc = .ok s) : WF s := by
  exact Proofs.Sizing.makeSegment_wf data mode enc s hm h

/-- merging parts (`Segments.add_segment`) keeps every segment well-formed — this is where the
    group-boundary condition of the merge is needed -/
theorem addSegment_wf (segs : List Model.Segment) (s : Model.Segment)
    (h1 : ∀ x ∈ segs, WF x) (h2 : WF s) : ∀ x ∈ Model.addSegment segs s, WF x := by
  exact Proofs.Sizing.addSegment_wf segs s h1 h2

theorem prepareData_wf (parts : List Model.Part) (segs : List Model.Segment)
    (hm : ∀ p ∈ parts, p.mode ∈ [none, some 1, some 2, some 4, some 8, some 13])
    (h : Model.prepareData parts = .ok segs) : ∀ x ∈ segs, WF x := by
  exact Proofs.Sizing.prepareData_wf parts segs hm h

/-- the model's bit length (mode indicators, character count indicators, ECI headers, Hanzi subset
    indicators, Structured Append header, payload) is the ISO bit count of the specification -/
theorem bitLength_eq_needed (segs : List Model.Segment) (v : Int) (eci sa : Bool)
    (hwf : ∀ x ∈ segs, WF x) (h1 : -3 ≤ v) (h2 : v ≤ 40) :
    Model.bitLengthWithOverhead segs v eci sa = Spec.neededBits v (segs.map (info eci)) sa := by
  exact Proofs.Sizing.bitLength_eq_needed segs v eci sa hwf h1 h2

/-- **first fit**: `find_version` returns the first admissible version (order M1 < … < M4 < 1 < … < 40)
    whose capacity at the requested level (default L) holds the content, and raises
    DataOverflowError exactly when no admissible version fits.  (`encode` maps eci ∧ micro = None to
    micro = False before calling it: hypothesis `hE`.) -/
theorem findVersion_is_first_fit (segs : List Model.Segment) (error : Option Nat) (eci : Bool)
    (micro : Option Bool) (sa : Bool)
    (hwf : ∀ x ∈ segs, WF x) (hne : segs ≠ [])
    (herr : error ∈ [none, some 0, some 1, some 2, some 3])
    (hE : eci = true → micro = some false) :
    Model.findVersion segs error eci micro sa =
      match Spec.expectedVersion micro eci error (segs.map (info eci)) sa with
      | some v => .ok v
      | none => .error Model.PyErr.dataOverflow := by
  exact Proofs.Sizing.findVersion_is_first_fit segs error eci micro sa hwf hne hE

/-- **never truncated**: whenever `encode` returns a symbol, the content bits (with all headers) are
    within the capacity of the returned version and level.
    NOTE: this proof obligation exposed a real defect of the pinned code: `encode` only compared the
    requested version with the guessed (minimal) one, but content that fits version g need not fit a
    requested version v > g (character count indicators grow per segment; witness: 97 one-character
    parts alternating byte / numeric, error L, version 10: 2332 bits > capacity 2192, silently
    truncated).  The statement is provable only with the repaired `encode` (capacity check for
    `v != guessed`). -/
theorem encode_never_truncates (parts : List Model.Part) (error : Option Nat) (version : Option Int)
    (mode : Option Nat) (mask : Option Nat) (eci : Bool) (micro : Option Bool) (boost : Bool)
    (eciNumber : String → Option Nat) (c : Model.Code)
    (h : Model.encode parts error version mode mask eci micro boost eciNumber = .ok c) :
    ∃ need cap, Model.bitLengthWithOverhead c.segments c.version eci false = some need
      ∧ Model.capacity c.version c.error = some cap ∧ need ≤ cap := by
  exact Proofs.Sizing.encode_never_truncates parts error version mode mask eci micro boost eciNumber c h

/-- **requested version**: with `version = some v` the result has exactly version `v` -/
theorem encode_requested_version (parts : List Model.Part) (error : Option Nat) (v : Int)
    (mode : Option Nat) (mask : Option Nat) (eci : Bool) (micro : Option Bool) (boost : Bool)
    (eciNumber : String → Option Nat) (c : Model.Code)
    (h : Model.encode parts error (some v) mode mask eci micro boost eciNumber = .ok c) :
    c.version = v := by
  exact Proofs.Sizing.encode_requested_version parts error v mode mask eci micro boost eciNumber c h

/-- Table 3 as segno holds it = frozen ISO copy (so `cciLen` and `Spec.cciBits` agree) -/
theorem cci_table_is_iso : Gen.CHAR_COUNT_INDICATOR_LENGTH = Spec.cciTable := by
  exact Proofs.Sizing.cci_table_eq

end Props.C04

#print axioms Props.C04.makeSegment_wf
#print axioms Props.C04.addSegment_wf
#print axioms Props.C04.prepareData_wf
#print axioms Props.C04.bitLength_eq_needed
#print axioms Props.C04.findVersion_is_first_fit
#print axioms Props.C04.encode_never_truncates
#print axioms Props.C04.encode_requested_version
#print axioms Props.C04.cci_table_is_iso
