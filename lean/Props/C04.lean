-- placeholder, theorems follow
import Spec.Decode
namespace Props.C04
theorem placeholder : True := trivial
end Props.C04
