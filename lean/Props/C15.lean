/-
  C15 — encoding is pure: deterministic, history-free, thread-safe, idempotent.
  Property theorems only.  PROOF part: `reencode_idempotent` (about the model), `effects_empty`
  (kernel check of the static effect summary regenerated from the repository on every run),
  `judge_ok_iff_pure` (the judge's verdict is `ok` exactly when the observed history satisfies the
  property as defined in Spec/Purity.lean).  The runtime claim about the implementation (every call of
  every history / schedule returns what the stateless reference returns) is EXPLORED by
  harness/p_purity.py, not proved: thread interleavings cannot be exhibited by a theorem.
-/
import Gen.Effects
import Spec.Purity
import Proofs.Purity
import Proofs.Idempotent

namespace Props.C15
open Spec.Purity

/-- Re-encoding the same content while explicitly requesting the version, error level and mask the
    first call chose (boosting disabled, same `micro`) succeeds and reproduces the identical symbol.
    Unbounded: every content, every option combination.
    Hypothesis `hmode` excludes exactly finding D26: a *global* mode is checked against the version only
    when a version is requested, so with an automatically chosen (Micro) version the first call may
    succeed where the explicit one is refused.  (It holds whenever no global mode is given, or a
    version was requested, or the global mode is available in the chosen version.) -/
theorem reencode_idempotent
    (parts : List Model.Part) (error : Option Nat) (version : Option Int) (mode : Option Nat) (mask : Option Nat)
    (eci : Bool) (micro : Option Bool) (boost : Bool) (n : String → Option Nat) (c : Model.Code)
    (h : Model.encode parts error version mode mask eci micro boost n = .ok c)
    (hmode : mode = none ∨ version.isSome = true ∨ ∃ md, mode = some md ∧ Model.isModeSupported md c.version = some true) :
    ∃ c', Model.encode parts c.error (some c.version) mode (some c.mask) eci micro false n = .ok c'
          ∧ c'.matrix = c.matrix ∧ c'.version = c.version ∧ c'.error = c.error ∧ c'.mask = c.mask :=
  Proofs.Idempotent.reencode_idempotent_core parts error version mode mask eci micro boost n c h hmode

/-- the statement without the D26 hypothesis (kept visible; it fails for the model and for the code:
    `make([('20', 1)], mode='alphanumeric')` gives M1, the explicit re-encode is refused) -/
def ReencodeIdempotentUnconditional : Prop :=
  ∀ (parts : List Model.Part) (error : Option Nat) (version : Option Int) (mode : Option Nat) (mask : Option Nat)
    (eci : Bool) (micro : Option Bool) (boost : Bool) (n : String → Option Nat) (c : Model.Code),
    Model.encode parts error version mode mask eci micro boost n = .ok c →
    ∃ c', Model.encode parts c.error (some c.version) mode (some c.mask) eci micro false n = .ok c' ∧ c'.matrix = c.matrix

/-- non-vacuity: the hypotheses are satisfiable — '12' is encoded as an M1 symbol with the automatically
    chosen mask 2 (kernel evaluation of the whole model) -/
example : ((Model.encode [{ data := [49, 50], mode := none, encoding := "iso-8859-1" }] none none none none false none true
    (fun _ => none)).toOption.map (fun c => (c.version, c.error, c.mask))) = some (-3, none, 2) := by decide +kernel

/-- kernel-checked witness of D26 in the model: the automatic call succeeds with version M1, the explicit one is refused -/
example : ((Model.encode [{ data := [50, 48], mode := some 1, encoding := "iso-8859-1" }] none none (some 2) none false none true
      (fun _ => none)).toOption.map (fun c => (c.version, c.error, c.mask))) = some (-3, none, 3)
    ∧ (Model.encode [{ data := [50, 48], mode := some 1, encoding := "iso-8859-1" }] none (some (-3)) (some 2) (some 3) false none false
      (fun _ => none)).toOption.isNone = true := by decide +kernel

/-- No function of the seven modules stores to or mutates module-level state, none is decorated
    with a functools cache, none contains a `global` statement. -/
theorem effects_empty :
    Gen.Effects.functions.all (fun f => f.2.2.1.isEmpty && !f.2.2.2.1 && !f.2.2.2.2) = true := by
  decide +kernel

/-- non-vacuity: the summary covers the functions of all seven modules (at least 150 of them),
    and the modules do own mutable module-level tables that a function could have written -/
example : Gen.Effects.functions.length ≥ 150 ∧ Gen.Effects.mutableObjects.length = 7
    ∧ ((Gen.Effects.mutableObjects.map (fun m => m.2.length)).foldl (· + ·) 0) ≥ 20 := by decide +kernel

/-- the judge's verdict on an observed history is `ok` exactly when the history satisfies C15 as
    defined in Spec/Purity.lean (observed = stateless reference, no snapshot changed, every
    re-encoded symbol identical) -/
theorem judge_ok_iff_pure (h : Spec.Purity.History) : Spec.Purity.verdict h = .ok ↔ h.pure = true := by
  unfold verdict History.pure History.deterministic History.stateUnchanged History.idempotent
  by_cases hl : h.observed.length = h.expected.length
  · simp only [bne_iff_ne, ne_eq, hl, not_true_eq_false, ↓reduceIte]
    cases hd : firstDiff h.expected h.observed 0 with
    | some k =>
      have : ¬ (h.expected = h.observed) := by
        intro he; rw [(Proofs.Purity.firstDiff_none_iff _ _ _).2 he] at hd; cases hd
      have h2 : (h.observed == h.expected) = false := by
        simp; intro he; exact this he.symm
      simp [h2]
    | none =>
      have he := (Proofs.Purity.firstDiff_none_iff _ _ _).1 hd
      simp only [he, beq_self_eq_true, Bool.true_and]
      cases hs : h.snapshots.find? (fun s => s.2.1 != s.2.2) with
      | some s =>
        have := List.find?_some hs
        have hm := List.mem_of_find?_eq_some hs
        simp only [reduceCtorEq, false_iff, Bool.and_eq_true, not_and]
        intro hall
        rw [List.all_eq_true] at hall
        have := hall s hm
        simp_all
      | none =>
        rw [List.find?_eq_none] at hs
        have hall : h.snapshots.all (fun s => s.2.1 == s.2.2) = true := by
          rw [List.all_eq_true]; intro x hx; have := hs x hx; simpa using this
        simp only [hall, Bool.true_and]
        cases hr : h.reencoded.findIdx? (fun p => p.1 != p.2) with
        | some k =>
          simp only [reduceCtorEq, false_iff]
          intro hall2
          rw [List.all_eq_true] at hall2
          rw [List.findIdx?_eq_some_iff_getElem] at hr
          obtain ⟨hk, hne, _⟩ := hr
          have := hall2 _ (List.getElem_mem hk)
          simp_all
        | none =>
          rw [List.findIdx?_eq_none_iff] at hr
          simp only [true_iff]
          rw [List.all_eq_true]
          intro x hx
          have := hr x hx
          simpa using this
  · have : (h.observed == h.expected) = false := by
      simp; intro he; exact hl (by rw [he])
    simp [hl, this]

/-- non-vacuity: a history that satisfies the property and one that does not -/
example : Spec.Purity.verdict { expected := ["a", "b"], observed := ["a", "b"], snapshots := [("t", "1", "1")], reencoded := [("x", "x")] } = .ok
    ∧ Spec.Purity.verdict { expected := ["a", "b"], observed := ["a", "c"], snapshots := [], reencoded := [] } = .resultDiffers 1 := by
  decide

end Props.C15
