/-
  Tie A, fifth round — the COMPOSITION `segno.encoder._encode` IS what the source says now.

  `Gen/Funcs5.lean` holds the AST translation of `_encode` (tools/pytolean.py, `segno_specs5`): every step of it is a call of a
  translation of rounds 1 – 4 (`version_range`, `boost_error_level`, `write_segment` for every item of `segments`,
  `consts.SYMBOL_CAPACITY[version][error]`, `write_terminator`, `write_padding_bits`, `write_pad_codewords`,
  `make_final_message`, `calc_matrix_size`, `make_matrix` — also as the function matrix that `find_and_apply_best_mask` reads —,
  `add_finder_patterns`, `add_alignment_patterns`, `add_codewords`, `find_and_apply_best_mask`, `add_format_info`,
  `add_version_info`).  `encode_core_tie` composes the tie theorems of those rounds: for every argument tuple of the stated
  domain the translated `_encode` returns what `Model.encodeCore` returns (the same `Code`, the same exception).

  How the arguments enter: `segments` is read through `len(segments)`, `segments.modes`, `segments.bit_length`, the number of ECI
  indicators (round 2) and the list of its items (mode, encoding, char_count, bits, and the opaque read
  `get_eci_assignment_number(segment.encoding)`): `itemsOf` supplies the items from the model's segment list.  `sa_info` is the
  4-tuple (mode 3, number, total, parity) of `_StructuredAppendInfo`: `saI`.  The result `Code(matrix, version, error, mask,
  segments)` is the 4-tuple without the object `segments` (it is the caller's object, handed through): `codeI`.
-/
import Gen.Funcs5Check
import Proofs.TieA5Encode
import Proofs.TieA5Sq
import Proofs.EndToEndBlocks
import Proofs.Sequence
import Props.TieA
import Props.TieA2
import Props.TieA3
import Props.TieA4

set_option linter.unusedSimpArgs false
set_option linter.unusedVariables false

namespace Props.TieA5
open Gen.Py Proofs.TieA Proofs.TieA2 Proofs.TieA3 Proofs.TieA5 Model

/-- the items of `segments` as the translation reads them -/
def itemsOf (eciNumber : String → Option Nat) (segs : List Segment) : List Item :=
  segs.map (fun s => ((s.mode : Int), s.encoding, (s.charCount : Int), toI s.bits, eciM eciNumber s.encoding))

/-- `sa_info`: `_StructuredAppendInfo(number, total, parity)` is the tuple (MODE_STRUCTURED_APPEND, number, total, parity) -/
def saI (sa : Option (Nat × Nat × Nat)) : Option (Int × Int × Int × Int) :=
  sa.map (fun t => (((Gen.MODE_STRUCTURED_APPEND : Nat) : Int), (t.1 : Int), (t.2.1 : Int), (t.2.2 : Int)))

/-- a `Code` of the model as the translation returns it (without `segments`) -/
def codeI (c : Code) : Res := (mI c.matrix, c.version, c.error.map Int.ofNat, (c.mask : Int))

/-- one step of the composition: a translated call that is tied to a model step, followed by the rest -/
theorem stage {α β γ δ : Type} {x : M α} {y : R β} {f : β → α} {k : α → M γ} {k' : β → R δ} {g : δ → γ}
    (hx : toR x = y.map f) (hk : ∀ b, y = .ok b → toR (k (f b)) = (k' b).map g) :
    toR (Gen.Py.bind x k) = (y >>= k').map g := by
  cases x with
  | error ex =>
    cases y with
    | error e => simpa [toR, Except.map, Except.mapError, Bind.bind, Except.bind] using hx
    | ok b => cases hx
  | ok a =>
    cases y with
    | error e => cases hx
    | ok b =>
      have ha : a = f b := by simpa [toR, Except.map, Except.mapError] using hx
      subst ha
      exact hk b rfl

/-! ## the stages -/

/-- `ver` / `ver_range` as `_encode` computes them (`version_range` raises above 40) -/
theorem range_stage (v : Int) (hv : v ≤ 40) : rangePy v = .ok (verArg v, verRangeOf v) := by
  unfold rangePy verArg verRangeOf
  by_cases h : v < 1
  · simp [h]
  · have h0 : Gen.version_range v ≠ 0 := by
      unfold Gen.version_range
      split_ifs <;> simp_all <;> omega
    simp only [h, if_false]
    rw [Props.TieA.version_range_tie, if_neg h0]
    rfl

/-- `if boost_error: error = boost_error_level(…)` -/
theorem boost_stage (segs : List Segment) (v : Int) (hv : v ≤ 40) (e : Option Nat) (eci boost isSa : Bool) :
    toR (boostPy boost v (e.map Int.ofNat) (Int.ofNat segs.length) (nEci segs) (modesOf segs) (bitLen segs) eci isSa)
      = (if boost then Model.boostErrorLevel v e segs eci isSa else pure e).map (Option.map Int.ofNat) := by
  unfold boostPy
  cases boost
  · rfl
  · exact Props.TieA2.boost_error_level_tie segs v hv e eci isSa

/-- the Structured Append header -/
theorem header_stage (sa : Option (Nat × Nat × Nat)) : headerPy (saI sa) [] = toI (saHeader sa) := by
  cases sa with
  | none => rfl
  | some t =>
    obtain ⟨a, b, c⟩ := t
    have e3 : Gen.Py.appendBits (((Gen.MODE_STRUCTURED_APPEND : Nat) : Int)) (4 : Int) = toI (Model.appendBits Gen.MODE_STRUCTURED_APPEND 4) :=
      appendBits_lit _ 4 _ _ rfl rfl
    have ea : Gen.Py.appendBits (a : Int) (4 : Int) = toI (Model.appendBits a 4) := appendBits_lit a 4 _ _ rfl rfl
    have eb : Gen.Py.appendBits (b : Int) (4 : Int) = toI (Model.appendBits b 4) := appendBits_lit b 4 _ _ rfl rfl
    have ec : Gen.Py.appendBits (c : Int) (8 : Int) = toI (Model.appendBits c 8) := appendBits_lit c 8 _ _ rfl rfl
    have hs : ∀ (x0 x1 x2 x3 : Int), Gen.Py.slice [x0, x1, x2, x3] none (some (3 : Int)) = [x0, x1, x2] := fun _ _ _ _ => rfl
    simp only [headerPy, saI, saHeader, Option.map_some, hs, List.foldl_cons, List.foldl_nil, List.nil_append, e3, ea, eb, ec,
      toI_append]

/-- `for segment in segments: write_segment(buff, segment, ver, ver_range, eci)` -/
theorem segments_stage (eciNumber : String → Option Nat) (v : Int) (eci : Bool) (segs : List Segment) :
    ∀ acc : List Nat, toR (segmentsPy (itemsOf eciNumber segs) (verArg v) (verRangeOf v) eci (toI acc))
      = (segs.mapM (fun s => Model.writeSegment s v eci eciNumber)).map (fun bs => toI (acc ++ bs.flatten)) := by
  unfold segmentsPy itemsOf
  induction segs with
  | nil => intro acc; simp [Except.map, Pure.pure, Except.pure, Gen.Py.foldlM]
  | cons s t ih =>
    intro acc
    have h := Props.TieA3.write_segment_tie acc s v eci eciNumber
    rw [List.map_cons, foldlM_cons, List.mapM_cons]
    simp only []
    cases hb : Gen.Funcs3.write_segment (toI acc) s.mode s.encoding s.charCount (toI s.bits) (verArg v) (verRangeOf v) eci
        (eciM eciNumber s.encoding) with
    | error e =>
      rw [hb] at h
      cases hs : Model.writeSegment s v eci eciNumber with
      | error e' => rw [hs] at h; simpa [toR, Except.map, Except.mapError, Bind.bind, Except.bind] using h
      | ok bs => rw [hs] at h; cases h
    | ok w =>
      rw [hb] at h
      cases hs : Model.writeSegment s v eci eciNumber with
      | error e' => rw [hs] at h; cases h
      | ok bs =>
        rw [hs] at h
        have hw : w = toI (acc ++ bs) := by simpa [toR, Except.map, Except.mapError] using h
        subst hw
        simp only []
        rw [ih (acc ++ bs)]
        cases List.mapM (fun s => Model.writeSegment s v eci eciNumber) t <;>
          simp [Except.map, Bind.bind, Except.bind, Pure.pure, Except.pure, List.append_assoc]

/-- terminator, padding bits, pad codewords -/
theorem finish_stage (buff : List Nat) (v : Int) (cap : Nat) :
    toR (finishPy (toI buff) v (verArg v) (Int.ofNat cap)) = (Model.finishStream buff v cap).map toI :=
  Props.TieA2.finish_stream_tie buff v cap

/-- the symbol sizes: 11 … 17 and 21 … 177, odd, as the ties of the matrix functions need them -/
theorem size_facts (v : Int) (h1 : -3 ≤ v) (h2 : v ≤ 40) :
    Gen.Funcs.calc_matrix_size v = (((Gen.calc_matrix_size v).toNat : Nat) : Int)
      ∧ 11 ≤ (Gen.calc_matrix_size v).toNat ∧ (Gen.calc_matrix_size v).toNat % 2 = 1
      ∧ ((Gen.calc_matrix_size v).toNat < 25 ∨ ((Gen.calc_matrix_size v).toNat % 4 = 1 ∧ (Gen.calc_matrix_size v).toNat ≤ 177)) := by
  rw [Props.TieA.calc_matrix_size_tie]
  unfold Gen.calc_matrix_size
  split_ifs <;> simp_all <;> omega

/-! ## the matrix part -/

/-- from `width = calc_matrix_size(version)` to `return Code(…)`, on the model side (the last lines of `Model.encodeCore`) -/
def matrixM (segs : List Segment) (v : Int) (e : Option Nat) (mask : Option Nat) (final : List Nat) : R Code :=
  addAlignmentPatterns (addFinderPatterns (makeMatrix (Gen.calc_matrix_size v).toNat) (Gen.calc_matrix_size v).toNat)
      (Gen.calc_matrix_size v).toNat >>= fun m0 =>
  addCodewords m0 final v >>= fun m1 =>
  findAndApplyBestMask m1 mask >>= fun r =>
  addFormatInfo r.2 v e r.1 >>= fun m3 =>
  addVersionInfo m3 v >>= fun m4 =>
  pure { matrix := m4, version := v, error := e, mask := r.1, segments := segs }

/-- the codewords fill the encoding region: after the placement no module is left undefined (value 2).  This is the side
    condition `hbits` of `find_and_apply_best_mask_tie` (the mask scores are those of the model only for matrices of 0 / 1). -/
def PlacedBinary (v : Int) (final : List Nat) : Prop :=
  ∀ m0 m1, addAlignmentPatterns (addFinderPatterns (makeMatrix (Gen.calc_matrix_size v).toNat) (Gen.calc_matrix_size v).toNat)
      (Gen.calc_matrix_size v).toNat = .ok m0 →
    addCodewords m0 final v = .ok m1 → ∀ i j, get2 m1 i j ≤ 1

/-- `make_matrix` … `add_version_info`, `Code(…)`: every version −3 … 40, every error level (or `None`), every proposed mask (or
    `None`), every final message that fills the encoding region -/
theorem matrix_stage (segs : List Segment) (v : Int) (h1 : -3 ≤ v) (h2 : v ≤ 40) (e : Option Nat) (mask : Option Nat) (final : List Nat)
    (hfill : PlacedBinary v final) :
    toR (matrixPy v (e.map Int.ofNat) (mask.map Int.ofNat) (toI final)) = (matrixM segs v e mask final).map codeI := by
  obtain ⟨hsz, hn11, hodd, hal⟩ := size_facts v h1 h2
  unfold matrixPy matrixM
  unfold PlacedBinary at hfill
  generalize hn : (Gen.calc_matrix_size v).toNat = n at *
  simp only [hsz]
  rw [Props.TieA4.make_matrix_tie n (by omega), bind_ok,
    Props.TieA2.add_finder_patterns_tie _ n (sq_makeMatrix n) (by omega), bind_ok]
  have sq0 := sq_addFinder n (sq_makeMatrix n)
  refine stage (Props.TieA2.add_alignment_patterns_tie _ n sq0 hal) (fun m0 hm0 => ?_)
  have sqm0 := sq_addAlignment n sq0 hm0
  refine stage (Props.TieA3.add_codewords_tie m0 final v n sqm0 hodd) (fun m1 hm1 => ?_)
  have sqm1 := sq_addCodewords final v sqm0 hm1
  rw [bind_ok]
  refine stage (Props.TieA3.find_and_apply_best_mask_tie m1 n sqm1 (by omega) hal (hfill m0 m1 hm0 hm1) mask) (fun r hr => ?_)
  have sqr := sq_findAndApplyBestMask mask r sqm1 hr
  dsimp only []
  rw [bind_ok]
  refine stage (Props.TieA2.add_format_info_tie r.2 n sqr (by omega) v e r.1) (fun m3 hm3 => ?_)
  have sqm3 := sq_addFormatInfo v e r.1 sqr hm3
  refine stage (Props.TieA2.add_version_info_tie m3 n sqm3 (by omega) v) (fun m4 hm4 => ?_)
  rfl

/-! ## the composition -/

/-- DOMAIN hypothesis of `encode_core_tie`: whenever the model gets as far as the final message, that message fills the encoding
    region of the symbol (see `PlacedBinary`).  True for what `encode` passes (the final message of a version has as many bits as
    the symbol has data modules: `Props.C01.data_cell_count`); not derived here. -/
def FillsRegion (segs : List Segment) (error : Option Nat) (v : Int) (eci boost : Bool) (eciNumber : String → Option Nat)
    (sa : Option (Nat × Nat × Nat)) : Prop :=
  ∀ e' segBits cap stream final,
    (if boost then boostErrorLevel v error segs eci sa.isSome else pure error) = .ok e' →
    segs.mapM (fun s => writeSegment s v eci eciNumber) = .ok segBits →
    capacity v e' = some cap →
    finishStream (saHeader sa ++ segBits.flatten) v cap = .ok stream →
    makeFinalMessage v e' stream = .ok final → PlacedBinary v final

/-- **`_encode` is `Model.encodeCore`.**  For every version number −3 … 40 (M1 … M4, 1 … 40), every error level number or `None`,
    every proposed mask number or `None`, both ECI and boost flags, with and without Structured Append information, every ECI
    table, and every segment list whose segments have a documented mode (1, 2, 4, 8, 13) and 0 / 1 bits (what `prepare_data`
    yields) and whose final message fills the symbol (`FillsRegion`): the translation of the CURRENT source of `_encode` returns
    the `Code` of the model — the same matrix, version, (boosted) error level and mask — or raises in the same case
    (exception classes as `Proofs.TieA.exc` maps them). -/
theorem encode_core_tie (segs : List Segment) (error : Option Nat) (v : Int) (mask : Option Nat) (eci boost : Bool)
    (eciNumber : String → Option Nat) (sa : Option (Nat × Nat × Nat))
    (h1 : -3 ≤ v) (h2 : v ≤ 40)
    (hsegs : ∀ s ∈ segs, s.mode ∈ [1, 2, 4, 8, 13] ∧ ∀ b ∈ s.bits, b ≤ 1)
    (hfill : FillsRegion segs error v eci boost eciNumber sa) :
    toR (Gen.Funcs5._encode (Int.ofNat segs.length) (nEci segs) (modesOf segs) (bitLen segs) (itemsOf eciNumber segs)
        (error.map Int.ofNat) v (mask.map Int.ofNat) eci boost (saI sa))
      = (Model.encodeCore segs error v mask eci boost eciNumber sa).map codeI := by
  rw [encode_factor, range_stage v h2, bind_ok, Proofs.Sequence.encodeCore_eq]
  have hsa : (!(saI sa).isNone) = sa.isSome := by cases sa <;> rfl
  rw [hsa]
  refine stage (boost_stage segs v h2 error eci boost sa.isSome) (fun e' he' => ?_)
  unfold tailPy
  dsimp only []
  rw [header_stage]
  refine stage (segments_stage eciNumber v eci segs (saHeader sa)) (fun segBits hsb => ?_)
  unfold encodeTail
  rw [show capacityPy v (e'.map Int.ofNat) = capLookup v (e'.map Int.ofNat) from rfl, capacity_lookup]
  cases hcap : capacity v e' with
  | none => rfl
  | some cap =>
    simp only [Option.map_some, ofOption_some, bind_ok]
    have hhead : Proofs.EndToEnd.Bin (saHeader sa) := by
      cases sa with
      | none => exact Proofs.EndToEnd.Bin_nil
      | some t =>
        obtain ⟨a, b, c⟩ := t
        exact Proofs.EndToEnd.Bin_append (Proofs.EndToEnd.Bin_append (Proofs.EndToEnd.Bin_append
          (Proofs.EndToEnd.Bin_appendBits _ _) (Proofs.EndToEnd.Bin_appendBits _ _)) (Proofs.EndToEnd.Bin_appendBits _ _))
          (Proofs.EndToEnd.Bin_appendBits _ _)
    have hbuff : Proofs.EndToEnd.Bin (saHeader sa ++ segBits.flatten) :=
      Proofs.EndToEnd.Bin_append hhead (Proofs.EndToEnd.Bin_written_all v eci eciNumber h1 h2 segs segBits hsegs hsb)
    refine stage (finish_stage _ v cap) (fun stream hst => ?_)
    have hstream := Proofs.EndToEnd.Bin_finish _ stream v cap h1 h2 hbuff hst
    refine stage (Props.TieA2.make_final_message_tie v e' stream hstream) (fun final hfin => ?_)
    exact matrix_stage segs v h1 h2 e' mask final (hfill e' segBits cap stream final he' hsb hcap hst hfin)

/-- (`Prop`, NOT proved) the statement without the hypothesis `FillsRegion`: what remains is to derive, from the lengths of the
    final message (`Props.C03.final_message_length`) and of the encoding region (`Props.C01.data_cell_count`), that the placement
    leaves no module undefined. -/
def encode_core_tie_statement : Prop :=
  ∀ (segs : List Segment) (error : Option Nat) (v : Int) (mask : Option Nat) (eci boost : Bool)
    (eciNumber : String → Option Nat) (sa : Option (Nat × Nat × Nat)),
    -3 ≤ v → v ≤ 40 → (∀ s ∈ segs, s.mode ∈ [1, 2, 4, 8, 13] ∧ ∀ b ∈ s.bits, b ≤ 1) →
    toR (Gen.Funcs5._encode (Int.ofNat segs.length) (nEci segs) (modesOf segs) (bitLen segs) (itemsOf eciNumber segs)
        (error.map Int.ofNat) v (mask.map Int.ofNat) eci boost (saI sa))
      = (Model.encodeCore segs error v mask eci boost eciNumber sa).map codeI

/-- the full statement follows from `FillsRegion` for all arguments -/
theorem encode_core_tie_of_fills : (∀ segs error v eci boost eciNumber sa, FillsRegion segs error v eci boost eciNumber sa) →
    encode_core_tie_statement :=
  fun h segs error v mask eci boost eciNumber sa h1 h2 hs =>
    encode_core_tie segs error v mask eci boost eciNumber sa h1 h2 hs (h segs error v eci boost eciNumber sa)

end Props.TieA5

#print axioms Props.TieA5.encode_core_tie
