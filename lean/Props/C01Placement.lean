/-
  C01/C02/C03 (placement layer) — the codeword bits are placed in the ISO zig-zag order into exactly
  the encoding region, masking touches only the encoding region, and the reference reader's
  `readDataBits` gets the final message back: for ALL 44 versions.
  Property theorems only; helper lemmas live in Proofs/Placement2.lean (generic part) and
  Proofs/Geometry*.lean (kernel-checked per-version facts).
-/
import Spec.Decode
import Model.Encoder
import Proofs.Placement2
import Proofs.Geometry

namespace Props.C01

/-- all 44 version constants -/
def allVersions : List Int := (List.range 44).map (fun k => Int.ofNat k - 3)

/-- the function matrix as rows (lists) -/
def fmRows (v : Int) : Option (List (List Nat)) :=
  match Model.functionMatrix (Spec.size v) with
  | .ok fm => some (fm.toList.map Array.toList)
  | .error _ => none

/-- expected skeleton rows from the ISO region predicates: fixed function modules have their ISO
    value, reserved format / version cells are light, the dark module is set, data cells hold 2 -/
def isoSkeletonRows (v : Int) : List (List Nat) :=
  let n := Spec.size v
  (List.range n).map (fun i => (List.range n).map (fun j =>
    match Spec.kind v i j with
    | .data => 2
    | .format => 0
    | .version => 0
    | .darkmodule => 1
    | _ => (Spec.fixedValue v i j).getD 9))

/-- **function patterns, all versions** (kernel-checked): make_matrix + add_finder_patterns +
    add_alignment_patterns (+ dark module) of the model = ISO skeleton, cell by cell -/
theorem skeleton_iso_all : allVersions.all (fun v => fmRows v == some (isoSkeletonRows v)) = true := by
  rw [List.all_eq_true]
  intro v hv
  obtain ⟨h1, h2⟩ := Proofs.Placement2.range_of_mem_allVersions v hv
  have h := Proofs.Placement2.functionMatrix_rows_all v h1 h2
  unfold fmRows
  cases hfm : Model.functionMatrix (Spec.size v) with
  | error e => rw [hfm] at h; cases h
  | ok fm =>
    rw [hfm] at h
    have h' : Proofs.Placement2.toRows fm = Proofs.Placement2.skelRows 1 v := Except.ok.inj h
    simp only [beq_iff_eq, Option.some.injEq]
    exact h'

/-- the unfiltered zig-zag walk of the reference reader -/
def zigzagAll (v : Int) : List (Nat × Nat) :=
  let n := Spec.size v
  ((Spec.stripColumns v).zipIdx.map (fun (c, k) =>
    let rows := if k % 2 == 0 then (List.range n).reverse else List.range n
    (rows.map (fun i => [(i, c), (i, c - 1)])).flatten)).flatten

/-- **placement order, all versions** (kernel-checked): `add_codewords` visits the modules in the ISO
    7.7.3 order (two-module strips from the right, alternately upwards and downwards, skipping the
    vertical timing column) -/
theorem placement_order_iso_all :
    allVersions.all (fun v => Model.codewordCoords (Spec.size v) v == zigzagAll v) = true := by
  rw [List.all_eq_true]
  intro v hv
  obtain ⟨h1, h2⟩ := Proofs.Placement2.range_of_mem_allVersions v hv
  exact beq_iff_eq.mpr (Proofs.Placement2.order_all v h1 h2)

/-- every module is visited exactly once, all versions (per version a linear kernel check that the strips
    cover all columns but the timing column; Nodup then follows structurally) -/
theorem placement_visits_each_cell_once (v : Int) (h1 : -3 ≤ v) (h2 : v ≤ 40) :
    (zigzagAll v).Nodup ∧ ∀ p ∈ zigzagAll v, p.1 < Spec.size v ∧ p.2 < Spec.size v := by
  exact Proofs.Placement2.visits_all v h1 h2

/-- number of modules of the encoding region = 8 · codewords (− 4 in M1/M3) + remainder bits (Table 9) -/
theorem data_cell_count (v : Int) (lvl : Int) (ecc : List (Nat × Nat × Nat)) (h1 : -3 ≤ v) (h2 : v ≤ 40)
    (hecc : Spec.eccOf v lvl = some ecc) :
    (Spec.dataCoords v).length + (if Spec.fourBitFinal v then 4 else 0)
      = 8 * (ecc.map (fun b => b.1 * b.2.1)).foldl (· + ·) 0 + Spec.remainderBits v := by
  exact Proofs.Placement2.count_all v lvl ecc h1 h2 hecc

/-- **placement round trip**: for every version, every bit sequence that fills the encoding region,
    every mask pattern p (QR numbering, `mk` its number in the symbol's own numbering): after
    add_codewords into the skeleton and apply_mask, the reference reader's zig-zag read with
    unmasking returns exactly the bits — whatever is later written into format / version cells -/
theorem placement_roundtrip (v : Int) (bits : List Nat) (fm m0 m1 : Model.Matrix) (mk : Nat)
    (h1 : -3 ≤ v) (h2 : v ≤ 40) (hb : ∀ b ∈ bits, b ≤ 1)
    (hlen : bits.length = (Spec.dataCoords v).length)
    (hfm : Model.functionMatrix (Spec.size v) = .ok fm)
    (hm0 : Model.addAlignmentPatterns (Model.addFinderPatterns (Model.makeMatrix (Spec.size v)) (Spec.size v)) (Spec.size v) = .ok m0)
    (hm1 : Model.addCodewords m0 bits v = .ok m1)
    (hmk : mk < (Model.maskPatterns (decide (v < 1))).length) :
    Spec.readDataBits v mk (Model.applyMask m1 fm ((Model.maskPatterns (decide (v < 1))).getD mk 0)) = bits := by
  exact Proofs.Placement2.roundtrip_all v bits fm m0 m1 mk h1 h2 hb hlen hfm hm0 hm1 hmk

/-- reading is insensitive to what format / version information / dark module cells hold -/
theorem readDataBits_ignores_function_cells (v : Int) (mk : Nat) (a b : Model.Matrix)
    (h : ∀ i j, Spec.kind v i j = .data → Spec.cell a i j = Spec.cell b i j) :
    Spec.readDataBits v mk a = Spec.readDataBits v mk b := by
  exact Proofs.Placement2.readDataBits_congr v mk a b h

end Props.C01

#print axioms Props.C01.skeleton_iso_all
#print axioms Props.C01.placement_order_iso_all
#print axioms Props.C01.placement_visits_each_cell_once
#print axioms Props.C01.data_cell_count
#print axioms Props.C01.placement_roundtrip
#print axioms Props.C01.readDataBits_ignores_function_cells
