-- placeholder, theorems follow
import Spec.Decode
namespace Props.C13
theorem placeholder : True := trivial
end Props.C13
