/-
  C13 — the data bit stream is terminated and padded as ISO/IEC 18004 7.4.9 / 7.4.10 require.
  Property theorems only; helper lemmas live in Proofs/Stream.lean.
  `Model.finishStream` models write_terminator + write_padding_bits + write_pad_codewords,
  `Spec.isoTail` is the tail the standard prescribes, `Spec.d1Tail` the recorded deviation D1.
-/
import Spec.Decode
import Model.Encoder
import Proofs.Stream

namespace Props.C13

set_option linter.unusedVariables false

/-- `cap` is the Table 7 capacity of version `v` at some level -/
def CapOf (v : Int) (cap : Nat) : Prop := ∃ e : Option Nat, Model.capacity v e = some cap

/-- FULL STATEMENT (false on the pinned tree because of known finding D1, see `d1_witness`):
    whatever the segments are, the stream is segments ++ ISO tail. -/
def StreamLayout : Prop :=
  ∀ (v : Int) (cap : Nat) (buff s : List Nat), -3 ≤ v → v ≤ 40 → CapOf v cap → buff.length ≤ cap →
    Model.finishStream buff v cap = .ok s → s = buff ++ Spec.isoTail v cap buff.length

/-- STATEMENT AS ORIGINALLY GIVEN for the proved part — FALSE: `d1Trigger` is also false when the
    terminated stream is codeword-aligned and fills the capacity exactly (`l1 = cap`, not M1/M3); the
    model (= pinned code) then still appends 8 zero bits, so `s` is 8 bits longer than `cap`.
    Counterexample: v = 1, cap = 152 (1-L), buff = 152 bits (e.g. 17 bytes in byte mode + terminator):
    `finishStream` gives 160 bits, `isoTail 1 152 152 = []`; see `stream_layout_partial_counterexample`. -/
def StreamLayoutPartial : Prop :=
  ∀ (v : Int) (cap : Nat) (buff s : List Nat), -3 ≤ v → v ≤ 40 → CapOf v cap → buff.length ≤ cap →
    Spec.d1Trigger v cap buff.length = false →
    Model.finishStream buff v cap = .ok s → s = buff ++ Spec.isoTail v cap buff.length

theorem stream_layout_partial_counterexample : ¬ StreamLayoutPartial := by
  intro h
  have h' := h 1 152 (List.replicate 152 1) _ (by decide) (by decide) ⟨some 1, by decide +kernel⟩
    (by simp) (by decide +kernel)
    (Proofs.Stream.finish_qr (List.replicate 152 1) 1 152 (by decide) (by decide) rfl)
  have h'' := congrArg List.length h'
  rw [List.length_append, List.length_append, List.length_append, List.length_replicate,
    List.length_replicate, Proofs.Stream.padCodewords_length] at h''
  have h3 := Proofs.Stream.isoTail_length 1 152 152 (some 1) (by decide +kernel) (Nat.le_refl _)
  omega

/-- proved part (strongest true variant, exact equality): unless the symbol is not M1/M3 AND the
    terminated stream is codeword-aligned, the stream is exactly segments ++ ISO tail.
    (Given `hc`/`hl` the hypothesis `hal` is equivalent to: `d1Trigger = false` and not
    "not M1/M3 with terminated length = cap".) -/
theorem stream_layout_partial_partial (v : Int) (cap : Nat) (buff s : List Nat) (h1 : -3 ≤ v) (h2 : v ≤ 40)
    (hc : CapOf v cap) (hl : buff.length ≤ cap)
    (hal : Spec.fourBitFinal v = true ∨
      (buff.length + min (cap - buff.length) (Spec.terminatorLen v)) % 8 ≠ 0)
    (h : Model.finishStream buff v cap = .ok s) :
    s = buff ++ Spec.isoTail v cap buff.length := by
  obtain ⟨e, hc⟩ := hc
  rw [Proofs.Stream.finish_iso buff v cap e hc hl hal] at h
  exact (Except.ok.inj h).symm

/-- the hypothesis of `stream_layout_partial_partial` is also necessary: exact characterisation of
    when the pinned code follows ISO 7.4.9/7.4.10 bit for bit -/
theorem stream_layout_iff (v : Int) (cap : Nat) (buff s : List Nat) (h1 : -3 ≤ v) (h2 : v ≤ 40)
    (hc : CapOf v cap) (hl : buff.length ≤ cap) (h : Model.finishStream buff v cap = .ok s) :
    s = buff ++ Spec.isoTail v cap buff.length ↔
      (Spec.fourBitFinal v = true ∨
        (buff.length + min (cap - buff.length) (Spec.terminatorLen v)) % 8 ≠ 0) := by
  constructor
  · intro hs
    obtain ⟨e, hc⟩ := hc
    cases hf : Spec.fourBitFinal v with
    | true => exact Or.inl rfl
    | false =>
      refine Or.inr (fun hal => ?_)
      exact Proofs.Stream.finish_ne_iso buff v cap e hc hl hf hal (hs ▸ h)
  · intro hal
    exact stream_layout_partial_partial v cap buff s h1 h2 hc hl hal h

/-- proved part with the original hypothesis `hnot`: outside the D1 trigger the first `cap` bits of
    the stream (all that make_blocks uses) are segments ++ ISO tail -/
theorem stream_layout_partial_take (v : Int) (cap : Nat) (buff s : List Nat) (h1 : -3 ≤ v) (h2 : v ≤ 40)
    (hc : CapOf v cap) (hl : buff.length ≤ cap) (hnot : Spec.d1Trigger v cap buff.length = false)
    (h : Model.finishStream buff v cap = .ok s) :
    s.take cap = buff ++ Spec.isoTail v cap buff.length ∧ cap ≤ s.length := by
  obtain ⟨e, hc⟩ := hc
  have := Proofs.Stream.finish_take buff s v cap e hc hl h
  rwa [Proofs.Stream.d1Tail_eq_isoTail v cap _ hnot] at this

/-- on the D1 trigger the model (= pinned code) produces exactly the predicted deviation: one
    00000000 codeword before the pad codewords (first `cap` bits; later bits are dropped by make_blocks) -/
theorem stream_layout_d1 (v : Int) (cap : Nat) (buff s : List Nat) (h1 : -3 ≤ v) (h2 : v ≤ 40)
    (hc : CapOf v cap) (hl : buff.length ≤ cap) (h : Model.finishStream buff v cap = .ok s) :
    s.take cap = buff ++ Spec.d1Tail v cap buff.length ∧ cap ≤ s.length := by
  obtain ⟨e, hc⟩ := hc
  exact Proofs.Stream.finish_take buff s v cap e hc hl h

/-- `finishStream` never fails for a valid version -/
theorem finish_stream_total (v : Int) (cap : Nat) (buff : List Nat) (h1 : -3 ≤ v) (h2 : v ≤ 40) :
    ∃ s, Model.finishStream buff v cap = .ok s :=
  Proofs.Stream.finish_total v cap buff h1 h2

/-- the ISO tail fills the capacity exactly -/
theorem iso_tail_fills_capacity (v : Int) (cap len : Nat) (h1 : -3 ≤ v) (h2 : v ≤ 40) (hc : CapOf v cap)
    (hl : len ≤ cap) : len + (Spec.isoTail v cap len).length = cap := by
  obtain ⟨e, hc⟩ := hc
  exact Proofs.Stream.isoTail_length v cap len e hc hl

/-- the remainder bits table translated from make_final_message is the ISO one -/
theorem remainder_bits_iso (v : Int) (h1 : -3 ≤ v) (h2 : v ≤ 40) :
    Gen.remainder_bits v = (Spec.remainderBits v : Int) :=
  Proofs.Stream.remainder_bits v h1 h2

/-- the terminator lengths of `consts.TERMINATOR_LENGTH` are 4 (QR) and 3/5/7/9 (M1..M4) -/
theorem terminator_length_iso (v : Int) (h1 : -3 ≤ v) (h2 : v ≤ 40) :
    Model.terminatorLength v = some (Spec.terminatorLen v) :=
  Proofs.Stream.terminator_length v h1 h2

/-- general form of `d1_witness` (below): whenever the D1 trigger holds the stream deviates from ISO -/
theorem d1_deviates (v : Int) (cap : Nat) (buff : List Nat) (hc : CapOf v cap) (hl : buff.length ≤ cap)
    (ht : Spec.d1Trigger v cap buff.length = true) :
    Model.finishStream buff v cap ≠ .ok (buff ++ Spec.isoTail v cap buff.length) := by
  obtain ⟨e, hc⟩ := hc
  unfold Spec.d1Trigger at ht
  simp only [Bool.and_eq_true, Bool.not_eq_true', beq_iff_eq, decide_eq_true_eq] at ht
  exact Proofs.Stream.finish_ne_iso buff v cap e hc hl ht.1.1 ht.1.2

/-- kernel-checked witness that the full statement fails on the pinned tree (D1):
    12 bits of segments in M2-L (capacity 40): 12 + 5 terminator bits = 17 … not aligned; take 11 bits:
    11 + 5 = 16 aligned, ISO continues with 11101100, the code with 00000000 -/
theorem d1_witness :
    Spec.d1Trigger (-2) 40 11 = true ∧
    Model.finishStream (List.replicate 11 1) (-2) 40 ≠ .ok (List.replicate 11 1 ++ Spec.isoTail (-2) 40 11) := by
  exact ⟨by decide +kernel,
    d1_deviates (-2) 40 _ ⟨some 1, by decide +kernel⟩ (by simp) (by decide +kernel)⟩

end Props.C13

#print axioms Props.C13.stream_layout_partial_counterexample
#print axioms Props.C13.stream_layout_partial_partial
#print axioms Props.C13.stream_layout_iff
#print axioms Props.C13.stream_layout_partial_take
#print axioms Props.C13.stream_layout_d1
#print axioms Props.C13.finish_stream_total
#print axioms Props.C13.iso_tail_fills_capacity
#print axioms Props.C13.remainder_bits_iso
#print axioms Props.C13.terminator_length_iso
#print axioms Props.C13.d1_witness
#print axioms Props.C13.d1_deviates
