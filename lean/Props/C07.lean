-- placeholder, theorems follow
import Spec.Decode
namespace Props.C07
theorem placeholder : True := trivial
end Props.C07
