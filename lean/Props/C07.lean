/-
  C07 — most compact applicable mode is chosen; a requested mode is honoured or refused.
  Property theorems only; helper lemmas live in Proofs/Modes.lean.
-/
import Spec.Sizing
import Model.Encoder
import Proofs.Modes

namespace Props.C07

/-- the 45 alphanumeric characters of `consts.ALPHANUMERIC_CHARS` are the ISO Table 5 set, in order -/
theorem alnum_table_is_iso : Gen.ALPHANUMERIC_CHARS = Spec.alnumChars.map Char.toNat := by
  decide

/-- mode constants are the ISO mode indicators -/
theorem mode_constants :
    Gen.MODE_NUMERIC = 1 ∧ Gen.MODE_ALPHANUMERIC = 2 ∧ Gen.MODE_BYTE = 4 ∧ Gen.MODE_KANJI = 8 ∧ Gen.MODE_HANZI = 13 := by
  decide

/-- **automatic mode**: `find_mode` = first applicable of numeric, alphanumeric, kanji, byte, for every byte string -/
theorem findMode_eq_autoMode (data : List Nat) : Model.findMode data = Spec.autoMode data := by
  exact Proofs.Modes.findMode_eq_autoMode data

/-- hanzi is never chosen automatically -/
theorem auto_never_hanzi (data : List Nat) : Model.findMode data ≠ 13 := by
  exact Proofs.Modes.auto_never_hanzi data

/-- without a requested mode `make_segment` succeeds and uses the automatic mode -/
theorem makeSegment_auto (data : List Nat) (enc : String) :
    ∃ s, Model.makeSegment data none enc = .ok s ∧ s.mode = Spec.autoMode data := by
  exact Proofs.Modes.makeSegment_auto data enc

/-- **requested mode**: honoured exactly when the content is representable in it, refused with
    ValueError otherwise (m ∈ {numeric, alphanumeric, byte, kanji, hanzi}) -/
theorem makeSegment_requested (data : List Nat) (m : Nat) (enc : String) (hm : m ∈ [1, 2, 4, 8, 13]) :
    (Spec.representable m data = true → ∃ s, Model.makeSegment data (some m) enc = .ok s ∧ s.mode = m)
    ∧ (Spec.representable m data = false → Model.makeSegment data (some m) enc = .error Model.PyErr.valueError) := by
  exact Proofs.Modes.makeSegment_requested data m enc hm

/-- empty content with kanji / hanzi requested gives an empty segment (vacuously representable) -/
theorem makeSegment_empty_double (enc : String) :
    Model.makeSegment [] (some 8) enc = .ok ⟨[], 0, 8, none⟩ ∧ Model.makeSegment [] (some 13) enc = .ok ⟨[], 0, 13, none⟩
    ∧ Spec.representable 8 [] = true ∧ Spec.representable 13 [] = true :=
  Proofs.Modes.makeSegment_empty_double enc

/-- character count of a segment -/
theorem makeSegment_charCount (data : List Nat) (mode : Option Nat) (enc : String) (s : Model.Segment)
    (h : Model.makeSegment data mode enc = .ok s) : s.charCount = Spec.charCount s.mode data.length := by
  exact Proofs.Modes.makeSegment_charCount data mode enc s h

/-- mode / version compatibility (`SUPPORTED_MODES`) is ISO Table 2: a mode is available in version v
    exactly when Table 3 has a character count indicator for it -/
theorem mode_supported_iff_cci :
    ([1, 2, 4, 8, 13] : List Nat).all (fun m => ([-3, -2, -1, 0, 1, 10, 27, 40] : List Int).all (fun v =>
      Model.isModeSupported m v == some (Spec.cciBits m v).isSome)) = true := by
  decide +kernel

end Props.C07

#print axioms Props.C07.alnum_table_is_iso
#print axioms Props.C07.mode_constants
#print axioms Props.C07.findMode_eq_autoMode
#print axioms Props.C07.auto_never_hanzi
#print axioms Props.C07.makeSegment_auto
#print axioms Props.C07.makeSegment_requested
#print axioms Props.C07.makeSegment_empty_double
#print axioms Props.C07.makeSegment_charCount
#print axioms Props.C07.mode_supported_iff_cci
