/-
  Tie A, fourth round — the function matrix IS what the source says now.

  `Gen/Funcs4.lean` is written by the AST translator (tools/pytolean.py, grammar: docs/TRANSLATOR.md, round 4) from the CURRENT
  source of the repository on every run: `make_matrix(width, height, reserve_regions, add_timing)` — the matrix is built
  (`row = [0x2] * width; matrix = tuple(bytearray(row) for i in range(height))`: one copy of the row per index), the
  version and format areas are set to 0 through ALIASES of rows (`row = matrix[i]; row[-11] = 0`, `row_eight = matrix[8]`
  written in the same loop as `matrix[i][8] = 0` — views of the matrix: for i = 8 both names reach the same row), with
  negative indexes (`matrix[-i][8]`, `row_eight[-i]`: `-0` is index 0), and the round-2 translation of `add_timing_pattern` is
  called on the local matrix.  `Model.makeMatrix n` is the hand model of `make_matrix(n, n)`; `Model.alignmentMatrix?` starts
  from `make_matrix(n, n, reserve_regions=False, add_timing=False)`.
  Translation validation: `Gen/Funcs4Check.lean` (imported here): 37 kernel-checked results of the real function.
-/
import Gen.Funcs4Check
import Proofs.TieA4Matrix
import Model.Align

namespace Props.TieA4
open Proofs.TieA2 Proofs.TieA4

/-- `make_matrix(n, n)` (both flags at their default True) for EVERY n ≥ 9 — in particular the sizes the callers pass,
    11, 13, 15, 17 (Micro QR) and 21 … 177 (QR): the translation returns, without raising, the matrix of `Model.makeMatrix n`
    (`mI`: `Array (Array Nat)` seen as the translation's `List (List Int)`).  9 ≤ n is exact, see `make_matrix_small_raises` -/
theorem make_matrix_tie (n : Nat) (hn : 9 ≤ n) :
    Gen.Funcs4.make_matrix (n : Int) (n : Int) true true = .ok (mI (Model.makeMatrix n)) :=
  make_matrix_eq n hn

/-- the range of `make_matrix_tie` is exact: for n < 9 there is no row 8 and `row_eight = matrix[8]` raises IndexError
    (`Model.makeMatrix` is total and not meant for these sizes) -/
theorem make_matrix_small_raises (n : Nat) (hn : n < 9) :
    Gen.Funcs4.make_matrix (n : Int) (n : Int) true true = .error .indexError :=
  make_matrix_small n hn

/-- `make_matrix(w, h, reserve_regions=False, add_timing=False)` for ALL integers w, h: h rows of w cells 0x2, nothing raised -/
theorem make_matrix_plain_tie_general (w h : Int) :
    Gen.Funcs4.make_matrix w h false false = .ok (List.replicate h.toNat (List.replicate w.toNat (2 : Int))) :=
  make_matrix_plain_eq w h

/-- … for a square symbol: the all-2 matrix `m0` from which `Model.alignmentMatrix?` (the model of
    `_get_alignment_matrix` in the writers / `matrix_iter_verbose`) starts, every n -/
theorem make_matrix_plain_tie (n : Nat) :
    Gen.Funcs4.make_matrix (n : Int) (n : Int) false false
      = .ok ((List.replicate n (List.replicate n 2)).map toI) := by
  rw [make_matrix_plain_eq]
  simp [toI]

/-- … and as the model's `Matrix`: the matrix of 0x2 with which `Model.makeMatrix` begins -/
theorem make_matrix_plain_tie_array (n : Nat) :
    Gen.Funcs4.make_matrix (n : Int) (n : Int) false false = .ok (mI (twos n)) := by
  rw [make_matrix_plain_eq, mI_twos]
  simp

end Props.TieA4
