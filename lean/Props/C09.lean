/-
  C09 — raster and text outputs depict exactly the symbol with its quiet zone.
  Property theorems only (helper lemmas live in Proofs/Raster.lean).  `Model.*` is the hand-written
  model of segno/utils.py and of the packing code of segno/writers.py (tied to the real code by the
  correspondence runs of `./check C09`), `Spec.*` the hand-written reference (expected grid, format
  readers), `Gen.*` is regenerated from the repository on every run.
-/
import Proofs.Raster
import Spec.Css3
import Gen.Tables

namespace Props.C09

open Model Spec Proofs.Raster

/-- the calls the property wants refused: scale below 1 after truncation, negative or fractional border -/
def Refused (scale : Num) (border : Option Num) : Prop :=
  scale.toInt < 1 ∨ ∃ x, border = some x ∧ (x.isFractional = true ∨ x.isNegative = true)

/-- the border as documented: absent (default of the symbol kind) or an `int` -/
def borderValue (w h : Nat) : Option Num → Option Nat
  | none => some (Gen.get_default_border_size w h).toNat
  | some (.int i) => some i.toNat
  | some (.float ..) => none

/-- `matrix_iter` refuses with `ValueError` exactly what the property wants refused:
    a scale that is < 1 after truncation, a negative or fractional border (unbounded). -/
theorem matrix_iter_refused (M : List (List Nat)) (w h : Nat) (scale : Num) (border : Option Num)
    (hr : Refused scale border) : matrixIter M w h scale border = .error .valueError := by
  unfold matrixIter checkValidBorder checkValidScale
  rcases hr with hs | ⟨x, rfl, hx⟩
  · have hs' : scale.toInt ≤ 0 := by omega
    cases border with
    | none => simp [hs', bind, Except.bind, pure, Except.pure, throw, throwThe, MonadExceptOf.throw]
    | some x =>
      by_cases hx : (x.isFractional || x.isNegative) = true
      · simp [hx, bind, Except.bind, throw, throwThe, MonadExceptOf.throw]
      · simp [hx, hs', bind, Except.bind, pure, Except.pure, throw, throwThe, MonadExceptOf.throw]
  · have : (x.isFractional || x.isNegative) = true := by rcases hx with h | h <;> simp [h]
    simp [this, bind, Except.bind, throw, throwThe, MonadExceptOf.throw]

/-- `matrix_iter_pixel` (unbounded: every matrix, every scale ≥ 1 — a float is truncated —, every
    border ≥ 0 or the default): the iterator yields (h+2b)·s rows of (w+2b)·s values and value
    (x, y) is the module (y div s − b, x div s − b), 0 in the quiet zone; i.e. it yields exactly
    `Spec.grid`. -/
theorem matrix_iter_pixel (M : List (List Nat)) (w h : Nat) (scale : Num) (border : Option Num) (b : Nat)
    (hM : WellFormed M w h) (hnr : ¬ Refused scale border) (hb : borderValue w h border = some b) :
    let s := scale.toInt.toNat
    ∃ rows, matrixIter M w h scale border = .ok rows
      ∧ rows.length = (h + 2 * b) * s
      ∧ (∀ r ∈ rows, r.length = (w + 2 * b) * s)
      ∧ (∀ x y, x < (w + 2 * b) * s → y < (h + 2 * b) * s → (rows.getD y []).getD x 0 = pixelOf (cellL M) s b x y)
      ∧ rows = grid M w h s b := by
  intro s
  have hs1 : ¬ scale.toInt < 1 := fun h => hnr (Or.inl h)
  have hs : 0 < s := by show 0 < scale.toInt.toNat; omega
  have hborder : checkValidBorder border = .ok () := by
    unfold checkValidBorder
    cases border with
    | none => rfl
    | some x =>
      have : ¬ ((x.isFractional || x.isNegative) = true) := by
        intro h
        apply hnr; right; refine ⟨x, rfl, ?_⟩
        simpa [Bool.or_eq_true] using h
      simp [this]; rfl
  have hrange : borderForRange w h border = .ok b := by
    unfold borderForRange
    cases border with
    | none => simp [borderValue] at hb; simp [hb]; rfl
    | some x =>
      cases x with
      | int i => simp [borderValue] at hb; simp [hb]; rfl
      | float _ _ _ => simp [borderValue] at hb
  have hscale : checkValidScale scale.toInt = .ok () := by
    unfold checkValidScale
    have : ¬ scale.toInt ≤ 0 := by omega
    simp [this]; rfl
  refine ⟨grid M w h s b, ?_, ?_, ?_, ?_, rfl⟩
  · simp only [matrixIter, hborder, hscale, hrange, bind, Except.bind, pure, Except.pure]
    rw [iter_eq_grid M w h _ b hs hM]
  · simp [grid]
  · intro r hr
    simp only [grid, List.mem_map, List.mem_range] at hr
    obtain ⟨y, _, rfl⟩ := hr
    simp
  · intro x y hx hy
    simp [grid, List.getD_eq_getElem?_getD, hx, hy]

/-- the default border `matrix_iter` uses for a symbol of version v is the one ISO prescribes:
    4 modules for QR Codes, 2 for Micro QR Codes -/
theorem default_border_iso (v : Int) (h1 : -3 ≤ v) (h2 : v ≤ 40) :
    borderValue (Spec.size v) (Spec.size v) none = some (Spec.defaultBorder (Spec.size v)) := by
  have hn : Spec.size v ≥ 21 ∨ Spec.size v ≤ 17 := by
    unfold Spec.size
    by_cases h : v > 0 <;> simp [h] <;> omega
  generalize Spec.size v = n at hn
  unfold borderValue Gen.get_default_border_size Spec.defaultBorder
  by_cases h : n < 21
  · have : ¬ ((n : Int) > 17) := by omega
    simp [h, this]
  · have : (n : Int) > 17 := by omega
    simp [h, this]

/-- `pack_unpack` (unbounded in the width): for bit depth d ∈ {1, 2, 4} the samples read back from
    a packed PNG scanline / PBM row (most significant bits first, last byte zero-filled) are the
    row that was packed, for EVERY row length -/
theorem pack_unpack (d : Nat) (hd : d = 1 ∨ d = 2 ∨ d = 4) (row : List Nat) (hrow : ∀ v ∈ row, v < 2 ^ d) :
    unpackRow d row.length (packRow d row) = row := by
  unfold unpackRow packRow
  rcases hd with rfl | rfl | rfl
  · exact unpack_pack_generic 8 (by decide) (foldBits 1) (sampleOfByte 1) 2 (by decide) field_depth1 row hrow
  · exact unpack_pack_generic 4 (by decide) (foldBits 2) (sampleOfByte 2) 4 (by decide) field_depth2 row hrow
  · exact unpack_pack_generic 2 (by decide) (foldBits 4) (sampleOfByte 4) 16 (by decide) field_depth4 row hrow

/-- XBM: bits of a byte in reversed order (least significant bit = leftmost pixel) -/
theorem pack_unpack_xbm (row : List Nat) (hrow : ∀ v ∈ row, v < 2) :
    unpackRowXbm row.length (packRowXbm row) = row := by
  unfold unpackRowXbm packRowXbm
  exact unpack_pack_generic 8 (by decide) (fun g => foldBits 1 g.reverse) xbmBit 2 (by decide) field_xbm row hrow

/-- the `scale − 1` "Up"-filtered all-zero scanlines `write_png` emits after each row reproduce the
    row above (any row of bytes) -/
theorem up_filter_zero_row (prev : List Nat) (h : ∀ v ∈ prev, v < 256) :
    unfilterUp (List.replicate prev.length 0) prev = prev := by
  unfold unfilterUp
  induction prev with
  | nil => rfl
  | cons a l ih =>
    simp only [List.length_cons, List.replicate_succ, List.zipWith_cons_cons, Nat.zero_add]
    rw [ih (fun v hv => h v (List.mem_cons_of_mem _ hv)), Nat.mod_eq_of_lt (h a (by simp))]

/-- a packed scanline (filter byte stripped) unpacks to the row of colour indexes, any width -/
theorem scanline_unpack (d : Nat) (hd : d = 1 ∨ d = 2 ∨ d = 4) (ft : Nat) (row : List Nat) (hrow : ∀ v ∈ row, v < 2 ^ d) :
    unpackRow d row.length (scanline d ft row).tail = row := by
  unfold scanline
  exact pack_unpack d hd row hrow

/-- the statement `png_stream_rows` (PROVED in Props/C09Png.lean, together with the palette / tRNS
    theorems `png_palette_sound`, `png_standin_and_trns` and the composition `png_model_picture`; until
    round 2 this and `png_palette` were the open obligations of C09): the model stream `pngStream` is
    the concatenation of (rows + 2b)·s scanlines with filter type 0 or 2 and ⌈width·depth/8⌉ bytes each -/
def PngStreamRows : Prop :=
  ∀ (idx : List (List Nat)) (w d s b qz : Nat), (d = 1 ∨ d = 2 ∨ d = 4) → 0 < s → qz < 2 ^ d →
    (∀ r ∈ idx, r.length = w ∧ ∀ v ∈ r, v < 2 ^ d) →
    ∃ lines : List (Nat × List Nat),
      pngStream idx w d s b qz = lines.flatMap (fun l => l.1 :: l.2) ∧
      lines.length = (idx.length + 2 * b) * s ∧
      ∀ l ∈ lines, (l.1 = 0 ∨ l.1 = 2) ∧ l.2.length = ((w + 2 * b) * s * d + 7) / 8

/-- the colour keywords the writers know are exactly the 147 CSS3 keywords with their CSS3 values
    (`writers._NAME2RGB`, regenerated, against the frozen table of the specification) -/
theorem css3_table : Gen.NAME2RGB = Spec.css3 := by decide +kernel

/-! non-vacuity -/
example : ¬ Refused (.float false 2 true) (some (.int 3)) := by
  intro h; rcases h with h | ⟨x, hx, h⟩
  · simp [Num.toInt] at h
  · cases hx; simp [Num.isFractional, Num.isNegative] at h
example : Refused (.float false 0 true) none := Or.inl (by simp [Num.toInt])
example : Refused (.int 1) (some (.float false 1 true)) := Or.inr ⟨_, rfl, Or.inl rfl⟩
example : WellFormed [[1, 0], [0, 1]] 2 2 := by simp [WellFormed]
example : matrixIter [[1, 0], [0, 1]] 2 2 (.float false 2 true) (some (.int 1))
    = .ok (grid [[1, 0], [0, 1]] 2 2 2 1) := by rfl
example : packRow 2 [1, 2, 3, 0, 1] = [0x6c, 0x40] := by decide
example : packRowXbm [1, 1, 0, 0, 0, 0, 0, 0, 1] = [0x03, 0x01] := by decide

end Props.C09
