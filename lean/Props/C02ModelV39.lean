/-
  C02 (part 2, continued) — function pattern skeleton of further QR versions, kernel-checked through the
  bit-packed replay (see Props/C02Model.lean, Proofs/Placement.lean).  Kept in separate files so that
  lake can check them in parallel (each file: a few minutes, 1.5–4 GB).
-/
import Props.C02Model

namespace Props.C02

set_option maxRecDepth 100000 in
theorem skeleton_iso_v39_to_v40 : ([39, 40] : List Int).all skeletonOk = true :=
  all_skeletonOk_of_packed _ (by decide +kernel)

end Props.C02

#print axioms Props.C02.skeleton_iso_v39_to_v40
