/-
  END-TO-END (C01 + C02 + C03 + C13 composed): every symbol the model of `encode` returns is read by
  the ISO reference reader `Spec.decode` as: the version / level / mask the encoder reports, intact
  function patterns, valid Reed-Solomon blocks, zero remainder bits, and a data stream that parses
  back to exactly the content bytes followed by the (D1-)tail.
  Property theorems only; helper lemmas live in Proofs/EndToEnd.lean (and Proofs/EndToEnd*.lean).
-/
import Spec.Decode
import Model.Encoder
import Props.C01
import Props.C01Stream
import Props.C01Placement
import Props.C02Model
import Props.C03Message
import Props.C04
import Props.C13
import Proofs.EndToEnd

namespace Props.EndToEnd

set_option linter.unusedVariables false  -- `herr`, `hver`, `hmask` are part of the given statement but not needed

/-- the content parts as a caller can supply them: bytes, non-empty, mode None or a mode constant -/
def PartsOk (parts : List Model.Part) : Prop :=
  parts ≠ [] ∧ ∀ p ∈ parts, (∀ b ∈ p.data, b < 256) ∧ p.data ≠ [] ∧ p.mode ∈ [none, some 1, some 2, some 4, some 8, some 13]

/-- merging of adjacent same-mode parts (`Segments.add_segment`) is sound: the merged segment is
    what `make_segment` produces for the concatenated bytes -/
theorem merged_segment_is_makeSegment (d1 d2 : List Nat) (m : Option Nat) (e1 e2 : String) (s1 s2 : Model.Segment)
    (hm : m ∈ [none, some 1, some 2, some 4, some 8, some 13])
    (h1 : Model.makeSegment d1 m e1 = .ok s1) (h2 : Model.makeSegment d2 m e2 = .ok s2)
    (hmode : s1.mode = s2.mode) (henc : s1.encoding = s2.encoding)
    (hgroup : s1.charCount % (if s2.mode == 1 then 3 else if s2.mode == 2 then 2 else 1) = 0) :
    Model.makeSegment (d1 ++ d2) (some s1.mode) e2
      = .ok { bits := s1.bits ++ s2.bits, charCount := s1.charCount + s2.charCount, mode := s2.mode, encoding := s2.encoding } := by
  exact Proofs.EndToEnd.merged d1 d2 m e1 e2 s1 s2 hm h1 h2 hmode henc hgroup

/-- **step 2**: the segments `prepare_data` returns (after merging) are `make_segment` results for
    consecutive, non-empty slices of the content: `pairs` lists each slice with its segment -/
theorem prepareData_pairs (parts : List Model.Part) (segs : List Model.Segment) (hp : PartsOk parts)
    (h : Model.prepareData parts = .ok segs) :
    ∃ pairs : List (List Nat × Model.Segment), segs = pairs.map (·.2)
      ∧ (pairs.map (·.1)).flatten = (parts.map (·.data)).flatten
      ∧ ∀ x ∈ pairs, (∀ b ∈ x.1, b < 256) ∧ x.1 ≠ [] ∧ x.2.mode ∈ [1, 2, 4, 8, 13]
          ∧ ∃ enc, Model.makeSegment x.1 (some x.2.mode) enc = .ok x.2 := by
  exact Proofs.EndToEnd.prepareData_pairs parts segs hp.2 h

/-- the data path of `_encode` for a returned symbol `c`: the bits written for its segments, the
    Table 7 capacity, the terminated and padded stream, the final message handed to the placement.
    (All four are functions of `c`, `eci` and the ECI assignment table `f`.) -/
def DataPath (c : Model.Code) (eci : Bool) (f : String → Option Nat)
    (segBits : List (List Nat)) (cap : Nat) (stream final : List Nat) : Prop :=
  c.segments.mapM (fun s => Model.writeSegment s c.version eci f) = .ok segBits
    ∧ Model.capacity c.version c.error = some cap
    ∧ Model.finishStream segBits.flatten c.version cap = .ok stream
    ∧ Model.makeFinalMessage c.version c.error stream = .ok final

theorem dataPath_unique (c : Model.Code) (eci : Bool) (f : String → Option Nat)
    (sb sb' : List (List Nat)) (cap cap' : Nat) (st st' fi fi' : List Nat)
    (h : DataPath c eci f sb cap st fi) (h' : DataPath c eci f sb' cap' st' fi') :
    sb = sb' ∧ cap = cap' ∧ st = st' ∧ fi = fi' := by
  obtain ⟨a1, a2, a3, a4⟩ := h
  obtain ⟨b1, b2, b3, b4⟩ := h'
  rw [a1] at b1; cases b1
  rw [a2] at b2; cases b2
  rw [a3] at b3; cases b3
  rw [a4] at b4; cases b4
  exact ⟨rfl, rfl, rfl, rfl⟩

section layers

variable (parts : List Model.Part) (error : Option Nat) (version : Option Int)
  (mode : Option Nat) (mask : Option Nat) (eci : Bool) (micro : Option Bool) (boost : Bool)
  (f : String → Option Nat) (c : Model.Code)

/-- for every accepted input the data path exists (none of its stages fails), the returned segments are
    those of `prepare_data`, and the written bits fit the capacity -/
theorem encode_data_path (hp : PartsOk parts) (hf : ∀ enc n, f enc = some n → n < 128)
    (h : Model.encode parts error version mode mask eci micro boost f = .ok c) :
    Model.prepareData parts = .ok c.segments ∧
    ∃ segBits cap stream final, DataPath c eci f segBits cap stream final
      ∧ segBits.flatten.length ≤ cap ∧ cap ≤ stream.length := by
  obtain ⟨sb, cap, st, fi, hd, hprep, h1, h2, -⟩ :=
    Proofs.EndToEnd.encode_all parts error version mode mask eci micro boost f c hp.2 hf h
  exact ⟨hprep, sb, cap, st, fi, hd, h1, h2⟩

/-- **steps 1–3**: the first `cap` bits of the model's data stream (all that `make_blocks` uses) parse
    under the reference parser to exactly the content bytes, without Structured Append header, ECI
    designators only with `eci`, followed by the (D1-)tail -/
theorem encode_stream_parses (hp : PartsOk parts) (hf : ∀ enc n, f enc = some n → n < 128)
    (h : Model.encode parts error version mode mask eci micro boost f = .ok c)
    (segBits : List (List Nat)) (cap : Nat) (stream final : List Nat)
    (hd : DataPath c eci f segBits cap stream final) :
    ∃ p, Spec.parseStream c.version (stream.take cap) = .ok p ∧ p.sa = none
      ∧ (p.segments.map (·.bytes)).flatten = (parts.map (·.data)).flatten
      ∧ (eci = false → ∀ s ∈ p.segments, s.eci = none)
      ∧ (stream.take cap).drop p.endPos = Spec.d1Tail c.version cap p.endPos := by
  obtain ⟨sb, cap', st, fi, hd', -, -, -, hparse, -⟩ :=
    Proofs.EndToEnd.encode_all parts error version mode mask eci micro boost f c hp.2 hf h
  obtain ⟨rfl, rfl, rfl, rfl⟩ := dataPath_unique c eci f _ _ _ _ _ _ _ _ hd hd'
  exact hparse

/-- **step 4**: the final message splits (frozen ISO Table 9) into valid Reed-Solomon blocks, zero
    remainder bits, and carries exactly the first `cap` bits of the stream -/
theorem encode_blocks_valid (hp : PartsOk parts) (hf : ∀ enc n, f enc = some n → n < 128)
    (h : Model.encode parts error version mode mask eci micro boost f = .ok c)
    (segBits : List (List Nat)) (cap : Nat) (stream final : List Nat)
    (hd : DataPath c eci f segBits cap stream final) :
    ∃ b, Spec.splitBlocks c.version (Model.lvlKey c.error) final = .ok b ∧ Spec.badBlocks b = 0
      ∧ Spec.allZero b.remainder = true ∧ Spec.dataStream c.version b = stream.take cap := by
  obtain ⟨sb, cap', st, fi, hd', -, -, -, -, hblocks, -⟩ :=
    Proofs.EndToEnd.encode_all parts error version mode mask eci micro boost f c hp.2 hf h
  obtain ⟨rfl, rfl, rfl, rfl⟩ := dataPath_unique c eci f _ _ _ _ _ _ _ _ hd hd'
  exact hblocks

/-- **step 5**: the reference reader's zig-zag read with unmasking (mask = the reported one) of the
    returned matrix gives exactly the final message -/
theorem encode_data_bits_read_back (hp : PartsOk parts) (hf : ∀ enc n, f enc = some n → n < 128)
    (h : Model.encode parts error version mode mask eci micro boost f = .ok c)
    (segBits : List (List Nat)) (cap : Nat) (stream final : List Nat)
    (hd : DataPath c eci f segBits cap stream final) :
    Spec.readDataBits c.version c.mask c.matrix = final := by
  obtain ⟨sb, cap', st, fi, hd', -, -, -, -, -, hread, -⟩ :=
    Proofs.EndToEnd.encode_all parts error version mode mask eci micro boost f c hp.2 hf h
  obtain ⟨rfl, rfl, rfl, rfl⟩ := dataPath_unique c eci f _ _ _ _ _ _ _ _ hd hd'
  exact hread

/-- **step 6**: the returned matrix is square and binary, both format information copies are the BCH
    word of (level, mask), the dark module is set, the version information is the Golay word: the
    reference reader reports exactly the version / level / mask the encoder reports -/
theorem encode_header_read_back (hp : PartsOk parts) (hf : ∀ enc n, f enc = some n → n < 128)
    (h : Model.encode parts error version mode mask eci micro boost f = .ok c) :
    Spec.readHeader c.matrix = .ok { version := c.version, level := Model.lvlKey c.error, mask := c.mask } := by
  obtain ⟨sb, cap', st, fi, -, -, -, -, -, -, -, hhdr, -⟩ :=
    Proofs.EndToEnd.encode_all parts error version mode mask eci micro boost f c hp.2 hf h
  exact hhdr

/-- **step 7**: every fixed function module (finder, separator, timing, alignment, dark module) of the
    returned matrix has its ISO value -/
theorem encode_function_patterns (hp : PartsOk parts) (hf : ∀ enc n, f enc = some n → n < 128)
    (h : Model.encode parts error version mode mask eci micro boost f = .ok c) :
    Spec.functionPatternsOk c.version c.matrix = none := by
  obtain ⟨sb, cap', st, fi, -, -, -, -, -, -, -, -, hfn⟩ :=
    Proofs.EndToEnd.encode_all parts error version mode mask eci micro boost f c hp.2 hf h
  exact hfn

end layers

/-- **end to end**: for every accepted input, the returned matrix decodes under the reference reader to
    the reported header, intact function patterns, valid RS blocks, zero remainder bits, and exactly the
    content bytes (in order), followed by the tail of ISO 7.4.9/7.4.10 in the form the pinned code
    produces (D1) -/
theorem encode_decodes (parts : List Model.Part) (error : Option Nat) (version : Option Int)
    (mode : Option Nat) (mask : Option Nat) (eci : Bool) (micro : Option Bool) (boost : Bool)
    (f : String → Option Nat) (c : Model.Code)
    (hp : PartsOk parts)
    (herr : error ∈ [none, some 0, some 1, some 2, some 3])
    (hver : ∀ v, version = some v → -3 ≤ v ∧ v ≤ 40)
    (hmask : ∀ k, mask = some k → k < 8)
    (hf : ∀ enc n, f enc = some n → n < 128)
    (h : Model.encode parts error version mode mask eci micro boost f = .ok c) :
    ∃ d, Spec.decode c.matrix = .ok d
      ∧ d.header = { version := c.version, level := Model.lvlKey c.error, mask := c.mask }
      ∧ d.fnBad = none
      ∧ d.badBlocks = 0 ∧ Spec.allZero d.blocks.remainder = true
      ∧ ∃ p, d.parsed = .ok p ∧ p.sa = none
          ∧ (p.segments.map (·.bytes)).flatten = (parts.map (·.data)).flatten
          ∧ (eci = false → ∀ s ∈ p.segments, s.eci = none)
          ∧ d.stream.drop p.endPos = Spec.d1Tail c.version d.stream.length p.endPos := by
  obtain ⟨sb, cap, st, fi, -, -, -, hcl, ⟨p, hp1, hp2, hp3, hp4, hp5⟩, ⟨b, hb1, hb2, hb3, hb4⟩, hread, hhdr, hfn⟩ :=
    Proofs.EndToEnd.encode_all parts error version mode mask eci micro boost f c hp.2 hf h
  have hdec := Proofs.EndToEnd.decode_eq c.matrix _ b hhdr (by rw [hread]; exact hb1)
  refine ⟨_, hdec, rfl, hfn, hb2, hb3, p, ?_, hp2, hp3, hp4, ?_⟩
  · show Spec.parseStream c.version (Spec.dataStream c.version b) = .ok p
    rw [hb4]; exact hp1
  · show (Spec.dataStream c.version b).drop p.endPos = Spec.d1Tail c.version (Spec.dataStream c.version b).length p.endPos
    rw [hb4, List.length_take, Nat.min_eq_left hcl]; exact hp5

/-! ### non-vacuity -/

/-- the hypotheses are satisfiable and the conclusion is computed to hold: "123" is accepted (an M1
    symbol results), and the reference reader returns the three bytes from valid blocks -/
example : (match Model.encode [⟨[49, 50, 51], none, "iso-8859-1"⟩] none none none none false none true (fun _ => none) with
    | .ok c => c.version == -3 &&
      (match Spec.decode c.matrix with
       | .ok d => d.badBlocks == 0 && (match d.parsed with
          | .ok p => (p.segments.map (·.bytes)).flatten == [49, 50, 51]
          | .error _ => false)
       | .error _ => false)
    | .error _ => false) = true := by decide +kernel

end Props.EndToEnd

#print axioms Props.EndToEnd.merged_segment_is_makeSegment
#print axioms Props.EndToEnd.prepareData_pairs
#print axioms Props.EndToEnd.dataPath_unique
#print axioms Props.EndToEnd.encode_data_path
#print axioms Props.EndToEnd.encode_stream_parses
#print axioms Props.EndToEnd.encode_blocks_valid
#print axioms Props.EndToEnd.encode_data_bits_read_back
#print axioms Props.EndToEnd.encode_header_read_back
#print axioms Props.EndToEnd.encode_function_patterns
#print axioms Props.EndToEnd.encode_decodes
