/-
  C02 (part 2, summary) — the function pattern skeleton built by the model equals the ISO skeleton for
  EVERY version M1..M4, 1..40 (collects the per-version kernel checks of Props/C02Model*.lean).
-/
import Props.C02Model
import Props.C02ModelV11
import Props.C02ModelV21
import Props.C02ModelV26
import Props.C02ModelV31
import Props.C02ModelV36
import Props.C02ModelV39

namespace Props.C02

/-- **function patterns, all versions**: for every Micro QR and QR version the matrix produced by
    make_matrix + add_finder_patterns + add_alignment_patterns (+ dark module) has exactly the ISO
    finder / separator / timing / alignment modules, light reserved format / version areas, the dark
    module, and the placeholder in every data cell. -/
theorem skeleton_iso_all (v : Int) (h1 : -3 ≤ v) (h2 : v ≤ 40) : skeletonOk v = true := by
  have g0 := List.all_eq_true.1 skeleton_iso_micro
  have g1 := List.all_eq_true.1 skeleton_iso_v1_to_v6
  have g2 := List.all_eq_true.1 skeleton_iso_v7_to_v10
  have g3 := List.all_eq_true.1 skeleton_iso_v11_to_v15
  have g4 := List.all_eq_true.1 skeleton_iso_v16_to_v20
  have g5 := List.all_eq_true.1 skeleton_iso_v21_to_v25
  have g6 := List.all_eq_true.1 skeleton_iso_v26_to_v30
  have g7 := List.all_eq_true.1 skeleton_iso_v31_to_v35
  have g8 := List.all_eq_true.1 skeleton_iso_v36_to_v38
  have g9 := List.all_eq_true.1 skeleton_iso_v39_to_v40
  have hv : v = -3 ∨ v = -2 ∨ v = -1 ∨ v = 0 ∨ v = 1 ∨ v = 2 ∨ v = 3 ∨ v = 4 ∨ v = 5 ∨ v = 6 ∨ v = 7 ∨ v = 8 ∨ v = 9 ∨ v = 10 ∨ v = 11 ∨ v = 12 ∨ v = 13 ∨ v = 14 ∨ v = 15 ∨ v = 16 ∨ v = 17 ∨ v = 18 ∨ v = 19 ∨ v = 20 ∨ v = 21 ∨ v = 22 ∨ v = 23 ∨ v = 24 ∨ v = 25 ∨ v = 26 ∨ v = 27 ∨ v = 28 ∨ v = 29 ∨ v = 30 ∨ v = 31 ∨ v = 32 ∨ v = 33 ∨ v = 34 ∨ v = 35 ∨ v = 36 ∨ v = 37 ∨ v = 38 ∨ v = 39 ∨ v = 40 := by omega
  rcases hv with rfl | rfl | rfl | rfl | rfl | rfl | rfl | rfl | rfl | rfl | rfl | rfl | rfl | rfl | rfl | rfl | rfl | rfl | rfl | rfl | rfl | rfl | rfl | rfl | rfl | rfl | rfl | rfl | rfl | rfl | rfl | rfl | rfl | rfl | rfl | rfl | rfl | rfl | rfl | rfl | rfl | rfl | rfl | rfl
  all_goals first
    | exact g0 _ (by decide)
    | exact g1 _ (by decide)
    | exact g2 _ (by decide)
    | exact g3 _ (by decide)
    | exact g4 _ (by decide)
    | exact g5 _ (by decide)
    | exact g6 _ (by decide)
    | exact g7 _ (by decide)
    | exact g8 _ (by decide)
    | exact g9 _ (by decide)

end Props.C02

#print axioms Props.C02.skeleton_iso_all
