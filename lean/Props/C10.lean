/-
  C10 — vector outputs (SVG, EPS, PDF, LaTeX/PGF) paint exactly the dark modules.
  Property theorems only (helper lemmas live in Proofs/Lines.lean).  `Model.Lines` is the hand-written
  model of `utils.matrix_to_lines` and of the path emitters, tied to the code by the correspondence run
  of harness/p_vector.py; `Spec.Vector` is the judge's reference semantics (coverage counting, relative
  path commands, affine maps over exact rationals).
-/
import Proofs.Lines

namespace Props.C10
open Model.Lines Spec.Vector Proofs.Lines

/-- `runs_cover` (unbounded: every matrix of any shape and any cell values, every start column, every y / incby).
    The lines of `matrix_to_lines` are, row by row, a group of runs placed at y = y0 + i·incby, and the
    expansion of the runs of row i back to cells is exactly that row: every dark cell is covered exactly
    once, no light cell, nothing left or right of the row.  (`coverAt` is the judge's own counting function.)
    The `last_bit` carry-over between rows and its initial value 1 do not matter for this. -/
theorem runs_cover (m : List (List Nat)) (x : Nat) (y2 inc2 : Int) :
    ∃ rows : List (List (Nat × Nat)),
      rows.length = m.length
      ∧ matrixToLines m x y2 inc2 = attach inc2 (y2 - inc2) rows
      ∧ ∀ (i : Nat) (h : i < m.length) (h' : i < rows.length),
          (List.range (m[i]).length).map (fun k => coverAt (rows[i]) (x + k)) = (m[i]).map dark01
          ∧ ∀ j, (j < x ∨ x + (m[i]).length ≤ j) → coverAt (rows[i]) j = 0 := by
  refine ⟨rowsGo x 1 m, rowsGo_length x m 1, ?_, ?_⟩
  · exact linesGo_rows x inc2 m (y2 - inc2) 1
  · intro i h h'
    constructor
    · rw [← darkAt_expand (m[i]) x]
      apply List.map_congr_left
      intro k _
      exact rowsGo_cover x m 1 i h h' (x + k)
    · intro j hj
      rw [rowsGo_cover x m 1 i h h' j]
      rcases hj with hj | hj
      · exact darkAt_lt _ _ _ hj
      · exact darkAt_ge _ _ _ hj

example : matrixToLines [[1, 0, 1], [0, 0, 0], [0, 1, 1]] 2 5 2 = [(2, 5, 3), (4, 5, 5), (3, 9, 5)] := by decide
/-- the first-row quirk (`last_bit = 0x1` initially): a light first module yields an empty run, which covers nothing -/
example : matrixToLines [[0, 1]] 0 0 2 = [(0, 0, 0), (1, 0, 2)] := by decide

/-- `raster_row` (unbounded): for a size × size matrix, every border and every row i, the coverage counts that the
    judge's own `rowCover` computes from the model's runs of that row (start column = border) equal the page row
    `pageRow` the judge expects (quiet zone, then 1 for every dark / 0 for every light module, then quiet zone) — i.e.
    the comparison `got == want` of `Spec.Vector.checkCoverage` succeeds on the model, row by row. -/
theorem raster_row (m : List (List Nat)) (size b lb i : Nat) (hi : i < m.length) (hlen : (m[i]).length = size) (his : i < size) :
    rowCover (size + 2 * b) (rowRuns b lb (m[i])).1 = pageRow m size b (b + i) := by
  have e : size + 2 * b = b + (m[i]).length + b := by omega
  rw [e, rowCover_runs, pageRow_inside m size b i hi hlen his]

example : rowCover (3 + 2 * 1) (rowRuns 1 0 [1, 0, 1]).1 = [0, 1, 0, 1, 0] := by decide

/-- `runs_maximal` (unbounded): within each row consecutive runs are separated by at least one column
    (`sep`: next start ≥ previous end + 1) and lie at or right of the start column; together with `runs_cover` (every
    dark cell exactly once, no light cell) this makes them exactly the maximal runs of dark modules.  From the
    second row on no run is empty; in the first row the only possible empty run is the quirk of `last_bit = 0x1`. -/
theorem runs_maximal (m : List (List Nat)) (x : Nat) (y2 inc2 : Int) :
    matrixToLines m x y2 inc2 = attach inc2 (y2 - inc2) (rowsGo x 1 m)
    ∧ (∀ (i : Nat) (h : i < (rowsGo x 1 m).length), sep x ((rowsGo x 1 m)[i]))
    ∧ (∀ (i : Nat) (h : i + 1 < (rowsGo x 1 m).length), ∀ r ∈ (rowsGo x 1 m)[i + 1], r.1 < r.2) :=
  ⟨linesGo_rows x inc2 m (y2 - inc2) 1, rowsGo_sep x m 1, rowsGo_nonempty x 1 m⟩

example : sep 2 [(2, 3), (4, 5)] := by simp [sep]

/-- `rel_abs` (SVG): absolutising the relative moves `m dx dy h len` that `write_svg` emits gives the lines back
    (telescoping sums), for every list of lines and every pen position. -/
theorem rel_abs (lines : List (Int × Int × Int)) (px py : Int) : svgAbs px py (svgRel px py lines) = lines :=
  svgAbs_svgRel lines px py

/-- `rel_abs` for the model's SVG path of a whole matrix: pen starts at (0, 0), first row at y = border + ½ -/
theorem rel_abs_svg (m : List (List Nat)) (b : Nat) :
    svgAbs 0 0 (svgRel 0 0 (toInt (matrixToLines m b (2 * (b : Int) + 1) 2))) = toInt (matrixToLines m b (2 * (b : Int) + 1) 2) :=
  svgAbs_svgRel _ 0 0

/-- `rel_abs` (EPS).  `write_eps` prints the first line absolutely and every later one relative to
    `(x2 of the previous line, y)`, where for the first relative move `y` is the *initial* y (top row), not the
    y of the first line.  So the statement needs the first row to contain a dark module (true for every symbol:
    finder pattern) — then the first line lies at the initial y and absolutising the rest from the pen position
    after the first line gives the remaining lines back. -/
theorem rel_abs_eps (row : List Nat) (rest : List (List Nat)) (b : Nat) (y2 : Int) (hdark : ∃ c ∈ row, c ≠ 0) :
    ∃ x1 x2 tail, toInt (matrixToLines (row :: rest) b y2 (-2)) = (x1, y2, x2) :: tail
      ∧ epsAbs x2 y2 (epsRel x2 y2 tail) = tail := by
  have hne := rowRuns_ne_nil b 1 row hdark
  have hrows : matrixToLines (row :: rest) b y2 (-2) = attach (-2) (y2 - (-2)) (rowsGo b 1 (row :: rest)) :=
    linesGo_rows b (-2) (row :: rest) (y2 - (-2)) 1
  have hpar := attach_parity (-2) (by decide) (rowsGo b 1 (row :: rest)) (y2 - (-2))
  rw [← hrows] at hpar
  cases hr : (rowRuns b 1 row).1 with
  | nil => exact absurd hr hne
  | cons ab more =>
    have hshape : matrixToLines (row :: rest) b y2 (-2)
        = (ab.1, y2, ab.2) :: (more.map (fun ab => (ab.1, y2 - (-2) + (-2), ab.2)) ++ attach (-2) (y2 - (-2) + (-2)) (rowsGo b (rowRuns b 1 row).2 rest)) := by
      rw [hrows]; simp [rowsGo, attach, hr]; omega
    refine ⟨(ab.1 : Int), (ab.2 : Int), toInt (more.map (fun ab => (ab.1, y2 - (-2) + (-2), ab.2)) ++ attach (-2) (y2 - (-2) + (-2)) (rowsGo b (rowRuns b 1 row).2 rest)), ?_, ?_⟩
    · rw [hshape]; simp [toInt]
    · apply epsAbs_epsRel
      intro r hr'
      simp only [toInt, List.mem_map] at hr'
      obtain ⟨t, ht, rfl⟩ := hr'
      have := hpar t (by rw [hshape]; exact List.mem_cons_of_mem _ ht)
      simp; omega

example : ∃ c ∈ [1, 1, 1, 0, 1], c ≠ 0 := ⟨1, by simp, by decide⟩

/-- PS / PDF flip: a line of matrix row `r` is drawn at y = (size + border − ½) − r in a y-up page of height
    size + 2·border; seen from the top that is the centre line (border + r) + ½ of grid row border + r.
    (All quantities doubled.) -/
theorem y_flip (size b r : Nat) :
    2 * ((size : Int) + 2 * b) - ((2 * ((size : Int) + b) - 1) + (-2) * (r : Int)) = 2 * ((b : Int) + r) + 1 := by
  omega

/-- `page_box` arithmetic: under the document's own transform `scale(s)` the background rectangle
    `M0 0 h n v n h−n z` (n = size + 2·border modules) has the corners (0, 0) and (n·s, n·s) = the page, and a run that
    ends inside the symbol (x2 ≤ border + size) stays inside the page. -/
theorem page_box (size b : Nat) (s : Rat) (hs : 0 ≤ s) :
    let n : Rat := ((size + 2 * b : Nat) : Rat)
    Xf.app { sx := s, sy := s } (0, 0) = (0, 0)
    ∧ Xf.app { sx := s, sy := s } (n, n) = (n * s, n * s)
    ∧ ∀ x2 : Nat, x2 ≤ b + size → (Xf.app { sx := s, sy := s } ((x2 : Rat), 0)).1 ≤ n * s := by
  refine ⟨?_, ?_, ?_⟩
  · simp [Xf.app, Rat.mul_zero, Rat.add_zero]
  · simp [Xf.app, Rat.add_zero, Rat.mul_comm]
  · intro x2 h
    simp only [Xf.app, Rat.add_zero]
    have h1 : ((x2 : Nat) : Rat) ≤ ((size + 2 * b : Nat) : Rat) := Rat.natCast_le_natCast.mpr (by omega)
    have := Rat.mul_le_mul_of_nonneg_left h1 hs
    rw [Rat.mul_comm ((size + 2 * b : Nat) : Rat) s]
    exact this

example : (0 : Rat) ≤ ((33 : Nat) : Rat) / 10 := by decide +kernel

/-- `pdf_offsets` (unbounded): if the file is the concatenation of pieces (header, object 1, object 2, …) and the
    recorded offsets are the prefix sums of the piece lengths — which is what `Model.Lines.pdfPositions` computes —
    then the bytes at the i-th recorded offset are exactly the pieces after piece i, i.e. the offset points at the
    first byte of the next object ("N 0 obj"). -/
theorem pdf_offsets (pieces : List (List Nat)) (i : Nat) (h : i < pieces.length)
    (h' : i < (prefixSums 0 (pieces.map List.length)).length) :
    (pieces.flatten).drop ((prefixSums 0 (pieces.map List.length))[i]) = (pieces.drop (i + 1)).flatten := by
  have := drop_prefixSums pieces [] i h
  simpa using this

/-- the model's xref entries are these prefix sums (definitional) -/
theorem pdf_positions_are_prefix_sums (wlen hlen glen dlen clen : Nat) :
    pdfPositions wlen hlen glen dlen clen = prefixSums 0 (pdfPieces wlen hlen glen dlen clen) := rfl

example : pdfPositions 2 2 487 21 39 = [16, 65, 122, 207, 769, 931] := by decide

/-- FULL STATEMENT (kept as a `def` so that it stays visible here): the judge accepts the model's SVG document of every
    symbol-shaped matrix at every positive scale.  PROVED in Props/C10Accept.lean (`judge_accepts_model_svg_proved`;
    helpers in Proofs/VectorAccept*.lean): the link through the *token* level — the judge's interpreter
    `Spec.Vector.svgPath` over strings parsed by `parseDecimal` computes `svgAbs` on the model's tokens —, the
    geometry (`snap 0 ((s·k)/s) = k` on the rational grid) and the coverage (from `runs_cover`, `raster_row`,
    `runs_maximal`, `page_box` ingredients).  The analogous statements for the EPS and PDF token streams
    (`judge_accepts_model_eps`, `judge_accepts_model_pdf`, over `psRun` / `pdfRun`) are stated and proved there too.
    On the real code this statement is what `judge svg|eps|pdf|tex` evaluates document by document. -/
def judge_accepts_model_svg : Prop :=
  ∀ (m : List (List Nat)) (b : Nat) (s : Rat), 0 < s → m ≠ [] → (∀ row ∈ m, row.length = m.length ∧ ∀ c ∈ row, c ≤ 1) →
    ∃ segs,
      (do
        let subs ← Spec.Vector.svgPath { sx := s, sy := s } (Model.Lines.svgPath m b)
        let rs ← strokeRects (s / 2) subs
        let black : Color := { r := 0, g := 0, b := 0 }
        let P : Rat := ((m.length + 2 * b : Nat) : Rat) * s
        judgePaints { m := m, size := m.length, b := b, s := s, dark := some black, light := none }
          (some (P, P)) false 0 0 [Paint.stroke rs black]) = Except.ok segs

end Props.C10
