/-
  C02 — geometry, function patterns, format / version information follow ISO/IEC 18004.
  Property theorems only (helper lemmas live in Proofs/).  `Gen.*` is regenerated from the
  repository on every run, `Spec.*` is the hand-written ISO reference.
-/
import Spec.GF
import Spec.Geometry
import Spec.Decode
import Gen.Tables
import Gen.Arith

namespace Props.C02

/-- Table C.1: every QR format word of `consts.FORMAT_INFO` is the BCH(15,5) codeword of its index
    (level indicator bits ‖ mask pattern) XOR 101010000010010. -/
theorem format_info_is_bch :
    Gen.FORMAT_INFO = (List.range 32).map (fun k => Spec.bch15 k ^^^ 0x5412) := by decide +kernel

/-- Micro QR: symbol number ‖ mask, XOR 100010001000101. -/
theorem format_info_micro_is_bch :
    Gen.FORMAT_INFO_MICRO = (List.range 32).map (fun k => Spec.bch15 k ^^^ 0x4445) := by decide +kernel

/-- Table D.1: version information words are the (18,6) Golay codewords of 7..40. -/
theorem version_info_is_golay :
    Gen.VERSION_INFO = (List.range 34).map (fun k => Spec.golay18 (k + 7)) := by decide +kernel

/-- Table E.1: alignment pattern centres equal the Annex E construction for versions 2..40. -/
theorem alignment_pos_is_annexE :
    Gen.ALIGNMENT_POS = (List.range 39).map (fun k => Spec.annexE (k + 2)) := by decide +kernel

/-- symbol size: 17+4v (QR), 9+2k (Micro), for every version constant. -/
theorem matrix_size_iso (v : Int) (h1 : -3 ≤ v) (h2 : v ≤ 40) :
    Gen.calc_matrix_size v = (Spec.size v : Int) := by
  unfold Gen.calc_matrix_size Spec.size
  by_cases h : v > 0 <;> simp [h] <;> omega

/-- the symbol number used for the Micro format word (`ERROR_LEVEL_TO_MICRO_MAPPING`) is ISO Table 13 -/
theorem micro_symbol_numbers :
    Gen.ERROR_LEVEL_TO_MICRO_MAPPING.all (fun x => Spec.microSymbolNumber x.1 x.2.1 == some x.2.2) = true
    ∧ Gen.ERROR_LEVEL_TO_MICRO_MAPPING.length = 8 := by decide +kernel

/-- default quiet zone: 4 modules for QR, 2 for Micro QR -/
theorem default_border (v : Int) (h1 : -3 ≤ v) (h2 : v ≤ 40) :
    Gen.get_default_border_size (Spec.size v) (Spec.size v) = if v < 1 then 2 else 4 := by
  unfold Gen.get_default_border_size Spec.size
  by_cases h : v > 0 <;> simp [h] <;> omega

end Props.C02
