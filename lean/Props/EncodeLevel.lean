/-
  ENCODE LEVEL (C04, C05, C06, C07 stated about the whole model of `encode`): the version, error level,
  mask and modes of the returned symbol are the ones the ISO specification prescribes, computed by
  the independent `Spec` definitions from the content alone.
  Property theorems only; helper lemmas live in Proofs/EncodeLevel.lean and Proofs/EncodeLevelMask.lean.
-/
import Spec.Sizing
import Spec.Penalty
import Model.Encoder
import Props.C04
import Props.C05
import Props.C06
import Props.C07
import Props.EndToEnd
import Proofs.EncodeLevel
import Proofs.EncodeLevelMask

namespace Props.EncodeLevel
open Props.C04

/-- what the specification sees of the returned segments -/
def infos (eci : Bool) (c : Model.Code) : List Spec.SegInfo := c.segments.map (info eci)

/-- **C04 (automatic version)**: without a requested version the returned version is the first
    admissible one (M1 < … < M4 < 1 < … < 40; Micro only if micro ≠ False and no ECI; M1 only without a
    requested level) whose capacity at the requested level (default L) holds the content -/
theorem encode_version_is_first_fit (parts : List Model.Part) (error : Option Nat) (mode mask : Option Nat)
    (eci : Bool) (micro : Option Bool) (boost : Bool) (f : String → Option Nat) (c : Model.Code)
    (hp : Props.EndToEnd.PartsOk parts)
    (h : Model.encode parts error none mode mask eci micro boost f = .ok c) :
    Spec.expectedVersion micro eci error (infos eci c) false = some c.version := by
  exact Proofs.EncodeLevel.encode_version_is_first_fit parts error mode mask eci micro boost f c hp h

/-- **C04 (overflow)**: without a requested version, `encode` ends in DataOverflowError exactly when no
    admissible version holds the content — provided the arguments are not refused for another reason
    (`hok`: the segments can be built and the combination checks pass, witnessed by the same call
    succeeding or overflowing) -/
theorem encode_overflow_iff (parts : List Model.Part) (error : Option Nat) (mode mask : Option Nat)
    (eci : Bool) (micro : Option Bool) (boost : Bool) (f : String → Option Nat) (segs : List Model.Segment)
    (hp : Props.EndToEnd.PartsOk parts) (hs : Model.prepareData parts = .ok segs)
    (h : Model.encode parts error none mode mask eci micro boost f = .error Model.PyErr.dataOverflow) :
    Spec.expectedVersion (if eci && micro.isNone then some false else micro) eci error (segs.map (info eci)) false = none := by
  exact Proofs.EncodeLevel.encode_overflow parts error mode mask eci micro boost f segs hp hs h

/-- **C05**: the returned level is the one the specification prescribes: with boosting (single segment)
    the highest level defined for the version, not below the request, whose capacity holds the content;
    otherwise exactly the requested / default level -/
theorem encode_level_is_expected (parts : List Model.Part) (error : Option Nat) (version : Option Int)
    (mode mask : Option Nat) (eci : Bool) (micro : Option Bool) (boost : Bool) (f : String → Option Nat) (c : Model.Code)
    (hp : Props.EndToEnd.PartsOk parts) (herr : error ∈ [none, some 0, some 1, some 2, some 3])
    (h : Model.encode parts error version mode mask eci micro boost f = .ok c) :
    Model.lvlKey c.error = Spec.expectedLevel c.version error boost (infos eci c) false := by
  exact Proofs.EncodeLevel.encode_level_is_expected parts error version mode mask eci micro boost f c hp herr h

/-- **C06 (requested mask)** -/
theorem encode_requested_mask (parts : List Model.Part) (error : Option Nat) (version : Option Int)
    (mode : Option Nat) (k : Nat) (eci : Bool) (micro : Option Bool) (boost : Bool) (f : String → Option Nat) (c : Model.Code)
    (h : Model.encode parts error version mode (some k) eci micro boost f = .ok c) : c.mask = k := by
  exact Proofs.EncodeLevel.encode_requested_mask parts error version mode k eci micro boost f c h

/-- **C06 (automatic mask)**: without a requested mask, the mask of the returned symbol is the
    lowest-numbered pattern with the minimal ISO 7.8.3.1 penalty (Micro: maximal 7.8.3.2 score), where
    every candidate is evaluated as the specification says — data modules masked with the candidate,
    format information (with the dark module) and version information still light, computed by
    `Spec.bestMask` from the FINAL matrix alone -/
theorem encode_auto_mask_is_iso_optimum (parts : List Model.Part) (error : Option Nat) (version : Option Int)
    (mode : Option Nat) (eci : Bool) (micro : Option Bool) (boost : Bool) (f : String → Option Nat) (c : Model.Code)
    (hp : Props.EndToEnd.PartsOk parts)
    (h : Model.encode parts error version mode none eci micro boost f = .ok c) :
    (Spec.bestMask c.version c.matrix c.mask).1 = c.mask := by
  exact Proofs.EncodeLevel.encode_auto_mask parts error version mode eci micro boost f c hp h

/-- **C07**: a single part without a requested mode is encoded in the first applicable mode of
    numeric, alphanumeric, kanji, byte -/
theorem encode_single_auto_mode (data : List Nat) (enc : String) (error : Option Nat) (version : Option Int)
    (mask : Option Nat) (eci : Bool) (micro : Option Bool) (boost : Bool) (f : String → Option Nat) (c : Model.Code)
    (h : Model.encode [{ data := data, mode := none, encoding := enc }] error version none mask eci micro boost f = .ok c) :
    c.segments.map (·.mode) = [Spec.autoMode data] := by
  exact Proofs.EncodeLevel.encode_single_auto_mode data enc error version mask eci micro boost f c h

/-- **C07**: a requested mode is honoured exactly when the content is representable in it -/
theorem encode_single_requested_mode (data : List Nat) (m : Nat) (enc : String) (error : Option Nat) (version : Option Int)
    (mask : Option Nat) (eci : Bool) (micro : Option Bool) (boost : Bool) (f : String → Option Nat)
    (hm : m ∈ [1, 2, 4, 8, 13]) :
    (∀ c, Model.encode [{ data := data, mode := some m, encoding := enc }] error version (some m) mask eci micro boost f = .ok c →
        c.segments.map (·.mode) = [m] ∧ Spec.representable m data = true)
    ∧ (Spec.representable m data = false →
        Model.encode [{ data := data, mode := some m, encoding := enc }] error version (some m) mask eci micro boost f
          = .error Model.PyErr.valueError) := by
  exact Proofs.EncodeLevel.encode_single_requested_mode data m enc error version mask eci micro boost f hm

/-! ### non-vacuity -/

/-- the hypotheses are satisfiable and the conclusions are computed to hold: "123" is accepted as an M1 symbol
    without level, in numeric mode, with the automatic mask the specification computes from the final matrix -/
example : (match Model.encode [⟨[49, 50, 51], none, "iso-8859-1"⟩] none none none none false none true (fun _ => none) with
    | .ok c => Spec.expectedVersion none false none (infos false c) false == some c.version && c.version == -3
        && Model.lvlKey c.error == Spec.expectedLevel c.version none true (infos false c) false
        && (Spec.bestMask c.version c.matrix c.mask).1 == c.mask
        && c.segments.map (·.mode) == [Spec.autoMode [49, 50, 51]]
    | .error _ => false) = true := by decide +kernel

end Props.EncodeLevel

#print axioms Props.EncodeLevel.encode_version_is_first_fit
#print axioms Props.EncodeLevel.encode_overflow_iff
#print axioms Props.EncodeLevel.encode_level_is_expected
#print axioms Props.EncodeLevel.encode_requested_mask
#print axioms Props.EncodeLevel.encode_auto_mask_is_iso_optimum
#print axioms Props.EncodeLevel.encode_single_auto_mode
#print axioms Props.EncodeLevel.encode_single_requested_mode
