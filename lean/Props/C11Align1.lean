/-
  C11, alignment tie per version (kernel-evaluated, see Proofs/Align.lean `alignCheck`): the matrix that
  `add_alignment_patterns` fills (Model.alignmentMatrix?, table `consts.ALIGNMENT_POS` regenerated in Gen/Align.lean)
  is 2 outside the Annex E blocks, 0 / 1 inside, and the blocks lie in the ISO alignment region.
-/
import Proofs.Align

namespace Props.C11Align

open Proofs.Align

theorem align_vm2 : alignCheck (-2) = true := by decide +kernel
theorem align_v2 : alignCheck (2) = true := by decide +kernel
theorem align_v16 : alignCheck (16) = true := by decide +kernel
theorem align_v17 : alignCheck (17) = true := by decide +kernel
theorem align_v25 : alignCheck (25) = true := by decide +kernel
theorem align_v40 : alignCheck (40) = true := by decide +kernel

end Props.C11Align
