/-
  Tie A, second round — the functions at the heart of C04 / C05 / C13 (version search, error level boost, terminator and
  padding), C06 (mask scores) and C02 (function patterns) ARE what the source says now.

  `Gen/Funcs2.lean` is written by the AST translator (tools/pytolean.py, grammar: docs/TRANSLATOR.md) from the CURRENT
  source of the repository on every run: loops with early `return` / `break` / `continue` are `Py.forM` / `Py.forP`
  (Gen/Py2.lean), `try` inside a loop is `Py.tryExcept` around the body, lists / bytearrays / the `Buffer` are `List Int`
  and every in-place update (`buff.extend(…)`, `levels.pop()`, `matrix[i][j] = v`, `row[a:b] = …`) is a functional update
  of the local it goes to; a parameter that is updated in place is returned by the translation.
  Each theorem states, for all arguments of the documented domain (unbounded), that the hand-written model function
  (`lean/Model/Encoder.lean`) is equal to the translation.  `toR` reads a result of translated code (`Except PyExc`) as a
  result of the model (`Except PyErr`).  Translation validation (`Gen/Funcs2Check.lean`, imported here): the Lean kernel
  evaluates every translated function on sample arguments and compares with what the real Python function returned.

  Matrices: the model's `Array (Array Nat)` is read as the list of rows `mI m`; `Sq m n` says that m is n × n.  A matrix
  parameter of the translation stands for a Python list of DISTINCT bytearrays (what `make_matrix` builds); `row =
  matrix[i]` followed by writes through `row` is translated as writes to row i of the matrix.

  How the segment list enters: the translated `find_version` / `boost_error_level` read a `Segments` object through
  `segments.modes`, `segments.bit_length`, `len(segments)` and the number of ECI indicators its (translated) method
  `bit_length_with_overhead` counts; `nEci`, `modesOf`, `bitLen` supply them from the model's segment list.
-/
import Gen.Funcs2Check
import Proofs.TieA2Stream
import Proofs.TieA2Boost
import Proofs.TieA2Version
import Proofs.TieA2Scores
import Proofs.TieA2Micro
import Proofs.TieA2Format
import Proofs.TieA2Finder
import Proofs.TieA2Align
import Proofs.TieA2Timing
import Proofs.TieA2Mode
import Proofs.TieA2Parity
import Proofs.TieA2Blocks
import Proofs.TieA2Final

set_option linter.unusedSimpArgs false

namespace Props.TieA2
open Gen.Py Proofs.TieA Proofs.TieA2 Model

/-! ## C04: `find_version` -/

/-- `find_version(segments, error, eci, micro, is_sa)` for EVERY segment list, every error level number (or `None`), both
    ECI flags, `micro` ∈ {None, False, True} and both structured-append flags: the same version, `AssertionError` /
    `ValueError` (unknown mode, no segment) / `DataOverflowError` in the same cases.  The range loop with `try … except
    KeyError` and early `return` of the source is the `List.find?` of the model; the error level the loop carries from one
    iteration to the next (`None` until the first version that is not M1) is the level the model recomputes per version. -/
theorem find_version_tie (segs : List Segment) (e : Option Nat) (eci : Bool) (micro : Option Bool) (isSa : Bool) :
    toR (Gen.Funcs2.find_version (nEci segs) (modesOf segs) (bitLen segs) (e.map Int.ofNat) eci micro isSa)
      = Model.findVersion segs e eci micro isSa :=
  fv_tie segs e eci micro isSa

/-- one numeric segment of 41 data bits (10 + 4 + 10 + 10 + 7 …): M3-L does not hold it (84 ≥ 3 + 5 + 41 is true: M3) -/
example : Gen.Funcs2.find_version 0 [1] 34 none false none false = .ok (-2)
    ∧ Gen.Funcs2.find_version 0 [4] 80 (some 1) false none false = .ok 0
    ∧ Gen.Funcs2.find_version 0 [4] 80 (some 2) false (some false) false = .ok 2
    ∧ Gen.Funcs2.find_version 0 [4] 30000 none false none false = .error .dataOverflow
    ∧ Gen.Funcs2.find_version 0 [] 0 none false none false = .error .valueError := by decide +kernel

/-! ## C05: `boost_error_level` -/

/-- `boost_error_level(version, error, segments, eci, is_sa)` for every version number ≤ 40, every error level number (or
    `None`), every segment list and flag combination: the same level, `KeyError` (no capacity / character count entry) and
    `ValueError` (`levels.index(error)` of a level the version does not have) in the same cases.  `levels.pop()`,
    `levels.index`, the slice and the `break` of the source against the recursion `go` of the model. -/
theorem boost_error_level_tie (segs : List Segment) (v : Int) (hv : v ≤ 40) (e : Option Nat) (eci isSa : Bool) :
    toR (Gen.Funcs2.boost_error_level v (e.map Int.ofNat) (Int.ofNat segs.length) (nEci segs) (modesOf segs) (bitLen segs) eci isSa)
      = (Model.boostErrorLevel v e segs eci isSa).map (Option.map Int.ofNat) :=
  boost_tie segs v hv e eci isSa

/-- version 1, level L, one byte segment of 8 + 4 + 8 bits: boosted to H (72 ≥ 20); M4 never beyond Q; M2 never beyond M -/
example : Gen.Funcs2.boost_error_level 1 (some 1) 1 0 [4] 8 false false = .ok (some 2)
    ∧ Gen.Funcs2.boost_error_level 0 (some 1) 1 0 [4] 8 false false = .ok (some 3)
    ∧ Gen.Funcs2.boost_error_level (-2) (some 1) 1 0 [1] 8 false false = .ok (some 0)
    ∧ Gen.Funcs2.boost_error_level 1 (some 1) 2 0 [4, 4] 8 false false = .ok (some 1)
    ∧ Gen.Funcs2.boost_error_level (-2) (some 3) 1 0 [1] 8 false false = .error .valueError := by decide +kernel

/-! ## C13: terminator, padding bits, pad codewords -/

/-- `write_terminator(buff, capacity, ver, len(buff))` as `_encode` calls it (`ver` = None for a QR Code): the buffer
    afterwards is the first stage of `Model.finishStream`; `KeyError` for a version without terminator length -/
theorem write_terminator_tie (buff : List Nat) (cap : Nat) (v : Int) :
    Gen.Funcs2.write_terminator (toI buff) cap (verArg v) buff.length =
      match Model.terminatorLength v with
      | none => .error .keyError
      | some tl => .ok (toI (stage1 buff cap tl)) :=
  write_terminator_eq buff cap v

/-- `write_padding_bits(buff, version, len(buff))`: the second stage (including D1: 8 zero bits when the stream is
    already aligned) -/
theorem write_padding_bits_tie (b1 : List Nat) (v : Int) :
    Gen.Funcs2.write_padding_bits (toI b1) v b1.length = toI (stage2 b1 v) :=
  write_padding_bits_eq b1 v

/-- `write_pad_codewords(buff, version, capacity, len(buff))`: the third stage, for every buffer, version number and
    capacity; the loop `for i in range(…): write(pad_codewords[i % 2])` never raises -/
theorem write_pad_codewords_tie (b2 : List Nat) (v : Int) (cap : Nat) :
    Gen.Funcs2.write_pad_codewords (toI b2) v cap b2.length = .ok (toI (stage3 b2 v cap)) :=
  write_pad_codewords_eq b2 v cap

/-- the three stages are `Model.finishStream` -/
theorem finish_stream_stages (buff : List Nat) (v : Int) (cap : Nat) :
    Model.finishStream buff v cap =
      match Model.terminatorLength v with
      | none => .error .keyError
      | some tl => .ok (stage3 (stage2 (stage1 buff cap tl) v) v cap) :=
  finishStream_stages buff v cap

/-- the three calls as `_encode` makes them (lines "write_terminator … write_pad_codewords"), composed -/
def finishStreamPy (buff : List Int) (v : Int) (cap : Int) : M (List Int) :=
  Gen.Py.bind (Gen.Funcs2.write_terminator buff cap (verArg v) buff.length) (fun b1 =>
    let b2 := Gen.Funcs2.write_padding_bits b1 v b1.length
    Gen.Funcs2.write_pad_codewords b2 v cap b2.length)

/-- … are `Model.finishStream`, for every bit stream, version number and capacity -/
theorem finish_stream_tie (buff : List Nat) (v : Int) (cap : Nat) :
    toR (finishStreamPy (toI buff) v cap) = (Model.finishStream buff v cap).map toI := by
  unfold finishStreamPy
  rw [finishStream_stages]
  have h1 := write_terminator_eq buff cap v
  simp only [toI_length] at h1 ⊢
  rw [h1]
  cases Model.terminatorLength v with
  | none => rfl
  | some tl =>
    simp only [bind_ok]
    have h2 := write_padding_bits_eq (stage1 buff cap tl) v
    simp only [toI_length] at h2 ⊢
    rw [h2]
    have h3 := write_pad_codewords_eq (stage2 (stage1 buff cap tl) v) v cap
    simp only [toI_length] at h3 ⊢
    rw [h3]
    rfl

/-- version 1-H (72 bits), 20 data bits: terminator 4 → 24 bits, already aligned — `write_padding_bits` nevertheless adds
    8 zero bits (finding D1, characterised in Props/C13) — then five pad codewords -/
example : finishStreamPy [0, 1, 0, 0, 0, 0, 0, 0, 0, 0, 0, 1, 0, 1, 0, 0, 0, 0, 0, 1] 1 72
    = .ok ([0, 1, 0, 0, 0, 0, 0, 0, 0, 0, 0, 1, 0, 1, 0, 0, 0, 0, 0, 1, 0, 0, 0, 0] ++ [0, 0, 0, 0, 0, 0, 0, 0]
      ++ [1, 1, 1, 0, 1, 1, 0, 0] ++ [0, 0, 0, 1, 0, 0, 0, 1] ++ [1, 1, 1, 0, 1, 1, 0, 0] ++ [0, 0, 0, 1, 0, 0, 0, 1]
      ++ [1, 1, 1, 0, 1, 1, 0, 0]) := by decide +kernel

/-! ## C06: mask evaluation -/

/-- `mask_scores(matrix, n, n)` for every n × n matrix (n ≥ 1) of 0/1 modules: the single nested loop of the source (eight
    loop-carried locals, `last_row`, the column buffer `n3_column`, the nested function `n3_pattern_occurrences` with its
    `while` loop over `seq.find`) yields exactly (N1, N2, N3, N4) of `Model.maskScores` — which `Props/C06.lean`
    (`score_eq_iso`) shows equal to the ISO penalty.  In particular the translation never raises, and the fuel declared for
    the `while` loop suffices.
    N4: the float expression `10 * int(abs(float(dark) / size² * 100 - 50) / 5)` is translated in EXACT rational
    arithmetic (`Py.Q`); that IEEE doubles give the same integer is the correspondence assumption of this tie, checked
    by the differential test of C06 on every generated symbol. -/
theorem mask_scores_tie (m : Matrix) (n : Nat) (hs : Sq m n) (hn : 1 ≤ n) (hbits : ∀ i j, get2 m i j ≤ 1) :
    Gen.Funcs2.mask_scores (mI m) n n
      = .ok (Int.ofNat (maskScores m).1, Int.ofNat (maskScores m).2.1, Int.ofNat (maskScores m).2.2.1,
          Int.ofNat (maskScores m).2.2.2) :=
  mask_scores_eq m n hs hn hbits

/-- `evaluate_mask` = N1 + N2 + N3 + N4 -/
theorem evaluate_mask_tie (m : Matrix) (n : Nat) (hs : Sq m n) (hn : 1 ≤ n) (hbits : ∀ i j, get2 m i j ≤ 1) :
    Gen.Funcs2.evaluate_mask (mI m) n n = .ok (Int.ofNat (evaluateMask m)) :=
  evaluate_mask_eq m n hs hn hbits

/-- the nested function `n3_pattern_occurrences(seq)` of `mask_scores` for every sequence (row or column of length
    `qr_size`): the `while idx != -1` loop over `seq.find(pattern, idx + 4)` is `Model.n3Occurrences`; the declared fuel
    `len(seq) + 1` is never exhausted -/
theorem n3_pattern_occurrences_tie (seq : List Nat) :
    Gen.Funcs2.n3_pattern_occurrences [1, 0, 1, 1, 1, 0, 1] (seq.length : Int) (toI seq)
      = .ok (Int.ofNat (Model.n3Occurrences seq)) :=
  n3_occurrences_eq seq

/-- `evaluate_micro_mask(matrix, n, n)` for every n × n matrix, n ≥ 1 (`matrix[-1]`, `matrix[i][-1]`: negative indexes) -/
theorem evaluate_micro_mask_tie (m : Matrix) (n : Nat) (hs : Sq m n) (hn : 1 ≤ n) :
    Gen.Funcs2.evaluate_micro_mask (mI m) n n = .ok (Int.ofNat (Model.evaluateMicroMask m)) :=
  evaluate_micro_mask_eq m n hs hn

/-- a 2 × 2 matrix of dark modules: one 2 × 2 block (N2 = 3), all dark (N4 = 10 · ⌊50 / 5⌋ = 100) -/
example : Gen.Funcs2.mask_scores [[1, 1], [1, 1]] 2 2 = .ok (0, 3, 0, 100)
    ∧ Gen.Funcs2.n3_pattern_occurrences [1, 0, 1, 1, 1, 0, 1] 11 [1, 0, 1, 1, 1, 0, 1, 0, 0, 0, 0] = .ok 40
    ∧ Gen.Funcs2.evaluate_micro_mask [[0, 0, 1], [0, 0, 1], [1, 0, 1]] 3 3 = .ok (1 * 16 + 2) := by decide +kernel

/-! ## C02: function patterns -/

/-- `add_format_info(matrix, version, error, mask_pattern)` on an n × n matrix (n ≥ 9), every version number, error level
    (or `None`) and mask number: the alias `row_eight = matrix[8]`, the negative indexes `row_eight[-1 - i]`,
    `matrix[-1 - i][8]`, `matrix[-8][8]` and the offsets that change at i = 6 against the `set2` folds of the model;
    `IndexError` / `KeyError` of `calc_format_info` in the same cases -/
theorem add_format_info_tie (m : Matrix) (n : Nat) (hs : Sq m n) (hn : 9 ≤ n) (v : Int) (e : Option Nat) (mask : Nat) :
    toR (Gen.Funcs2.add_format_info (mI m) v (e.map Int.ofNat) mask) = (Model.addFormatInfo m v e mask).map mI :=
  add_format_info_eq m n hs hn v e mask

/-- `add_version_info(matrix, version)` on an n × n matrix (n ≥ 11), every version number (`IndexError` above 40) -/
theorem add_version_info_tie (m : Matrix) (n : Nat) (hs : Sq m n) (hn : 11 ≤ n) (v : Int) :
    toR (Gen.Funcs2.add_version_info (mI m) v) = (Model.addVersionInfo m v).map mI :=
  add_version_info_eq m n hs hn v

/-- `add_finder_patterns(matrix, n, n)` on an n × n matrix (n ≥ 8): the slice assignments
    `matrix[i + r][j:j + 8] = _FINDER_PATTERN[offset + r][sepoffset:sepoffset + 8]` are the 64 cell writes per corner -/
theorem add_finder_patterns_tie (m : Matrix) (n : Nat) (hs : Sq m n) (hn : 8 ≤ n) :
    Gen.Funcs2.add_finder_patterns (mI m) n n = .ok (mI (Model.addFinderPatterns m n)) :=
  add_finder_patterns_eq m n hs hn

/-- `add_alignment_patterns(matrix, n, n)` on an n × n matrix of a symbol size (n < 25: none; n = 4·ver + 17, ver ≤ 40):
    `product(positions, repeat=2)`, `continue` for the three finder corners, the 5-module slice assignments -/
theorem add_alignment_patterns_tie (m : Matrix) (n : Nat) (hs : Sq m n) (hn : n < 25 ∨ (n % 4 = 1 ∧ n ≤ 177)) :
    toR (Gen.Funcs2.add_alignment_patterns (mI m) n n) = (Model.addAlignmentPatterns m n).map mI :=
  add_alignment_patterns_eq m n hs hn

/-- `add_timing_pattern(matrix, is_micro)` (called by `make_matrix`) is the last fold of `Model.makeMatrix`, `timingM` -/
theorem add_timing_pattern_tie (m : Matrix) (n : Nat) (hs : Sq m n) (isMicro : Bool) (hn : if isMicro then 1 ≤ n else 7 ≤ n) :
    Gen.Funcs2.add_timing_pattern (mI m) isMicro = .ok (mI (timingM m n isMicro)) :=
  add_timing_pattern_eq m n hs isMicro hn

/-- … and `Model.makeMatrix` ends with it -/
theorem make_matrix_timing (n : Nat) : Model.makeMatrix n = timingM (reservedM n) n (decide (n < 21)) :=
  makeMatrix_eq_timingM n

/-- the hypotheses are satisfiable: the 21 × 21 matrix of `make_matrix` -/
example : Sq (Model.makeMatrix 21) 21 := ⟨by decide +kernel, by decide +kernel⟩

/-! ## C07: mode detection -/

/-- `is_kanji(data)` for every byte string: `iter` / `next`, the range loop with two early `return False` -/
theorem is_kanji_tie (data : List Nat) (hb : ∀ b ∈ data, b < 256) :
    Gen.Funcs2.is_kanji (toI data) = .ok (Model.isKanji data) :=
  is_kanji_eq data hb

/-- `find_mode(data)` for every byte string.  The regular expression behind `is_alphanumeric(data)` is an OPAQUE read
    of the translation (parameter `is_alnum`); the tie supplies "non-empty and only characters of the alphanumeric
    table" for it — that the compiled pattern means this is checked by the differential test of C07, not proved -/
theorem find_mode_tie (data : List Nat) (hb : ∀ b ∈ data, b < 256) :
    Gen.Funcs2.find_mode (toI data) (decide (data.length ≠ 0) && data.all Model.isAlnumByte)
      = .ok (Int.ofNat (Model.findMode data)) :=
  find_mode_eq data hb

example : Gen.Funcs2.is_kanji [0x93, 0x5f] = .ok true ∧ Gen.Funcs2.is_kanji [0x93, 0x7f] = .ok false
    ∧ Gen.Funcs2.find_mode [0x31, 0x32] false = .ok 1 ∧ Gen.Funcs2.find_mode [0x93, 0x5f] false = .ok 8 := by decide +kernel

/-! ## C03: Reed-Solomon blocks -/

/-- `make_blocks(ec_infos, buff)` for every bit stream and every EC information list (num_blocks ≥ 1, num_data ≤ num_total,
    as in `consts.ECC`): the iterator over `buff.toints()` consumed by `islice`, the four nested loops and the in-place
    `error_block[k + n + 1] ^= gen_exp[lcoef + gen[n]]` of the source yield the data and error correction blocks of
    `Model.makeBlocks` (whose blocks `Props/C03.lean` shows to be Reed-Solomon codewords); `KeyError` for a number of error
    words without generator polynomial in the same cases; no table index leaves its table -/
theorem make_blocks_tie (ecs : List (Nat × Nat × Nat)) (bits : List Nat) (hbits : ∀ b ∈ bits, b ≤ 1)
    (hec : ∀ e ∈ ecs, 1 ≤ e.1 ∧ e.2.2 ≤ e.2.1) :
    toR (Gen.Funcs2.make_blocks (ecI ecs) (toI bits))
      = (Model.makeBlocks ecs (Model.toInts (bits.length + 1) bits)).map (fun p => (p.1.map toI, p.2.map toI)) :=
  make_blocks_eq ecs bits hbits hec

/-- version M1 (3 data codewords, the last one of 4 bits; 2 error correction codewords) -/
example : Gen.Funcs2.make_blocks [(1, 5, 3)] [0, 1, 0, 0, 0, 0, 0, 1, 1, 0, 1, 0, 1, 1, 1, 1, 0, 0, 1, 0]
    = .ok ([[65, 175, 32]], [[226, 44]]) := by decide +kernel

/-- `to_binary(val, length)` (nested function of `make_final_message`, a generator expression over
    `reversed(range(length))`) is `Model.appendBits` -/
theorem to_binary_tie (x len : Nat) : Gen.Funcs2.to_binary (x : Int) (len : Int) = toI (Model.appendBits x len) :=
  to_binary_eq x len

/-- `make_final_message(version, error, buff)` for EVERY version number, error level (or `None`) and bit stream:
    `consts.ECC[version][error]`, `make_blocks`, for M1 / M3 `data_blocks[0].pop(-1) >> 4`, the interleaving pipelines
    `chain(*map(to_binary, (x for x in chain.from_iterable(zip_longest(*blocks)) if x is not None)))` and the remainder bits
    yield the final message of `Model.makeFinalMessage`; `KeyError` (no ECC entry / generator polynomial) and `IndexError`
    (M1 / M3 without a data codeword) in the same cases and in the same order -/
theorem make_final_message_tie (v : Int) (e : Option Nat) (bits : List Nat) (hbits : ∀ b ∈ bits, b ≤ 1) :
    toR (Gen.Funcs2.make_final_message v (e.map Int.ofNat) (toI bits)) = (Model.makeFinalMessage v e bits).map toI :=
  make_final_message_eq v e bits hbits

/-- M1: three data codewords, the last one of 4 bits, two error correction codewords: 20 + 16 bits -/
example : Gen.Funcs2.make_final_message (-3) none [0, 1, 0, 0, 0, 0, 0, 1, 1, 0, 1, 0, 1, 1, 1, 1, 0, 0, 1, 0]
    = .ok ([0, 1, 0, 0, 0, 0, 0, 1, 1, 0, 1, 0, 1, 1, 1, 1, 0, 0, 1, 0] ++ [1, 1, 1, 0, 0, 0, 1, 0] ++ [0, 0, 1, 0, 1, 1, 0, 0]) := by
  decide +kernel

/-! ## C08: Structured Append parity -/

/-- `calc_structured_append_parity(content)`.  The three `content.encode(…)` calls are OPAQUE reads that can raise
    (text codecs are a runtime service): the translation takes their outcomes as parameters of type `M (List Int)`.  Whatever
    codec succeeds first in the order iso-8859-1, shift-jis (`UnicodeError`), utf-8 (`UnicodeError` / `LookupError`), the
    result is the XOR of the bytes, `Model.xorBytes` (`TypeError` of `reduce` for empty data). -/
theorem structured_append_parity_tie (s : String) (l : List Nat) (h : l ≠ []) (x y : M (List Int)) (e : PyExc)
    (he : e = .unicodeError ∨ e = .lookupError) :
    Gen.Funcs2.calc_structured_append_parity s (.ok (toI l)) x y = .ok (Int.ofNat (xorBytes l))
    ∧ Gen.Funcs2.calc_structured_append_parity s (.error .unicodeError) (.ok (toI l)) y = .ok (Int.ofNat (xorBytes l))
    ∧ Gen.Funcs2.calc_structured_append_parity s (.error .unicodeError) (.error e) (.ok (toI l)) = .ok (Int.ofNat (xorBytes l)) :=
  ⟨parity_latin1 s l h x y, parity_sjis s l h y, parity_utf8 s l h e he⟩

example : Gen.Funcs2.calc_structured_append_parity "AB" (.ok [65, 66]) (.ok []) (.ok []) = .ok 3
    ∧ Gen.Funcs2.calc_structured_append_parity "" (.ok []) (.ok []) (.ok []) = .error .typeError := by decide +kernel

end Props.TieA2
