/-
  C09 — WHOLE DOCUMENTS of the raster and text writers.  Property theorems only (helper lemmas:
  Proofs/RasterDocs*.lean).

  `Model.RasterDocs.*` is the hand-written model of `write_pbm`, `write_ppm`, `write_pam`, `write_xbm`,
  `write_xpm`, `write_txt`, `write_terminal`, `write_terminal_compact` and of the chunk framing of `write_png`
  (segno/writers.py) — whole files, tied to the real code by `./check C09` byte for byte (every call of the
  generator + an extra stream over the option space).  `Spec.L.*` (Spec/RasterL.lean) are the reference readers
  of the formats as functions on lists of bytes / characters; the judge command `c09l` runs them side by side
  with the readers that judge the real files (Spec/Raster.lean) on every real file and on damaged copies.

  All statements below are of the shape of `Props.C09Png.png_model_picture`: the reference reader applied to the document
  the model writes returns EXACTLY the expected picture — (w+2b)·s columns, (h+2b)·s rows, pixel (x, y) dark
  exactly when `Spec.grid` (= module (y div s − b, x div s − b), quiet zone light) is — in the configured
  colours; for every matrix of 0 / 1 values, every scale ≥ 1 (a float is truncated), every border ≥ 0 or the
  default.  Unbounded, no sampling.
-/
import Props.C09Png
import Proofs.RasterDocsNetpbm
import Proofs.RasterDocsPpm
import Proofs.RasterDocsPam
import Proofs.RasterDocsXbm
import Proofs.RasterDocsXpm
import Proofs.RasterDocsText
import Proofs.RasterDocsPng
import Proofs.RasterDocsPngOk
import Proofs.RasterDocsPngPicture

namespace Props.C09Docs

open Model Model.RasterDocs Spec Proofs.Raster Proofs.RasterDocs

/-- the property's admission conditions (not `Refused`, border absent or an `int` b) are what the validation
    of the writers lets through -/
theorem admitted_of (w h : Nat) (scale : Num) (border : Option Num) (b : Nat)
    (hnr : ¬ Props.C09.Refused scale border) (hb : Props.C09.borderValue w h border = some b) : Admitted w h scale border b := by
  have hs1 : ¬ scale.toInt < 1 := fun h => hnr (Or.inl h)
  refine ⟨?_, ?_, ?_⟩
  · unfold checkValidScale
    have : ¬ scale.toInt ≤ 0 := by omega
    simp [this]; rfl
  · unfold checkValidBorder
    cases border with
    | none => rfl
    | some x =>
      have : ¬ ((x.isFractional || x.isNegative) = true) := by
        intro h
        apply hnr; right; refine ⟨x, rfl, ?_⟩
        simpa [Bool.or_eq_true] using h
      simp [this]; rfl
  · unfold borderForRange
    cases border with
    | none => simp [Props.C09.borderValue] at hb; simp [hb]; rfl
    | some x =>
      cases x with
      | int i => simp [Props.C09.borderValue] at hb; simp [hb]; rfl
      | float _ _ _ => simp [Props.C09.borderValue] at hb

/-- the picture of a 0 / 1 grid in two colours -/
def twoTone (g : List (List Nat)) (dark light : RGBA) : List (List (Option RGBA)) :=
  g.map (fun row => row.map (fun v => some (if v ≠ 0 then dark else light)))

/-! ### refusals: every writer refuses what the property wants refused -/

/-- `docs_refused`: a scale below 1 (after truncation) and a negative or fractional border are refused with
    `ValueError` by every document writer of the model (the raster writers take `scale`; the text writers only
    `border`) -/
theorem docs_refused (M : List (List Nat)) (w h : Nat) (scale : Num) (border : Option Num) (hr : Props.C09.Refused scale border)
    (plain : Bool) (colormap : List (Nat × ColorArg)) (dark light : Option ColorArg) (name : List Char)
    (setOrder : List PColor → List PColor) (o : TypeOpts ColorArg) (dpi : Option Dpi) (comp : List Nat) :
    pbmDoc M w h scale border plain = .error .valueError
    ∧ ppmDoc M w h colormap scale border = .error .valueError
    ∧ pamDoc M w h scale border dark light = .error .valueError
    ∧ xbmDoc M w h scale border name = .error .valueError
    ∧ xpmDoc M w h scale border dark light name = .error .valueError
    ∧ savePngFile setOrder M w h dark light o scale border dpi comp = .error .valueError := by
  have hv : validSB scale border = .error .valueError := by
    unfold validSB checkValidScale checkValidBorder
    rcases hr with hs | ⟨x, rfl, hx⟩
    · have hs' : scale.toInt ≤ 0 := by omega
      simp [hs', bind, Except.bind, throw, throwThe, MonadExceptOf.throw]
    · have : (x.isFractional || x.isNegative) = true := by rcases hx with h | h <;> simp [h]
      by_cases hs' : scale.toInt ≤ 0
      · simp [hs', bind, Except.bind, throw, throwThe, MonadExceptOf.throw]
      · simp [hs', this, bind, Except.bind, pure, Except.pure, throw, throwThe, MonadExceptOf.throw]
  have hppm : ppmRaster M w h colormap scale border = .error .valueError := by
    unfold ppmRaster checkValidScale checkValidBorder
    rcases hr with hs | ⟨x, rfl, hx⟩
    · have hs' : scale.toInt ≤ 0 := by omega
      simp [hs', bind, Except.bind, throw, throwThe, MonadExceptOf.throw]
    · have : (x.isFractional || x.isNegative) = true := by rcases hx with h | h <;> simp [h]
      by_cases hs' : scale.toInt ≤ 0
      · simp [hs', bind, Except.bind, throw, throwThe, MonadExceptOf.throw]
      · simp [hs', this, bind, Except.bind, pure, Except.pure, throw, throwThe, MonadExceptOf.throw]
  refine ⟨?_, ?_, ?_, ?_, ?_, ?_⟩
  · simp [pbmDoc, hv, bind, Except.bind]
  · simp [ppmDoc, hppm, bind, Except.bind]
  · unfold pamDoc
    by_cases hf : isFalsy (dark.getD (.str "#000")) = true
    · simp [hf, bind, Except.bind, throw, throwThe, MonadExceptOf.throw]
    · simp [hf, hv, bind, Except.bind, pure, Except.pure]
  · simp [xbmDoc, hv, bind, Except.bind]
  · simp [xpmDoc, hv, bind, Except.bind]
  · simp [savePngFile, hv, bind, Except.bind]

/-- the text writers (scale is always 1) refuse a negative or fractional border -/
theorem text_docs_refused (M : List (List Nat)) (w h : Nat) (border : Option Num) (hr : Props.C09.Refused (.int 1) border)
    (dark light : List Char) :
    txtDoc M w h border dark light = .error .valueError ∧ ansiDoc M w h border = .error .valueError
    ∧ compactDoc M w h border = .error .valueError := by
  have hi := Props.C09.matrix_iter_refused M w h (.int 1) border hr
  refine ⟨?_, ?_, ?_⟩
  · simp [txtDoc, hi, bind, Except.bind]
  · simp [ansiDoc, hi, bind, Except.bind]
  · simp [compactDoc, hi, bind, Except.bind]

/-! ### Netpbm -/

/-- `pbm_p4_picture` (PBM, binary P4; every 0 / 1 matrix of at least one module, scale ≥ 1, border ≥ 0 or default):
    the model writes a file — `P4`, the comment, width and height, the packed rows — which the reference PBM
    reader decodes to exactly the `Spec.grid` picture: black for dark modules, white for light ones and the
    whole quiet zone -/
theorem pbm_p4_picture (M : List (List Nat)) (w h : Nat) (scale : Num) (border : Option Num) (b : Nat)
    (hM : WellFormed M w h) (hbits : Bits M) (hw : 0 < w) (hh : 0 < h)
    (hnr : ¬ Props.C09.Refused scale border) (hb : Props.C09.borderValue w h border = some b) :
    ∃ doc, pbmDoc M w h scale border false = .ok doc
      ∧ L.readPbm doc = .ok { w := (w + 2 * b) * scale.toInt.toNat, h := (h + 2 * b) * scale.toInt.toNat,
                              px := twoTone (grid M w h scale.toInt.toNat b) black white } :=
  pbm_p4 (admitted_of w h scale border b hnr hb) M hM hbits hw hh

/-- `pbm_p1_picture` (plain PBM, P1): the same for `plain=True` (one ASCII digit per pixel, one line per row) -/
theorem pbm_p1_picture (M : List (List Nat)) (w h : Nat) (scale : Num) (border : Option Num) (b : Nat)
    (hM : WellFormed M w h) (hbits : Bits M) (hw : 0 < w) (hh : 0 < h)
    (hnr : ¬ Props.C09.Refused scale border) (hb : Props.C09.borderValue w h border = some b) :
    ∃ doc, pbmDoc M w h scale border true = .ok doc
      ∧ L.readPbm doc = .ok { w := (w + 2 * b) * scale.toInt.toNat, h := (h + 2 * b) * scale.toInt.toNat,
                              px := twoTone (grid M w h scale.toInt.toNat b) black white } :=
  pbm_p1 (admitted_of w h scale border b hnr hb) M hM hbits hw hh

/-- `ppm_picture_types` (PPM P6 with the per-type colours of `colorful`; every matrix, colour map, scale, border):
    whenever the model of `write_ppm` succeeds, the reference PPM reader decodes its whole file (header with
    comment, width, height, maxval 255, raster) to a picture of (w+2b)·s × (h+2b)·s pixels in which every pixel
    shows — exact R, G, B, opaque — the colour configured for the module type that `matrix_iter_verbose` yields
    for that pixel (`Props.C11.iter_verbose_pixel`: the ISO type of module (y div s − b, x div s − b), D8 excepted) -/
theorem ppm_picture_types (M : List (List Nat)) (w h : Nat) (colormap : List (Nat × ColorArg)) (scale : Num) (border : Option Num) (b : Nat)
    (hw : 0 < w) (hh : 0 < h) (hnr : ¬ Props.C09.Refused scale border) (hb : Props.C09.borderValue w h border = some b)
    (doc : List Nat) (hdoc : ppmDoc M w h colormap scale border = .ok doc) :
    ∃ (rows : List (List Nat)) (px : Nat → RGBA),
      matrixIterVerbose M w h scale border = .ok rows
      ∧ rows.length = (h + 2 * b) * scale.toInt.toNat ∧ (∀ r ∈ rows, r.length = (w + 2 * b) * scale.toInt.toNat)
      ∧ (∀ r ∈ rows, ∀ t ∈ r, ∃ c rr g bb, cmGet colormap t = some c ∧ colorToRgb c = .ok [rr, g, bb] ∧ px t = ⟨rr, g, bb, 255⟩)
      ∧ L.readPpm doc = .ok { w := (w + 2 * b) * scale.toInt.toNat, h := (h + 2 * b) * scale.toInt.toNat,
                              px := rows.map (fun row => row.map (fun t => some (px t))) } :=
  ppm_doc (admitted_of w h scale border b hnr hb) M hw hh colormap doc hdoc

/-- `pam_picture` (PAM P7; every tuple type the colour logic of `write_pam` can choose: BLACKANDWHITE,
    GRAYSCALE_ALPHA, RGB, RGB_ALPHA): whenever the model succeeds, the reference PAM reader decodes its whole
    file (WIDTH / HEIGHT / DEPTH / MAXVAL / TUPLTYPE / ENDHDR, raster) to exactly the `Spec.grid` picture in
    the two configured colours; "shows": exact R, G, B, A, `None` = alpha 0 -/
theorem pam_picture (M : List (List Nat)) (w h : Nat) (scale : Num) (border : Option Num) (b : Nat)
    (hM : WellFormed M w h) (hbits : Bits M) (hw : 0 < w) (hh : 0 < h)
    (hnr : ¬ Props.C09.Refused scale border) (hb : Props.C09.borderValue w h border = some b)
    (dark light : Option ColorArg) (doc : List Nat) (hdoc : pamDoc M w h scale border dark light = .ok doc) :
    ∃ dC lC dPx lPx,
      pngColor (dark.getD (.str "#000")) = .ok dC ∧ pngColor (light.getD (.str "#fff")) = .ok lC
      ∧ Proofs.Png.Shows dC dPx ∧ Proofs.Png.Shows lC lPx
      ∧ L.readPam doc = .ok { w := (w + 2 * b) * scale.toInt.toNat, h := (h + 2 * b) * scale.toInt.toNat,
                              px := twoTone (grid M w h scale.toInt.toNat b) dPx lPx } :=
  pam_doc (admitted_of w h scale border b hnr hb) M hM hbits hw hh dark light doc hdoc

/-! ### C source formats -/

/-- `xbm_picture` (XBM; every C identifier as `name`): the model writes a C source text — two `#define`s, the
    declaration `static unsigned char NAME_bits[] = {`, the rows as `0x..` bytes (least significant bit = leftmost
    pixel), `};` — which the reference reader (C tokenizer + XBM grammar) decodes to exactly the `Spec.grid`
    picture in black and white -/
theorem xbm_picture (M : List (List Nat)) (w h : Nat) (scale : Num) (border : Option Num) (b : Nat)
    (hM : WellFormed M w h) (hbits : Bits M) (hw : 0 < w) (hh : 0 < h)
    (hnr : ¬ Props.C09.Refused scale border) (hb : Props.C09.borderValue w h border = some b)
    (name : List Char) (hname : IsCIdent name) :
    ∃ doc, xbmDoc M w h scale border name = .ok doc
      ∧ L.readXbm doc name = .ok { w := (w + 2 * b) * scale.toInt.toNat, h := (h + 2 * b) * scale.toInt.toNat,
                                   px := twoTone (grid M w h scale.toInt.toNat b) black white } :=
  xbm_doc (admitted_of w h scale border b hnr hb) M hM hbits hw hh name hname

/-- `xpm_picture` (XPM3; every C identifier as `name`, colours of any accepted notation, `None` on either side):
    whenever the model of `write_xpm` succeeds, the reference reader decodes its whole text (`/* XPM */`,
    declaration, values line, the two colour lines, one string per row) to exactly the `Spec.grid` picture in the
    two configured colours: the opaque R, G, B `color_to_rgb_hex` prints, alpha 0 for `None` -/
theorem xpm_picture (M : List (List Nat)) (w h : Nat) (scale : Num) (border : Option Num) (b : Nat)
    (hM : WellFormed M w h) (hw : 0 < w) (hh : 0 < h)
    (hnr : ¬ Props.C09.Refused scale border) (hb : Props.C09.borderValue w h border = some b)
    (dark light : Option ColorArg) (name : List Char) (hname : IsCIdent name) (doc : List Char)
    (hdoc : xpmDoc M w h scale border dark light name = .ok doc) :
    ∃ dPx lPx, XpmShows (dark.getD (.str "#000")) dPx ∧ XpmShows (light.getD (.str "#fff")) lPx
      ∧ L.readXpm doc name = .ok { w := (w + 2 * b) * scale.toInt.toNat, h := (h + 2 * b) * scale.toInt.toNat,
                                   px := twoTone (grid M w h scale.toInt.toNat b) dPx lPx } :=
  xpm_doc (admitted_of w h scale border b hnr hb) M hM hw hh dark light name hname doc hdoc

/-! ### text formats (one cell per module: scale 1) -/

/-- `txt_lines` (TXT): the text consists of exactly one line per row of the `Spec.grid` (scale 1), each the
    concatenation of the strings configured for dark / light modules — what the judge compares line by line.
    (`dark` / `light` may be any strings without a line feed.) -/
theorem txt_lines (M : List (List Nat)) (w h : Nat) (border : Option Num) (b : Nat)
    (hM : WellFormed M w h) (hbits : Bits M)
    (hnr : ¬ Props.C09.Refused (.int 1) border) (hb : Props.C09.borderValue w h border = some b)
    (dark light : List Char) (hd : ∀ c ∈ dark, c ≠ '\n') (hl : ∀ c ∈ light, c ≠ '\n') :
    ∃ doc, txtDoc M w h border dark light = .ok doc
      ∧ L.linesT doc [] = some ((grid M w h 1 b).map (fun row => row.flatMap (fun v => if v ≠ 0 then dark else light))) :=
  txt_doc (admitted_of w h (.int 1) border b hnr hb) M hM hbits dark light hd hl

/-- `ansi_picture` (ANSI terminal): the reference reader (SGR state machine: `ESC[7m` reverse video = light,
    `ESC[49m` = dark, two spaces per cell, `ESC[0m`) decodes the model's text to exactly the `Spec.grid` picture -/
theorem ansi_picture (M : List (List Nat)) (w h : Nat) (border : Option Num) (b : Nat)
    (hM : WellFormed M w h) (hbits : Bits M) (hh : 0 < h)
    (hnr : ¬ Props.C09.Refused (.int 1) border) (hb : Props.C09.borderValue w h border = some b) :
    ∃ doc, ansiDoc M w h border = .ok doc
      ∧ L.readAnsi doc = .ok { w := (w + 2 * b) * 1, h := (h + 2 * b) * 1, px := twoTone (grid M w h 1 b) black white } :=
  ansi_doc (admitted_of w h (.int 1) border b hnr hb) M hM hbits hh

/-- `compact_picture` (compact terminal, half blocks): the reference reader decodes the model's text to the
    `Spec.grid` picture, followed — when the number of rows is odd, which it is for every symbol — by one more
    row of dark cells: the lower half of the last text line, which lies outside the picture (`padOdd`) -/
theorem compact_picture (M : List (List Nat)) (w h : Nat) (border : Option Num) (b : Nat)
    (hM : WellFormed M w h) (hbits : Bits M) (hh : 0 < h)
    (hnr : ¬ Props.C09.Refused (.int 1) border) (hb : Props.C09.borderValue w h border = some b) :
    ∃ doc, compactDoc M w h border = .ok doc
      ∧ L.readCompact doc = .ok { w := (w + 2 * b) * 1, h := List.length (padOdd ((w + 2 * b) * 1) (grid M w h 1 b)),
                                  px := twoTone (padOdd ((w + 2 * b) * 1) (grid M w h 1 b)) black white }
      ∧ (padOdd ((w + 2 * b) * 1) (grid M w h 1 b)).take ((h + 2 * b) * 1) = grid M w h 1 b := by
  obtain ⟨doc, h1, h2⟩ := compact_doc (admitted_of w h (.int 1) border b hnr hb) M hM hbits hh
  refine ⟨doc, h1, h2, ?_⟩
  unfold padOdd
  have := grid_length M w h 1 b
  split
  · rw [← this, List.take_left']; rfl
  · rw [← this, List.take_length]

/-! ### PNG: the whole file -/

/-- the value of the pHYs chunk for a `dpi` argument (0 = no chunk): `int(int(dpi) // 0.0254)` for a truthy `dpi` -/
def ppmOf : Option Dpi → Nat
  | none => 0
  | some d => if d.truthy then d.ppm else 0

/-- the model's `dpi` handling yields `ppmOf dpi` whenever it does not refuse (negative `dpi`) -/
theorem dpiPpm_ok (dpi : Option Dpi) (ppm : Nat) (hp : dpiPpm dpi = .ok ppm) : ppm = ppmOf dpi := by
  unfold dpiPpm at hp
  cases dpi with
  | none => simp only [pure, Except.pure, Except.ok.injEq] at hp; exact hp.symm
  | some d =>
    simp only at hp
    by_cases ht : d.truthy = true
    · by_cases hneg : d.int < 0
      · simp [ht, hneg, throw, throwThe, MonadExceptOf.throw] at hp
      · simp only [ht, hneg, Bool.not_true, Bool.false_eq_true, if_false, pure, Except.pure, Except.ok.injEq] at hp
        simp [ppmOf, ht, hp]
    · simp only [ht, Bool.not_false, if_true, pure, Except.pure, Except.ok.injEq, Bool.not_eq_true] at hp
      simp [ppmOf, ht, hp]

/-- `png_file_wellformed` (every colour configuration, scale, border, dpi; any compressed payload): whenever the
    model of `save(kind='png')` writes a file, it starts with the PNG signature and the reference chunk walk —
    which checks the length, the four-letter name and the CRC-32 of EVERY chunk — accepts it and returns exactly
    the chunks of `Proofs.RasterDocs.fileChunks`: IHDR (width, height, bit depth, colour type, 0, 0, 0) first,
    pHYs when a resolution is given, PLTE for indexed colour, tRNS when there is transparency, IDAT with the
    payload, IEND last and empty.  The IHDR fields, PLTE and tRNS are those of `Props.C09Png.png_model_picture`. -/
theorem png_file_wellformed (setOrder : List PColor → List PColor) (M : List (List Nat)) (w h : Nat) (dark light : Option ColorArg)
    (o : TypeOpts ColorArg) (scale : Num) (border : Option Num) (dpi : Option Dpi) (comp file : List Nat)
    (hfile : savePngFile setOrder M w h dark light o scale border dpi comp = .ok (some file)) :
    ∃ out ppm, savePng setOrder M w h dark light o scale border = .ok out
      ∧ ppm = ppmOf dpi
      ∧ file = pngFile out ppm comp
      ∧ file.take 8 = [137, 80, 78, 71, 13, 10, 26, 10]
      ∧ L.pngChunks file.length (file.drop 8) = .ok (fileChunks out ppm comp)
      ∧ out.width < 4294967296 ∧ out.height < 4294967296 ∧ ppm < 4294967296 ∧ comp.length < 4294967296 := by
  unfold savePngFile at hfile
  cases hv : validSB scale border with
  | error e => simp [hv, bind, Except.bind] at hfile
  | ok u =>
    cases hp : dpiPpm dpi with
    | error e => simp [hv, hp, bind, Except.bind] at hfile
    | ok ppm =>
      have hp2 := dpiPpm_ok dpi ppm hp
      simp only [hv, hp, bind, Except.bind] at hfile
      split at hfile
      · -- border 0.0: never a file
        cases hs : savePng setOrder M w h dark light o scale (some (.int 0)) with
        | error e => simp [hs] at hfile
        | ok x => simp [hs, pure, Except.pure] at hfile
      · cases hs : savePng setOrder M w h dark light o scale border with
        | error e => simp [hs] at hfile
        | ok out =>
          simp only [hs] at hfile
          split at hfile
          · simp [pure, Except.pure] at hfile
          · rename_i hbound
            simp only [pure, Except.pure, Except.ok.injEq, Option.some.injEq] at hfile
            subst hfile
            simp only [Bool.or_eq_true, decide_eq_true_eq, not_or, Nat.not_le, ge_iff_le] at hbound
            obtain ⟨⟨⟨⟨⟨hwl, hhl⟩, hpl⟩, hplte⟩, htrns⟩, hcomp⟩ := hbound
            obtain ⟨h1, h2⟩ := png_file_chunks out ppm comp hplte htrns hcomp
            exact ⟨out, ppm, rfl, hp2, rfl, h1, h2, hwl, hhl, hpl, hcomp⟩

/-- `png_file_accepted` (symbols of at least one module; every colour configuration, scale, border, dpi; any
    compressed payload; any iteration order of `set()`): the reference container reader — signature, chunk walk
    with every CRC, IHDR first and IEND last, no unknown critical chunk, PLTE / tRNS / pHYs before IDAT, PLTE only
    and non-empty for indexed colour and not larger than the bit depth allows, tRNS length / grey value in range —
    ACCEPTS the whole file the model writes and returns the IHDR fields, the resolution (`dpi / 0.0254`, both
    axes, unit metre), the IDAT payload, and a colour table that shows every sample exactly as the reference
    semantics of `Props.C09Png.png_model_picture` (`readColour`) do.  Together with `png_model_picture` (pixels of
    the inflated stream) this covers the file up to zlib. -/
theorem png_file_accepted (setOrder : List PColor → List PColor) (hset : Proofs.Png.SetOrderOK setOrder) (M : List (List Nat)) (w h : Nat)
    (dark light : Option ColorArg) (o : TypeOpts ColorArg) (scale : Num) (border : Option Num) (dpi : Option Dpi) (comp file : List Nat)
    (hw : 0 < w) (hh : 0 < h)
    (hfile : savePngFile setOrder M w h dark light o scale border dpi comp = .ok (some file)) :
    ∃ out, savePng setOrder M w h dark light o scale border = .ok out
      ∧ L.readPngContainer file = .ok (containerOf out (ppmOf dpi) comp)
      ∧ (containerOf out (ppmOf dpi) comp).hdr = { width := out.width, height := out.height, depth := out.depth, ctype := out.ctype }
      ∧ (containerOf out (ppmOf dpi) comp).comp = comp
      ∧ (containerOf out (ppmOf dpi) comp).phys = (if ppmOf dpi = 0 then none else some (ppmOf dpi, ppmOf dpi, 1))
      ∧ ∀ k, L.pngColour (containerOf out (ppmOf dpi) comp) k = Proofs.Png.readColour out.depth out.ctype out.plte out.trns k := by
  obtain ⟨out, ppm, hs, hppm, hf, _, _, hwl, hhl, hpl, hcomp⟩ :=
    png_file_wellformed setOrder M w h dark light o scale border dpi comp file hfile
  subst hppm
  have ok := savePng_outOK setOrder hset M w h dark light o scale border out hw hh hs hwl hhl
  refine ⟨out, hs, ?_, rfl, rfl, rfl, fun k => pngColour_container out ok _ comp k⟩
  rw [hf]
  exact container_accepts out ok _ hpl comp hcomp

/-- `png_file_picture_types` (the WHOLE PNG file as a picture; every symbol matrix, colour configuration incl.
    per-type options, scale, border, dpi; any iteration order of `set()`): whenever the model writes a file, the
    reference reader `Spec.L.readPng` — container with every CRC, zlib header and Adler-32 (`ZlibOK`: what the
    reader checks of the compressed payload; inflating it is a runtime service and yields the model's scanline
    stream `out.idat`, as the correspondence run checks byte for byte), scanline filters, samples, colour table —
    returns a picture of (w+2b)·s × (h+2b)·s pixels in which EVERY pixel shows the colour configured for its
    module type (`pixelType`, as in `Props.C09Png.png_model_picture_types`) -/
theorem png_file_picture_types (setOrder : List PColor → List PColor) (hset : Proofs.Png.SetOrderOK setOrder) (M : List (List Nat)) (w h : Nat)
    (dark light : Option ColorArg) (o : TypeOpts ColorArg) (scale : Num) (border : Option Num) (dpi : Option Dpi) (comp file : List Nat)
    (hM : WellFormed M w h) (hw : 0 < w) (hh : 0 < h)
    (hfile : savePngFile setOrder M w h dark light o scale border dpi comp = .ok (some file)) :
    ∃ out clrMap p b A,
      savePng setOrder M w h dark light o scale border = .ok out
      ∧ Proofs.Png.parseColormap (makeColormap w h (dark.getD (.str "#000")) (light.getD (.str "#fff")) o) = .ok clrMap
      ∧ buildPalette setOrder clrMap = .ok p ∧ borderForRange w h border = .ok b ∧ 0 < scale.toInt.toNat
      ∧ (useVerbose p = true → alignmentMatrix w = .ok A)
      ∧ out.width = (w + 2 * b) * scale.toInt.toNat ∧ out.height = (h + 2 * b) * scale.toInt.toNat
      ∧ (ZlibOK comp out.idat →
          ∃ px, L.readPng file out.idat = .ok (containerOf out (ppmOf dpi) comp, { w := out.width, h := out.height, px := px })
            ∧ ∀ x y, x < out.width → y < out.height →
                ∃ c rgba, cmGet clrMap (Proofs.Png.pixelType p M A w h scale.toInt.toNat b x y) = some c
                  ∧ (px.getD y []).getD x none = some rgba ∧ Proofs.Png.Shows c rgba) := by
  obtain ⟨out, hs, hcont, hhdr, hcomp, _, hcol⟩ :=
    png_file_accepted setOrder hset M w h dark light o scale border dpi comp file hw hh hfile
  have hs' := hs
  unfold savePng at hs'
  have hn : (makeColormap w h (dark.getD (.str "#000")) (light.getD (.str "#fff")) o).length ≤ 16 :=
    Nat.le_trans (Props.C09Png.makeColormap_length w h _ _ _) (by decide)
  obtain ⟨clrMap, p, b, idx, A, hparse, hpal, hb, hidx, hspos, hA, hd, hout, hlen, hline, hpix⟩ :=
    Proofs.Png.model_picture setOrder hset M w h _ scale border out hM hn hs'
  obtain ⟨hrows, hqz⟩ := writePng_rows setOrder hset M w h _ scale border out hM hn hs' clrMap p idx hparse hpal hidx
  refine ⟨out, clrMap, p, b, A, hs, hparse, hpal, hb, hspos, hA, by rw [hout], by rw [hout], ?_⟩
  intro hz
  generalize hc : containerOf out (ppmOf dpi) comp = c at hcont hhdr hcomp hcol
  generalize hl : Proofs.Png.pngLines idx w p.depth scale.toInt.toNat b (typeIndex p Gen.TYPE_QUIET_ZONE) = lines at hout hlen hline hpix
  have hidat : out.idat = Proofs.Png.flat lines := by rw [hout]
  have hcw : c.hdr.width = out.width := by rw [hhdr]
  have hch : c.hdr.height = out.height := by rw [hhdr]
  have hcd : c.hdr.depth = out.depth := by rw [hhdr]
  have houtw : out.width = (w + 2 * b) * scale.toInt.toNat := by rw [hout]
  have houth : out.height = (h + 2 * b) * scale.toInt.toNat := by rw [hout]
  have houtd : out.depth = p.depth := by rw [hout]
  have hbytes := pngLines_bytes idx w p.depth scale.toInt.toNat b (typeIndex p Gen.TYPE_QUIET_ZONE) hd hqz hrows
  rw [hl] at hbytes
  have hlines : ∀ l ∈ lines, (l.1 = 0 ∨ l.1 = 2) ∧ l.2.length = (c.hdr.width * c.hdr.depth + 7) / 8 ∧ ∀ v ∈ l.2, v < 256 := by
    intro l hl'
    refine ⟨(hline l hl').1, ?_, hbytes l hl'⟩
    rw [(hline l hl').2, hcw, hcd, houtw, houtd]
  have hread := readPng_lines file c hcont lines (by rw [hcomp, ← hidat]; exact hz) (by rw [hlen, hch, houth]) hlines
  have hrecon : Proofs.Png.recon (List.replicate ((c.hdr.width * c.hdr.depth + 7) / 8) 0) lines = Proofs.Png.recon [] lines := by
    rw [← hl, Proofs.Png.recon_pngLines idx w p.depth _ b _ hd hspos hqz hrows, Proofs.Png.recon_pngLines idx w p.depth _ b _ hd hspos hqz hrows]
  refine ⟨(picOf c lines).px, ?_, ?_⟩
  · rw [hidat, hread]
    simp only [picOf, hcw, hch]
  · intro x y hx hy
    obtain ⟨col, rgba, h1, h2, h3⟩ := hpix x y (by rw [← houtw]; exact hx) (by rw [← houth]; exact hy)
    refine ⟨col, rgba, h1, ?_, h3⟩
    rw [picOf_pixel c lines hrecon x y (by rw [hcw]; exact hx) (by rw [hlen, ← houth]; exact hy), hcol, hcd, hcw, houtd, houtw]
    have hct : out.ctype = (if p.isGrey then 0 else 3) := by rw [hout]
    have hpl : out.plte = plteBytes p := by rw [hout]
    have htr : out.trns = trnsBytes p := by rw [hout]
    rw [hct, hpl, htr]
    exact h2

/-- `png_file_picture` (C09; dark / light colours only): the reference reader applied to the WHOLE file the model
    writes (and to the model's scanline stream as the inflated IDAT data) returns EXACTLY the `Spec.grid` picture in
    the two configured colours: pixel (x, y) shows the dark colour where module (y div s − b, x div s − b) is dark,
    the light colour elsewhere, the whole quiet zone included ("shows": exact R, G, B, A; None = alpha 0) -/
theorem png_file_picture (setOrder : List PColor → List PColor) (hset : Proofs.Png.SetOrderOK setOrder) (M : List (List Nat)) (w h : Nat)
    (dark light : Option ColorArg) (scale : Num) (border : Option Num) (dpi : Option Dpi) (comp file : List Nat)
    (hM : WellFormed M w h) (hw : 0 < w) (hh : 0 < h)
    (hfile : savePngFile setOrder M w h dark light {} scale border dpi comp = .ok (some file)) :
    ∃ out dC lC b,
      savePng setOrder M w h dark light {} scale border = .ok out
      ∧ pngColor (dark.getD (.str "#000")) = .ok dC ∧ pngColor (light.getD (.str "#fff")) = .ok lC
      ∧ borderForRange w h border = .ok b ∧ 0 < scale.toInt.toNat
      ∧ out.width = (w + 2 * b) * scale.toInt.toNat ∧ out.height = (h + 2 * b) * scale.toInt.toNat
      ∧ (ZlibOK comp out.idat →
          ∃ px, L.readPng file out.idat = .ok (containerOf out (ppmOf dpi) comp, { w := out.width, h := out.height, px := px })
            ∧ ∀ x y, x < out.width → y < out.height →
                ∃ rgba, (px.getD y []).getD x none = some rgba
                  ∧ Proofs.Png.Shows (if ((grid M w h scale.toInt.toNat b).getD y []).getD x 0 ≠ 0 then dC else lC) rgba) := by
  obtain ⟨out, clrMap, p, b, A, hs, hparse, hpal, hb, hspos, _, hwd, hht, hpic⟩ :=
    png_file_picture_types setOrder hset M w h dark light {} scale border dpi comp file hM hw hh hfile
  obtain ⟨dC, lC, hD, hL, hcm⟩ := Proofs.Png.parse_default w h _ _ clrMap hparse
  subst hcm
  have hcheap := Proofs.Png.useVerbose_default setOrder hset w h dC lC p hpal
  refine ⟨out, dC, lC, b, hs, hD, hL, hb, hspos, hwd, hht, ?_⟩
  intro hz
  obtain ⟨px, hread, hpix⟩ := hpic hz
  refine ⟨px, hread, ?_⟩
  intro x y hx hy
  obtain ⟨c, rgba, hc, hpx, hshows⟩ := hpix x y hx hy
  refine ⟨rgba, hpx, ?_⟩
  have hg : ((grid M w h scale.toInt.toNat b).getD y []).getD x 0 = pixelOf (cellL M) scale.toInt.toNat b x y := by
    unfold grid
    rw [getD_map_range _ _ _ _ (by rw [← hht]; exact hy), getD_map_range _ _ _ _ (by rw [← hwd]; exact hx)]
  rw [hg]
  unfold Proofs.Png.pixelType at hc
  rw [hcheap] at hc
  simp only [Bool.false_eq_true, if_false] at hc
  by_cases hp0 : pixelOf (cellL M) scale.toInt.toNat b x y ≠ 0
  · rw [if_pos hp0] at hc ⊢
    rw [Proofs.Png.default_finder_dark] at hc
    injection hc with hc; rw [hc]; exact hshows
  · rw [if_neg hp0] at hc ⊢
    rw [Proofs.Png.default_quiet_zone] at hc
    injection hc with hc; rw [hc]; exact hshows

/-! ### non-vacuity: the hypotheses hold, the writers succeed, on small instances -/

example : Admitted 2 2 (.float false 2 true) (some (.int 1)) 1 :=
  admitted_of 2 2 _ _ 1 (by intro h; rcases h with h | ⟨x, hx, h⟩
                            · simp [Num.toInt] at h
                            · cases hx; simp [Num.isFractional, Num.isNegative] at h) rfl
example : WellFormed [[1, 0], [0, 1]] 2 2 ∧ Bits [[1, 0], [0, 1]] := by
  constructor
  · simp [WellFormed]
  · intro r hr v hv; simp at hr; rcases hr with rfl | rfl <;> simp at hv <;> omega
example : IsCIdent "qr_1".toList := isCIdent_literal 'q' ['r', '_', '1'] (by decide) (by decide)
example : (pbmDoc [[1, 0], [0, 1]] 2 2 (.int 2) (some (.int 1)) false).toOption.map
    (fun d => (d.length, (L.readPbm d).toOption.map (fun p => (p.w, p.h, p.px == twoTone (grid [[1, 0], [0, 1]] 2 2 2 1) black white))))
    = some (68, some (8, 8, true)) := by decide +kernel
example : (pamDoc [[1, 0], [0, 1]] 2 2 (.int 1) (some (.int 0)) (some (.str "red")) (some .none)).toOption.map
    (fun d => (L.readPam d).toOption.map (fun p => p.px))
    = some (some [[some ⟨255, 0, 0, 255⟩, some ⟨0, 255, 255, 0⟩], [some ⟨0, 255, 255, 0⟩, some ⟨255, 0, 0, 255⟩]]) := by decide +kernel
example : (xpmDoc [[1, 0], [0, 1]] 2 2 (.int 1) (some (.int 0)) (some (.str "red")) (some .none) "qr".toList).toOption.map
    (fun d => (L.readXpm d "qr".toList).toOption.map (fun p => p.px))
    = some (some [[some ⟨255, 0, 0, 255⟩, some ⟨0, 0, 0, 0⟩], [some ⟨0, 0, 0, 0⟩, some ⟨255, 0, 0, 255⟩]]) := by decide +kernel
example : (xbmDoc [[1, 0], [0, 1]] 2 2 (.int 1) (some (.int 0)) "qr".toList).toOption
    = some "#define qr_width 2\n#define qr_height 2\nstatic unsigned char qr_bits[] = {\n    0x01,\n    0x02\n};\n".toList := by decide +kernel
example : (compactDoc [[1, 0, 1], [0, 1, 1], [1, 1, 0]] 3 3 (some (.int 0))).toOption.map
    (fun d => (d, (L.readCompact d).toOption.map (fun p => (p.w, p.h)))) = some ("▄▀ \n  ▀\n".toList, some (3, 4)) := by decide +kernel
example : (ppmDoc [[1, 0], [0, 1]] 2 2 [] (.int 1) (some (.int 0))).toOption = none := by decide +kernel
/-- a whole PNG file with a pHYs chunk (72 dpi): the IEND chunk ends in the well-known CRC AE 42 60 82 -/
example : (savePngFile (fun l => l.eraseDups) [[1, 0], [0, 1]] 2 2 none none {} (.int 1) (some (.int 0)) (some ⟨true, 72, 2834⟩)
      [120, 156, 99, 0, 1]).toOption =
    some (some [137, 80, 78, 71, 13, 10, 26, 10, 0, 0, 0, 13, 73, 72, 68, 82, 0, 0, 0, 2, 0, 0, 0, 2, 1, 0, 0, 0, 0, 90,
      205, 48, 137, 0, 0, 0, 9, 112, 72, 89, 115, 0, 0, 11, 18, 0, 0, 11, 18, 1, 210, 221, 126, 252, 0, 0, 0, 5, 73, 68, 65,
      84, 120, 156, 99, 0, 1, 79, 46, 233, 52, 0, 0, 0, 0, 73, 69, 78, 68, 174, 66, 96, 130]) := by decide +kernel

/-- … and the container reader accepts that file -/
example : (L.readPngContainer [137, 80, 78, 71, 13, 10, 26, 10, 0, 0, 0, 13, 73, 72, 68, 82, 0, 0, 0, 2, 0, 0, 0, 2, 1, 0, 0, 0, 0, 90,
      205, 48, 137, 0, 0, 0, 9, 112, 72, 89, 115, 0, 0, 11, 18, 0, 0, 11, 18, 1, 210, 221, 126, 252, 0, 0, 0, 5, 73, 68, 65,
      84, 120, 156, 99, 0, 1, 79, 46, 233, 52, 0, 0, 0, 0, 73, 69, 78, 68, 174, 66, 96, 130]).toOption.map
      (fun p => ([p.hdr.width, p.hdr.height, p.hdr.depth, p.hdr.ctype], p.phys, p.comp)) =
    some ([2, 2, 1, 0], some (2834, 2834, 1), [120, 156, 99, 0, 1]) := by decide +kernel
example : Proofs.Png.SetOrderOK (fun l => l.eraseDups) := Proofs.Png.setOrderOK_eraseDups

/-- a whole PNG file with the payload zlib produces for the model's scanline stream: `ZlibOK` holds and the reader
    returns the 2 × 2 picture -/
example : ZlibOK [120, 218, 99, 112, 96, 104, 0, 0, 1, 68, 0, 193] [0, 64, 0, 128] := by unfold ZlibOK; decide
example : (savePngFile (fun l => l.eraseDups) [[1, 0], [0, 1]] 2 2 none none {} (.int 1) (some (.int 0)) none
      [120, 218, 99, 112, 96, 104, 0, 0, 1, 68, 0, 193]).toOption.map
      (fun f => f.map (fun f => (L.readPng f [0, 64, 0, 128]).toOption.map (fun r => r.2.px))) =
    some (some (some [[some black, some white], [some white, some black]])) := by decide +kernel

end Props.C09Docs
