/-
  C03 (part 4) — correctability: the Reed-Solomon code the encoder uses (n EC codewords, roots
  α⁰ … α^(n−1), block length ≤ 255) has minimum distance > n, hence a block damaged in at most ⌊n/2⌋
  codewords has exactly one codeword within that radius: the original one.  ("A standard decoder
  restores the exact payload" — the decoder itself is not segno code; uniqueness is what makes any
  bounded-distance decoder return the original block.)
  Property theorems only; helper lemmas live in Proofs/Distance.lean.
-/
import Props.C03
import Proofs.Distance

namespace Props.C03

/-- all n syndromes of a word (highest coefficient first) vanish, in table arithmetic -/
def IsCodeword (n : Nat) (w : List Nat) : Prop := ∀ i, i < n → tevalPoly w (Gen.GALIOS_EXP.getD i 0) = 0

/-- number of positions where two words of equal length differ -/
def hammingDist (a b : List Nat) : Nat := ((a.zip b).filter (fun p => p.1 != p.2)).length

/-- the code is linear: the XOR of two codewords is a codeword -/
theorem codeword_xor (n : Nat) (a b : List Nat) (hl : a.length = b.length)
    (ha : ∀ x ∈ a, x < 256) (hb : ∀ x ∈ b, x < 256) (h1 : IsCodeword n a) (h2 : IsCodeword n b) :
    IsCodeword n (List.zipWith (· ^^^ ·) a b) :=
  Proofs.Distance.codeword_xor n a b hl ha hb h1 h2

/-- **minimum distance**: a codeword of length ≤ 255 with at most n non-zero entries is zero -/
theorem min_distance (n : Nat) (w : List Nat) (hlen : w.length ≤ 255) (hb : ∀ x ∈ w, x < 256)
    (hc : IsCodeword n w) (hw : (w.filter (· != 0)).length ≤ n) : ∀ x ∈ w, x = 0 :=
  Proofs.Distance.min_distance n w hlen hb hc hw

/-- **unique decoding**: two codewords of the same length ≤ 255 that both lie within ⌊n/2⌋ positions of
    a received word are equal — so after any corruption of up to ⌊n/2⌋ codewords of a block the
    original block is the only codeword within that radius -/
theorem unique_decoding (n : Nat) (r a b : List Nat) (hlen : r.length ≤ 255)
    (hla : a.length = r.length) (hlb : b.length = r.length)
    (ha : ∀ x ∈ a, x < 256) (hb : ∀ x ∈ b, x < 256)
    (hca : IsCodeword n a) (hcb : IsCodeword n b)
    (hda : hammingDist r a ≤ n / 2) (hdb : hammingDist r b ≤ n / 2) : a = b :=
  Proofs.Distance.unique_decoding n r a b hlen hla hlb ha hb hca hcb hda hdb

/-- every block of Table 9 is short enough (≤ 255 codewords) and the model's blocks are codewords, so
    the theorem applies to every block of every symbol (`block_is_codeword`) -/
theorem table9_blocks_at_most_255 :
    Spec.eccTable.all (fun e => e.2.2.all (fun b => b.2.1 ≤ 255)) = true :=
  Proofs.Distance.table9_blocks_at_most_255

/-! ### non-vacuity: a real block is a codeword, and a 2-codeword corruption (≤ ⌊5/2⌋) of it is not -/

example : IsCodeword 5 ([64, 24, 172, 195, 0] ++ [134, 13, 34, 174, 48]) := by
  intro i hi
  have h : (List.range 5).all (fun i => tevalPoly ([64, 24, 172, 195, 0] ++ [134, 13, 34, 174, 48])
      (Gen.GALIOS_EXP.getD i 0) == 0) = true := by decide +kernel
  simpa using List.all_eq_true.mp h i (List.mem_range.mpr hi)

example : hammingDist [64, 24, 172, 195, 0, 134, 13, 34, 174, 48] [64, 25, 172, 195, 0, 134, 13, 34, 0, 48] = 2 := by
  decide

/-- sharpness: the bound "≤ n non-zero entries" cannot be relaxed to n + 1 — the generator polynomial for
    n = 5 is a non-zero codeword with 6 non-zero entries -/
example : (List.range 5).all (fun i => tevalPoly
      (1 :: [113, 164, 166, 119, 10].map (fun l => Gen.GALIOS_EXP.getD l 0)) (Gen.GALIOS_EXP.getD i 0) == 0) = true
    ∧ ((1 :: [113, 164, 166, 119, 10].map (fun l => Gen.GALIOS_EXP.getD l 0)).filter (· != 0)).length = 6 := by
  decide +kernel

end Props.C03

#print axioms Props.C03.codeword_xor
#print axioms Props.C03.min_distance
#print axioms Props.C03.unique_decoding
#print axioms Props.C03.table9_blocks_at_most_255
