/-
  C14 — the SERIALIZER half: "Serialisers refuse malformed colour strings or tuples, non-positive scales, negative or fractional
  borders … with ValueError", and nothing else escapes.  Property theorems only (helpers: Proofs/C14Ser*.lean).

  The objects: `Model.RoutesVec.fullEnv svc vs rt M w h rest` — the serialisers of ONE symbol `M` as an environment of the route
  layer: Python's keyword binding (`Model.Routes.completeKw`, signatures regenerated into Gen/Sigs.lean) in front of the
  whole-document models of all twelve serialisers of `writers._VALID_SERIALIZERS` and of `write_terminal_compact`
  (Model/RasterDocs.lean, Model/Png.lean, Model/SvgDoc.lean, Model/Tex.lean, Model/VectorDocs.lean; the readers of the keyword map
  in Model/RoutesDocs.lean and Model/RoutesVec.lean).  They are tied to the real code byte for byte by `./check C09 | C10 | C11 | C12`
  and — outcome class for the product of documented and malformed option values, all 13 kinds — by `./check C14`
  (harness/ser_model.py).  A request is a serialiser key and a keyword map `kw : List (String × Gen.PyV)`.

  Vocabulary (Proofs/C14SerDefs.lean): `SymbolShaped M w h` (square 0 / 1 matrix of one of the 44 symbol sizes with a dark module),
  `DocumentedSer key kw` (the DOCUMENTED option domain: every keyword is an option of the serialiser, its value has the documented
  type — the value may be malformed), `Malformed M w h key kw` (the refusals the documentation names, per kind), `serRead` (the
  typed document model the call amounts to), `Clean r` (`r` is a document or ValueError).

  The error type of the models is `Model.PyErr` = valueError | dataOverflow | indexError | keyError | typeError | assertionError |
  unicodeError | lookupError; `AttributeError` is modelled as typeError, `StopIteration` as lookupError, `struct.error` as "no file"
  (`savePngFile … = .ok none`).  `serializer_no_crash` excludes every constructor but valueError.

  Hypotheses the proofs forced (each is an excluded point of the real code, see docs/C14-serializers-notes.md):
    * a float border with an integral value ≥ 0 (`border=2.0`, `0.0`) is not in `DocumentedSer` — the raster writers end in
      TypeError, `write_png` with 0.0 in struct.error; the documentation says "Integer";
    * `compresslevel` outside 0 … 9 is not in it — zlib.error for png / pdf (ValueError for svgz);
    * `PngFits`: width, height, pixels per metre and chunk lengths fit 32 bits — `dpi=200000000` → struct.error;
    * the runtime service `setOrder` (iteration order of `set()`) returns the distinct elements of its argument (`SetOrderOK`).
-/
import Proofs.C14SerKinds
import Props.C09Docs
import Props.C10Docs
import Props.C11Svg

namespace Props.C14Ser

open Gen (PyV)
open Model Model.Cli Model.Routes Model.RoutesDocs Model.RoutesVec Model.RasterDocs Proofs.C14Ser Proofs.Png

/-! ### the option table is the regenerated signature table -/

/-- Tie to the source: for every serialiser the documented options (`optTypes`) are exactly the keyword parameters of its
    signature (`inspect.signature` through `colorful`, Gen/Sigs.lean, regenerated on every run), each once, and every default value
    has the documented type of its option.  A new, renamed or retyped parameter breaks this theorem. -/
theorem option_table_is_signature :
    (∀ key ∈ kinds, (∃ d, serializerDefaults key = some d ∧ (optTypes key).map (·.1) = d.map (·.1)) ∧ ((optTypes key).map (·.1)).Nodup)
    ∧ (∀ key ∈ kinds, ∀ d, serializerDefaults key = some d → ∀ e ∈ d, (optTypes key).any (fun p => p.1 == e.1 && hasType p.2 e.2) = true) :=
  ⟨Proofs.C14Ser.option_table_is_signature, Proofs.C14Ser.defaults_typed⟩

/-! ### what a serialiser call is -/

/-- **reading equation** (all thirteen kinds, every keyword map of the documented domain, every matrix, all services): the call
    `serializer(matrix, matrix_size, out, **kw)` — keyword binding, argument readers, document model — is the typed whole-document
    model applied to the values read in the obvious way: the keyword if given, else the default of the signature (`val`), a float
    scale truncated for the raster writers (`numV`), colours as `ColorArg` (`colV`), `False` module colours as "not given" …
    (`serRead`, Proofs/C14SerDefs.lean).  A refused float border makes `write_svg` / `write_eps` / `write_pdf` / `write_tex` raise
    ValueError in their first statements. -/
theorem serializer_reads (svc : Services) (vs : VecServices) (rt : Runtime) (M : List (List Nat)) (w h : Nat)
    (rest : String → Config → R SerOut) (key : String) (kw : Config) (hdoc : DocumentedSer key kw) :
    (fullEnv svc vs rt M w h rest).ser key kw = serRead svc vs M w h rest key kw :=
  ser_eq_read svc vs rt M w h rest key kw hdoc

/-- both facts at once, kind by kind -/
theorem serializer_outcome (svc : Services) (vs : VecServices) (rt : Runtime) (M : List (List Nat)) (w h : Nat)
    (rest : String → Config → R SerOut) (hs : SymbolShaped M w h) (hset : SetOrderOK svc.setOrder)
    (key : String) (kw : Config) (hdoc : DocumentedSer key kw) (hfit : key = "png" → PngFits svc M w h kw) :
    Clean ((fullEnv svc vs rt M w h rest).ser key kw)
    ∧ ((fullEnv svc vs rt M w h rest).ser key kw = .error .valueError ↔ Malformed M w h key kw) := by
  rw [ser_eq_read svc vs rt M w h rest key kw hdoc]
  have hk := hdoc.1
  simp only [kinds, List.mem_cons, List.not_mem_nil, or_false] at hk
  rcases hk with rfl | rfl | rfl | rfl | rfl | rfl | rfl | rfl | rfl | rfl | rfl | rfl | rfl
  · exact outcome_svg svc vs M w h rest hs kw hdoc
  · exact outcome_png svc vs M w h rest hs hset kw hdoc (hfit rfl)
  · exact outcome_eps svc vs M w h rest hs kw hdoc
  · exact outcome_txt svc vs M w h rest hs kw hdoc
  · exact outcome_pdf svc vs M w h rest kw hdoc
  · exact outcome_ans svc vs M w h rest hs kw hdoc
  · exact outcome_pbm svc vs M w h rest hs kw hdoc
  · exact outcome_pam svc vs M w h rest hs kw hdoc
  · exact outcome_ppm svc vs M w h rest hs kw hdoc
  · exact outcome_tex svc vs M w h rest kw hdoc
  · exact outcome_xbm svc vs M w h rest hs kw hdoc
  · exact outcome_xpm svc vs M w h rest hs kw hdoc
  · exact outcome_compact svc vs M w h rest hs kw hdoc

/-! ### nothing but ValueError escapes -/

/-- **`serializer_no_crash`** (every kind, every symbol-shaped matrix, every option set of the documented domain, all services):
    the document model returns a document or raises ValueError — … -/
theorem serializer_no_crash (svc : Services) (vs : VecServices) (rt : Runtime) (M : List (List Nat)) (w h : Nat)
    (rest : String → Config → R SerOut) (hs : SymbolShaped M w h) (hset : SetOrderOK svc.setOrder)
    (key : String) (kw : Config) (hdoc : DocumentedSer key kw) (hfit : key = "png" → PngFits svc M w h kw) :
    (∃ doc, (fullEnv svc vs rt M w h rest).ser key kw = .ok doc) ∨ (fullEnv svc vs rt M w h rest).ser key kw = .error .valueError :=
  (serializer_outcome svc vs rt M w h rest hs hset key kw hdoc hfit).1

/-- … never TypeError (incl. AttributeError), IndexError, KeyError, LookupError (incl. StopIteration), AssertionError,
    UnicodeError or DataOverflowError: every other constructor of the models' error type is excluded, and so is the answer of
    `rest` (the real code outside the models): the models speak on the whole documented domain -/
theorem serializer_never (svc : Services) (vs : VecServices) (rt : Runtime) (M : List (List Nat)) (w h : Nat)
    (rest : String → Config → R SerOut) (hs : SymbolShaped M w h) (hset : SetOrderOK svc.setOrder)
    (key : String) (kw : Config) (hdoc : DocumentedSer key kw) (hfit : key = "png" → PngFits svc M w h kw) (e : PyErr)
    (he : (fullEnv svc vs rt M w h rest).ser key kw = .error e) : e = .valueError := by
  rcases serializer_no_crash svc vs rt M w h rest hs hset key kw hdoc hfit with ⟨d, hd⟩ | hv
  · rw [hd] at he; cases he
  · rw [hv] at he; cases he; rfl

/-- the outcome does not depend on what the real code does outside the models -/
theorem serializer_rest_irrelevant (svc : Services) (vs : VecServices) (rt : Runtime) (M : List (List Nat)) (w h : Nat)
    (rest rest' : String → Config → R SerOut) (key : String) (kw : Config) (hdoc : DocumentedSer key kw)
    (hfit : key = "png" → PngFits svc M w h kw) :
    (fullEnv svc vs rt M w h rest).ser key kw = (fullEnv svc vs rt M w h rest').ser key kw := by
  rw [ser_eq_read svc vs rt M w h rest key kw hdoc, ser_eq_read svc vs rt M w h rest' key kw hdoc]
  have hk := hdoc.1
  simp only [kinds, List.mem_cons, List.not_mem_nil, or_false] at hk
  rcases hk with rfl | rfl | rfl | rfl | rfl | rfl | rfl | rfl | rfl | rfl | rfl | rfl | rfl <;> try rfl
  -- png: `rest` is consulted only for `struct.error`
  have hf : pngFileV svc M w h (val "png" kw) ≠ .ok none := hfit rfl
  show pngOut (rest "png" (completed "png" kw)) (pngFileV svc M w h (val "png" kw))
     = pngOut (rest' "png" (completed "png" kw)) (pngFileV svc M w h (val "png" kw))
  cases hp : pngFileV svc M w h (val "png" kw) with
  | error e => rfl
  | ok f =>
    cases f with
    | none => exact absurd hp hf
    | some bs => rfl

/-! ### the refusals are exactly the documented ones -/

/-- **`serializer_refuses_exactly`** (one table-driven statement, `Malformed` in Proofs/C14SerDefs.lean): on the documented
    domain a serialiser raises ValueError EXACTLY when
      * pbm, xbm: `int(scale) <= 0`, or the border is negative or fractional;   txt, ans, compact: the border is;
      * pam: that, or `dark` is `None` or a malformed colour, or `light` is a malformed colour (`None` = transparent is fine);
      * xpm: that, or `dark` / `light` is neither `None` nor an opaque well-formed colour;
      * ppm: that, or an entry of the colour map (dark, light, the module colours of the module types the symbol size has) is not an
        opaque well-formed colour ("Transparency is not supported");
      * png: that, or `dpi < 0`, or an entry of the colour map is a malformed colour;
      * eps, pdf: `scale <= 0`, border, or `dark` is neither black (`_color_is_black`) nor opaque, or `light` neither `None` nor opaque;
      * tex: `scale <= 0` or the border;
      * svg: `scale <= 0`, border, a non-empty `unit` together with `omitsize`, or a malformed colour among those that get a `<path>`
        (`svgPainted`).
    "malformed" = not in the grammar of `Props.C14.colour_grammar`; "opaque" = well-formed without alpha value or with one that prints as
    1.0 (255, 254, 1.0). -/
theorem serializer_refuses_exactly (svc : Services) (vs : VecServices) (rt : Runtime) (M : List (List Nat)) (w h : Nat)
    (rest : String → Config → R SerOut) (hs : SymbolShaped M w h) (hset : SetOrderOK svc.setOrder)
    (key : String) (kw : Config) (hdoc : DocumentedSer key kw) (hfit : key = "png" → PngFits svc M w h kw) :
    (fullEnv svc vs rt M w h rest).ser key kw = .error .valueError ↔ Malformed M w h key kw :=
  (serializer_outcome svc vs rt M w h rest hs hset key kw hdoc hfit).2

/-- … and returns a document for every other request of the documented domain -/
theorem serializer_accepts_wellformed (svc : Services) (vs : VecServices) (rt : Runtime) (M : List (List Nat)) (w h : Nat)
    (rest : String → Config → R SerOut) (hs : SymbolShaped M w h) (hset : SetOrderOK svc.setOrder)
    (key : String) (kw : Config) (hdoc : DocumentedSer key kw) (hfit : key = "png" → PngFits svc M w h kw)
    (hwf : ¬ Malformed M w h key kw) : ∃ doc, (fullEnv svc vs rt M w h rest).ser key kw = .ok doc := by
  obtain ⟨hc, hiff⟩ := serializer_outcome svc vs rt M w h rest hs hset key kw hdoc hfit
  rcases hc with hd | hv
  · exact hd
  · exact absurd (hiff.1 hv) hwf

/-! ### honoured: what the returned document shows

  For the raster and text kinds and for PNG the "shows" predicates are the reference readers of Props/C09Docs.lean applied to the
  WHOLE document (`Spec.L.readPbm`, `readPpm`, `readPam`, `readXbm`, `readXpm`, `linesT`, `readAnsi`, `readCompact`, `readPng`); the
  theorems below instantiate those picture theorems at the scale, border and colours READ FROM THE REQUEST (they are not re-proved). -/

/-- the scale a raster writer uses: `int(scale)` of the request (or of the default 1) -/
def scaleOf (key : String) (kw : Config) : Nat := (numV (val key kw "scale")).toInt.toNat

/-- the border of the request: the keyword, or the default of the symbol size (4 / 2) -/
def borderOf (w h : Nat) (key : String) (kw : Config) : Nat := borderNat w h (val key kw "border")

def darkOf (key : String) (kw : Config) : ColorArg := colV (val key kw "dark")
def lightOf (key : String) (kw : Config) : ColorArg := colV (val key kw "light")

section honours
open Spec Proofs.Raster Proofs.RasterDocs Props.C09Docs
variable (svc : Services) (vs : VecServices) (rt : Runtime) (M : List (List Nat)) (w h : Nat) (rest : String → Config → R SerOut)

/-- PBM (P4 and P1): the reference reader decodes the returned file to the `Spec.grid` picture at the requested `int(scale)` and
    border — black for dark modules, white for light ones and the quiet zone -/
theorem serializer_honours_pbm (hs : SymbolShaped M w h) (kw : Config) (hdoc : DocumentedSer "pbm" kw) (so : SerOut)
    (hso : (fullEnv svc vs rt M w h rest).ser "pbm" kw = .ok so) :
    ∃ doc, so = .bytes doc
      ∧ L.readPbm doc = .ok { w := (w + 2 * borderOf w h "pbm" kw) * scaleOf "pbm" kw, h := (h + 2 * borderOf w h "pbm" kw) * scaleOf "pbm" kw,
                              px := twoTone (grid M w h (scaleOf "pbm" kw) (borderOf w h "pbm" kw)) black white } := by
  have hbo := val_typed "pbm" kw hdoc "border" .border (by decide)
  rw [ser_eq_read svc vs rt M w h rest "pbm" kw hdoc] at hso
  obtain ⟨doc, hd, rfl⟩ := bytesOut_ok _ _ hso
  have hnr : ¬ Props.C09.Refused (numV (val "pbm" kw "scale")) (optNumV (val "pbm" kw "border")) := by
    intro hR
    have := (docs_refused M w h _ _ hR (flagV (val "pbm" kw "plain")) [] none none [] id {} none []).1
    rw [this] at hd; cases hd
  have hbv := admitted_typed w h _ _ hbo hnr
  have hp := symbol_pos hs
  refine ⟨doc, rfl, ?_⟩
  cases hpl : flagV (val "pbm" kw "plain") with
  | false =>
    obtain ⟨doc', h1, h2⟩ := pbm_p4_picture M w h _ _ _ ⟨hs.rows, hs.cols⟩ hs.bits hp.1 hp.2 hnr hbv
    rw [hpl] at hd; rw [hd] at h1; cases h1; exact h2
  | true =>
    obtain ⟨doc', h1, h2⟩ := pbm_p1_picture M w h _ _ _ ⟨hs.rows, hs.cols⟩ hs.bits hp.1 hp.2 hnr hbv
    rw [hpl] at hd; rw [hd] at h1; cases h1; exact h2

/-- XBM (for a `name` that is a C identifier): tokenizer + XBM grammar return the grid at the requested scale and border -/
theorem serializer_honours_xbm (hs : SymbolShaped M w h) (kw : Config) (hdoc : DocumentedSer "xbm" kw) (so : SerOut)
    (hname : IsCIdent (strV (val "xbm" kw "name")).toList)
    (hso : (fullEnv svc vs rt M w h rest).ser "xbm" kw = .ok so) :
    ∃ doc, so = .text doc none
      ∧ L.readXbm doc (strV (val "xbm" kw "name")).toList =
          .ok { w := (w + 2 * borderOf w h "xbm" kw) * scaleOf "xbm" kw, h := (h + 2 * borderOf w h "xbm" kw) * scaleOf "xbm" kw,
                px := twoTone (grid M w h (scaleOf "xbm" kw) (borderOf w h "xbm" kw)) black white } := by
  have hbo := val_typed "xbm" kw hdoc "border" .border (by decide)
  rw [ser_eq_read svc vs rt M w h rest "xbm" kw hdoc] at hso
  obtain ⟨doc, hd, rfl⟩ := textOut_ok _ _ hso
  have hnr : ¬ Props.C09.Refused (numV (val "xbm" kw "scale")) (optNumV (val "xbm" kw "border")) := by
    intro hR
    have := (docs_refused M w h _ _ hR false [] none none (strV (val "xbm" kw "name")).toList id {} none []).2.2.2.1
    rw [this] at hd; cases hd
  have hbv := admitted_typed w h _ _ hbo hnr
  have hp := symbol_pos hs
  obtain ⟨doc', h1, h2⟩ := xbm_picture M w h _ _ _ ⟨hs.rows, hs.cols⟩ hs.bits hp.1 hp.2 hnr hbv _ hname
  rw [hd] at h1; cases h1
  exact ⟨doc, rfl, h2⟩

/-- PAM: the reference reader decodes the returned file to the grid at the requested scale and border in the two REQUESTED colours
    (`Proofs.Png.Shows`: exact R, G, B, A of the colour the request names; `None` = alpha 0) -/
theorem serializer_honours_pam (hs : SymbolShaped M w h) (kw : Config) (hdoc : DocumentedSer "pam" kw) (so : SerOut)
    (hso : (fullEnv svc vs rt M w h rest).ser "pam" kw = .ok so) :
    ∃ doc dC lC dPx lPx, so = .bytes doc
      ∧ pngColor (darkOf "pam" kw) = .ok dC ∧ pngColor (lightOf "pam" kw) = .ok lC ∧ Proofs.Png.Shows dC dPx ∧ Proofs.Png.Shows lC lPx
      ∧ L.readPam doc = .ok { w := (w + 2 * borderOf w h "pam" kw) * scaleOf "pam" kw, h := (h + 2 * borderOf w h "pam" kw) * scaleOf "pam" kw,
                              px := twoTone (grid M w h (scaleOf "pam" kw) (borderOf w h "pam" kw)) dPx lPx } := by
  have hbo := val_typed "pam" kw hdoc "border" .border (by decide)
  rw [ser_eq_read svc vs rt M w h rest "pam" kw hdoc] at hso
  obtain ⟨doc, hd, rfl⟩ := bytesOut_ok _ _ hso
  have hnr : ¬ Props.C09.Refused (numV (val "pam" kw "scale")) (optNumV (val "pam" kw "border")) := by
    intro hR
    have := (docs_refused M w h _ _ hR false [] (some (darkOf "pam" kw)) (some (lightOf "pam" kw)) [] id {} none []).2.2.1
    rw [show pamDoc M w h (numV (val "pam" kw "scale")) (optNumV (val "pam" kw "border")) (some (colV (val "pam" kw "dark")))
      (some (colV (val "pam" kw "light"))) = _ from this] at hd
    cases hd
  have hbv := admitted_typed w h _ _ hbo hnr
  have hp := symbol_pos hs
  obtain ⟨dC, lC, dPx, lPx, h1, h2, h3, h4, h5⟩ :=
    pam_picture M w h _ _ _ ⟨hs.rows, hs.cols⟩ hs.bits hp.1 hp.2 hnr hbv (some (darkOf "pam" kw)) (some (lightOf "pam" kw)) doc hd
  exact ⟨doc, dC, lC, dPx, lPx, rfl, h1, h2, h3, h4, h5⟩

/-- XPM (for a `name` that is a C identifier): the grid at the requested scale and border in the two requested colours
    (`XpmShows`: the opaque R, G, B of the colour; `None` = alpha 0) -/
theorem serializer_honours_xpm (hs : SymbolShaped M w h) (kw : Config) (hdoc : DocumentedSer "xpm" kw) (so : SerOut)
    (hname : IsCIdent (strV (val "xpm" kw "name")).toList)
    (hso : (fullEnv svc vs rt M w h rest).ser "xpm" kw = .ok so) :
    ∃ doc dPx lPx, so = .text doc none ∧ XpmShows (darkOf "xpm" kw) dPx ∧ XpmShows (lightOf "xpm" kw) lPx
      ∧ L.readXpm doc (strV (val "xpm" kw "name")).toList =
          .ok { w := (w + 2 * borderOf w h "xpm" kw) * scaleOf "xpm" kw, h := (h + 2 * borderOf w h "xpm" kw) * scaleOf "xpm" kw,
                px := twoTone (grid M w h (scaleOf "xpm" kw) (borderOf w h "xpm" kw)) dPx lPx } := by
  have hbo := val_typed "xpm" kw hdoc "border" .border (by decide)
  rw [ser_eq_read svc vs rt M w h rest "xpm" kw hdoc] at hso
  obtain ⟨doc, hd, rfl⟩ := textOut_ok _ _ hso
  have hnr : ¬ Props.C09.Refused (numV (val "xpm" kw "scale")) (optNumV (val "xpm" kw "border")) := by
    intro hR
    have := (docs_refused M w h _ _ hR false [] (some (darkOf "xpm" kw)) (some (lightOf "xpm" kw)) (strV (val "xpm" kw "name")).toList id {} none []).2.2.2.2.1
    rw [show xpmDoc M w h (numV (val "xpm" kw "scale")) (optNumV (val "xpm" kw "border")) (some (colV (val "xpm" kw "dark")))
      (some (colV (val "xpm" kw "light"))) (strV (val "xpm" kw "name")).toList = _ from this] at hd
    cases hd
  have hbv := admitted_typed w h _ _ hbo hnr
  have hp := symbol_pos hs
  obtain ⟨dPx, lPx, h1, h2, h3⟩ :=
    xpm_picture M w h _ _ _ ⟨hs.rows, hs.cols⟩ hp.1 hp.2 hnr hbv (some (darkOf "xpm" kw)) (some (lightOf "xpm" kw)) _ hname doc hd
  exact ⟨doc, dPx, lPx, rfl, h1, h2, h3⟩

/-- PPM with the module colours of `colorful`: every pixel of the returned file shows — exact R, G, B — the colour the request
    configures for the module type `matrix_iter_verbose` yields there, at the requested scale and border -/
theorem serializer_honours_ppm (hs : SymbolShaped M w h) (kw : Config) (hdoc : DocumentedSer "ppm" kw) (so : SerOut)
    (hso : (fullEnv svc vs rt M w h rest).ser "ppm" kw = .ok so) :
    ∃ doc, so = .bytes doc ∧ ∃ (rows : List (List Nat)) (px : Nat → RGBA),
      matrixIterVerbose M w h (numV (val "ppm" kw "scale")) (optNumV (val "ppm" kw "border")) = .ok rows
      ∧ rows.length = (h + 2 * borderOf w h "ppm" kw) * scaleOf "ppm" kw ∧ (∀ r ∈ rows, r.length = (w + 2 * borderOf w h "ppm" kw) * scaleOf "ppm" kw)
      ∧ (∀ r ∈ rows, ∀ t ∈ r, ∃ c rr g bb,
          cmGet (makeColormap w h (darkOf "ppm" kw) (lightOf "ppm" kw) (typeOptsV (val "ppm" kw))) t = some c
            ∧ colorToRgb c = .ok [rr, g, bb] ∧ px t = ⟨rr, g, bb, 255⟩)
      ∧ L.readPpm doc = .ok { w := (w + 2 * borderOf w h "ppm" kw) * scaleOf "ppm" kw, h := (h + 2 * borderOf w h "ppm" kw) * scaleOf "ppm" kw,
                              px := rows.map (fun row => row.map (fun t => some (px t))) } := by
  have hbo := val_typed "ppm" kw hdoc "border" .border (by decide)
  rw [ser_eq_read svc vs rt M w h rest "ppm" kw hdoc] at hso
  obtain ⟨doc, hd, rfl⟩ := bytesOut_ok _ _ hso
  have hd' : ppmDoc M w h (makeColormap w h (darkOf "ppm" kw) (lightOf "ppm" kw) (typeOptsV (val "ppm" kw)))
      (numV (val "ppm" kw "scale")) (optNumV (val "ppm" kw "border")) = .ok doc := hd
  have hnr : ¬ Props.C09.Refused (numV (val "ppm" kw "scale")) (optNumV (val "ppm" kw "border")) := by
    intro hR
    have := (docs_refused M w h _ _ hR false (makeColormap w h (darkOf "ppm" kw) (lightOf "ppm" kw) (typeOptsV (val "ppm" kw)))
      none none [] id {} none []).2.1
    rw [this] at hd'; cases hd'
  have hbv := admitted_typed w h _ _ hbo hnr
  have hp := symbol_pos hs
  exact ⟨doc, rfl, ppm_picture_types M w h _ _ _ _ hp.1 hp.2 hnr hbv doc hd'⟩

/-- TXT (strings without a line feed): one line per grid row at the requested border, each the concatenation of the requested
    strings for dark / light modules -/
theorem serializer_honours_txt (hs : SymbolShaped M w h) (kw : Config) (hdoc : DocumentedSer "txt" kw) (so : SerOut)
    (hdk : ∀ c ∈ txtV (val "txt" kw "dark"), c ≠ '\n') (hlt : ∀ c ∈ txtV (val "txt" kw "light"), c ≠ '\n')
    (hso : (fullEnv svc vs rt M w h rest).ser "txt" kw = .ok so) :
    ∃ doc, so = .text doc none
      ∧ L.linesT doc [] = some ((grid M w h 1 (borderOf w h "txt" kw)).map (fun row => row.flatMap (fun v =>
          if v ≠ 0 then txtV (val "txt" kw "dark") else txtV (val "txt" kw "light")))) := by
  have hbo := val_typed "txt" kw hdoc "border" .border (by decide)
  rw [ser_eq_read svc vs rt M w h rest "txt" kw hdoc] at hso
  obtain ⟨doc, hd, rfl⟩ := textOut_ok _ _ hso
  have hnr : ¬ Props.C09.Refused (.int 1) (optNumV (val "txt" kw "border")) := by
    intro hR
    have := (text_docs_refused M w h _ hR (txtV (val "txt" kw "dark")) (txtV (val "txt" kw "light"))).1
    rw [this] at hd; cases hd
  have hbv := admitted_typed w h (.int 1) _ hbo hnr
  obtain ⟨doc', h1, h2⟩ := txt_lines M w h _ _ ⟨hs.rows, hs.cols⟩ hs.bits hnr hbv _ _ hdk hlt
  rw [hd] at h1; cases h1
  exact ⟨doc, rfl, h2⟩

/-- ANSI terminal output: the SGR reader returns the grid at the requested border -/
theorem serializer_honours_ans (hs : SymbolShaped M w h) (kw : Config) (hdoc : DocumentedSer "ans" kw) (so : SerOut)
    (hso : (fullEnv svc vs rt M w h rest).ser "ans" kw = .ok so) :
    ∃ doc, so = .text doc none
      ∧ L.readAnsi doc = .ok { w := (w + 2 * borderOf w h "ans" kw) * 1, h := (h + 2 * borderOf w h "ans" kw) * 1,
                               px := twoTone (grid M w h 1 (borderOf w h "ans" kw)) black white } := by
  have hbo := val_typed "ans" kw hdoc "border" .border (by decide)
  rw [ser_eq_read svc vs rt M w h rest "ans" kw hdoc] at hso
  obtain ⟨doc, hd, rfl⟩ := textOut_ok _ _ hso
  have hnr : ¬ Props.C09.Refused (.int 1) (optNumV (val "ans" kw "border")) := by
    intro hR
    have := (text_docs_refused M w h _ hR [] []).2.1
    rw [this] at hd; cases hd
  have hbv := admitted_typed w h (.int 1) _ hbo hnr
  obtain ⟨doc', h1, h2⟩ := ansi_picture M w h _ _ ⟨hs.rows, hs.cols⟩ hs.bits (symbol_pos hs).2 hnr hbv
  rw [hd] at h1; cases h1
  exact ⟨doc, rfl, h2⟩

/-- compact terminal output (`QRCode.terminal(compact=True)`): the half-block reader returns the grid at the requested border (plus,
    for the odd number of rows every symbol has, the lower half of the last text line) -/
theorem serializer_honours_compact (hs : SymbolShaped M w h) (kw : Config) (hdoc : DocumentedSer "compact" kw) (so : SerOut)
    (hso : (fullEnv svc vs rt M w h rest).ser "compact" kw = .ok so) :
    ∃ doc, so = .text doc none
      ∧ L.readCompact doc = .ok { w := (w + 2 * borderOf w h "compact" kw) * 1,
                                  h := List.length (padOdd ((w + 2 * borderOf w h "compact" kw) * 1) (grid M w h 1 (borderOf w h "compact" kw))),
                                  px := twoTone (padOdd ((w + 2 * borderOf w h "compact" kw) * 1) (grid M w h 1 (borderOf w h "compact" kw))) black white }
      ∧ (padOdd ((w + 2 * borderOf w h "compact" kw) * 1) (grid M w h 1 (borderOf w h "compact" kw))).take ((h + 2 * borderOf w h "compact" kw) * 1)
          = grid M w h 1 (borderOf w h "compact" kw) := by
  have hbo := val_typed "compact" kw hdoc "border" .border (by decide)
  rw [ser_eq_read svc vs rt M w h rest "compact" kw hdoc] at hso
  obtain ⟨doc, hd, rfl⟩ := textOut_ok _ _ hso
  have hnr : ¬ Props.C09.Refused (.int 1) (optNumV (val "compact" kw "border")) := by
    intro hR
    have := (text_docs_refused M w h _ hR [] []).2.2
    rw [this] at hd; cases hd
  have hbv := admitted_typed w h (.int 1) _ hbo hnr
  obtain ⟨doc', h1, h2, h3⟩ := compact_picture M w h _ _ ⟨hs.rows, hs.cols⟩ hs.bits (symbol_pos hs).2 hnr hbv
  rw [hd] at h1; cases h1
  exact ⟨doc, rfl, h2, h3⟩

/-- PNG — the WHOLE file (signature, chunks with their CRCs, zlib framing, scanlines, colour table) read back by the reference reader
    `Spec.L.readPng`: (w+2b)·s × (h+2b)·s pixels at the REQUESTED `int(scale)` s and border b, every pixel showing the colour the
    request configures for its module type (`Props.C09Docs.png_file_picture_types` instantiated at the values read from the keyword
    map; `ZlibOK`: what the reader checks of the compressed payload — inflating is the runtime service `deflate`) -/
theorem serializer_honours_png (hs : SymbolShaped M w h) (hset : SetOrderOK svc.setOrder) (kw : Config) (hdoc : DocumentedSer "png" kw)
    (hfit : PngFits svc M w h kw) (so : SerOut) (hso : (fullEnv svc vs rt M w h rest).ser "png" kw = .ok so) :
    ∃ file out clrMap p A,
      so = .bytes file
      ∧ savePng svc.setOrder M w h (some (darkOf "png" kw)) (some (lightOf "png" kw)) (typeOptsV (val "png" kw))
          (numV (val "png" kw "scale")) (optNumV (val "png" kw "border")) = .ok out
      ∧ Proofs.Png.parseColormap (makeColormap w h (darkOf "png" kw) (lightOf "png" kw) (typeOptsV (val "png" kw))) = .ok clrMap
      ∧ buildPalette svc.setOrder clrMap = .ok p ∧ 0 < scaleOf "png" kw
      ∧ (useVerbose p = true → alignmentMatrix w = .ok A)
      ∧ out.width = (w + 2 * borderOf w h "png" kw) * scaleOf "png" kw ∧ out.height = (h + 2 * borderOf w h "png" kw) * scaleOf "png" kw
      ∧ (ZlibOK (pngCompV svc M w h (val "png" kw)) out.idat →
          ∃ px, L.readPng file out.idat = .ok (containerOf out (ppmOf (dpiV svc (val "png" kw "dpi"))) (pngCompV svc M w h (val "png" kw)),
                                               { w := out.width, h := out.height, px := px })
            ∧ ∀ x y, x < out.width → y < out.height →
                ∃ c rgba, cmGet clrMap (Proofs.Png.pixelType p M A w h (scaleOf "png" kw) (borderOf w h "png" kw) x y) = some c
                  ∧ (px.getD y []).getD x none = some rgba ∧ Proofs.Png.Shows c rgba) := by
  have hbo := val_typed "png" kw hdoc "border" .border (by decide)
  rw [ser_eq_read svc vs rt M w h rest "png" kw hdoc] at hso
  have hso' : pngOut (rest "png" (completed "png" kw)) (pngFileV svc M w h (val "png" kw)) = .ok so := hso
  have hfit' : pngFileV svc M w h (val "png" kw) ≠ .ok none := hfit
  cases hp : pngFileV svc M w h (val "png" kw) with
  | error e => rw [hp] at hso'; cases hso'
  | ok f =>
    cases f with
    | none => exact absurd hp hfit'
    | some file =>
      rw [hp] at hso'
      simp only [pngOut, Except.ok.injEq] at hso'
      subst hso'
      have hfile : savePngFile svc.setOrder M w h (some (darkOf "png" kw)) (some (lightOf "png" kw)) (typeOptsV (val "png" kw))
          (numV (val "png" kw "scale")) (optNumV (val "png" kw "border")) (dpiV svc (val "png" kw "dpi")) (pngCompV svc M w h (val "png" kw))
          = .ok (some file) := hp
      have hnr : ¬ Props.C09.Refused (numV (val "png" kw "scale")) (optNumV (val "png" kw "border")) := by
        intro hR
        have := (docs_refused M w h _ _ hR false [] (some (darkOf "png" kw)) (some (lightOf "png" kw)) [] svc.setOrder
          (typeOptsV (val "png" kw)) (dpiV svc (val "png" kw "dpi")) (pngCompV svc M w h (val "png" kw))).2.2.2.2.2
        rw [this] at hfile; cases hfile
      have hp' := symbol_pos hs
      obtain ⟨out, clrMap, p, b, A, h1, h2, h3, h4, h5, h6, h7, h8, h9⟩ :=
        png_file_picture_types svc.setOrder hset M w h _ _ _ _ _ _ _ file ⟨hs.rows, hs.cols⟩ hp'.1 hp'.2 hfile
      have hb : b = borderOf w h "png" kw := by
        have := borderForRange_eq w h _ _ hbo hnr
        rw [this] at h4
        simp only [Except.ok.injEq] at h4
        exact h4.symm
      subst hb
      exact ⟨file, out, clrMap, p, A, rfl, h1, h2, h3, h5, h6, h7, h8, h9⟩

/-! #### the vector kinds: the returned document is the typed model's document AT THE REQUESTED scale, border and colours, and the
     picture theorems of Props/C10Docs.lean, Props/C10Accept.lean, Props/C11Svg.lean speak about exactly these values -/

/-- generic step: a vector writer behind the float-border test returned `so` -/
theorem vector_ok {α : Type} (b : PyV) (r : R α) (f : α → SerOut) (so : SerOut)
    (hso : (if refusedFloat b then (.error .valueError : R SerOut) else r.map f) = .ok so) :
    refusedFloat b = false ∧ ∃ x, r = .ok x ∧ so = f x := by
  cases hf : refusedFloat b with
  | true => rw [hf] at hso; cases hso
  | false =>
    rw [hf] at hso
    simp only [Bool.false_eq_true, if_false] at hso
    cases hr : r with
    | error e => rw [hr] at hso; cases hso
    | ok x =>
      rw [hr] at hso
      simp only [Except.map, Except.ok.injEq] at hso
      exact ⟨rfl, x, rfl, hso.symm⟩

/-- TeX / PGF: the returned text is `write_tex` of the model at the REQUESTED scale (`scaleV`: the int, or the float with Python's
    `str` of it), unit, colour and url, drawn with the REQUESTED border: the body is one `\\pgfpathmoveto` / `\\pgfpathlineto` pair per
    line of `Tex.texLines M b`, b = `borderOf` — the commands `Props.C10Docs.tex_picture` reads back as the rows of the symbol at
    that border, every coordinate printed times the scale (`Props.C10Docs.tex_coordinates_read`, `judge_accepts_model_tex_proved`) -/
theorem serializer_honours_tex (kw : Config) (hdoc : DocumentedSer "tex" kw) (so : SerOut)
    (hso : (fullEnv svc vs rt M w h rest).ser "tex" kw = .ok so) :
    ∃ text, so = .text text.toList none
      ∧ Tex.writeTex M w h (texOptsV svc vs (val "tex" kw)) = .ok text
      ∧ (texOptsV svc vs (val "tex" kw)).scale = scaleV svc (val "tex" kw "scale")
      ∧ effBorder w h (texOptsV svc vs (val "tex" kw)).border = borderOf w h "tex" kw
      ∧ Proofs.TexDocs.texRead (Tex.texCmds (Tex.texLines M (borderOf w h "tex" kw))) = some (Tex.texLines M (borderOf w h "tex" kw)) := by
  have hbo := val_typed "tex" kw hdoc "border" .border (by decide)
  rw [ser_eq_read svc vs rt M w h rest "tex" kw hdoc] at hso
  obtain ⟨hf, text, hw, rfl⟩ := vector_ok (val "tex" kw "border") (Tex.writeTex M w h (texOptsV svc vs (val "tex" kw)))
    (fun s => .text s.toList none) so hso
  exact ⟨text, rfl, hw, rfl, effBorder_eq w h _ hbo hf, (Props.C10Docs.tex_picture M _).1⟩

/-- EPS: the returned text is the PostScript program of the model at the requested scale, border and colours; the path it strokes is
    `Model.Lines.epsPath M b` with b the REQUESTED border — the token stream of `Props.C10.judge_accepts_model_eps_proved` (every dark
    module covered once at that border and scale, no light one), kept word for word by the line breaking
    (`Props.C10Docs.eps_wrap_keeps_words`) -/
theorem serializer_honours_eps (kw : Config) (hdoc : DocumentedSer "eps" kw) (so : SerOut)
    (hso : (fullEnv svc vs rt M w h rest).ser "eps" kw = .ok so) :
    ∃ text, so = .text text.toList none
      ∧ VectorDocs.writeEps M w h (epsOptsV svc vs w h (val "eps" kw)) = .ok text
      ∧ (epsOptsV svc vs w h (val "eps" kw)).scale = scaleV svc (val "eps" kw "scale")
      ∧ (epsOptsV svc vs w h (val "eps" kw)).dark = .arg (darkOf "eps" kw) ∧ (epsOptsV svc vs w h (val "eps" kw)).light = .arg (lightOf "eps" kw)
      ∧ effBorder w h (epsOptsV svc vs w h (val "eps" kw)).border = borderOf w h "eps" kw := by
  have hbo := val_typed "eps" kw hdoc "border" .border (by decide)
  rw [ser_eq_read svc vs rt M w h rest "eps" kw hdoc] at hso
  obtain ⟨hf, text, hw, rfl⟩ := vector_ok (val "eps" kw "border") (VectorDocs.writeEps M w h (epsOptsV svc vs w h (val "eps" kw)))
    (fun s => .text s.toList none) so hso
  exact ⟨text, rfl, hw, rfl, rfl, rfl, effBorder_eq w h _ hbo hf⟩

/-- PDF: the returned file is the model's file (header, five objects, cross-reference table with the proved offsets:
    `Props.C10Docs.pdf_file_offsets`, `pdf_startxref`, `pdf_stream_length`) around the compressed content stream of the model at the
    requested scale, border and colours; the operators are `Model.Lines.pdfOps M b`, b the REQUESTED border
    (`Props.C10.judge_accepts_model_pdf_proved`) -/
theorem serializer_honours_pdf (kw : Config) (hdoc : DocumentedSer "pdf" kw) (so : SerOut)
    (hso : (fullEnv svc vs rt M w h rest).ser "pdf" kw = .ok so) :
    ∃ page, so = .bytes (VectorDocs.pdfFile page (svc.deflate (levelV (val "pdf" kw "compresslevel")) (VectorDocs.asciiBytes page.content)) vs.pdfDate)
      ∧ VectorDocs.pdfContent M w h (pdfOptsV svc vs w h (val "pdf" kw)) = .ok page
      ∧ (pdfOptsV svc vs w h (val "pdf" kw)).scale = scaleV svc (val "pdf" kw "scale")
      ∧ (pdfOptsV svc vs w h (val "pdf" kw)).dark = .arg (darkOf "pdf" kw) ∧ (pdfOptsV svc vs w h (val "pdf" kw)).light = .arg (lightOf "pdf" kw)
      ∧ effBorder w h (pdfOptsV svc vs w h (val "pdf" kw)).border = borderOf w h "pdf" kw := by
  have hbo := val_typed "pdf" kw hdoc "border" .border (by decide)
  rw [ser_eq_read svc vs rt M w h rest "pdf" kw hdoc] at hso
  obtain ⟨hf, page, hw, rfl⟩ := vector_ok (val "pdf" kw "border") (VectorDocs.pdfContent M w h (pdfOptsV svc vs w h (val "pdf" kw)))
    (fun p => .bytes (VectorDocs.pdfFile p (svc.deflate (levelV (val "pdf" kw "compresslevel")) (VectorDocs.asciiBytes p.content)) vs.pdfDate)) so hso
  exact ⟨page, rfl, hw, rfl, rfl, rfl, effBorder_eq w h _ hbo hf⟩

/-- SVG: the returned text is `write_svg` of the model for the REQUESTED colour map (`_make_colormap` of dark, light and the module
    colours of the request), scale and options, through the codec of the requested `encoding`; its `<path>` elements are
    `Svg.svgPaths … b` with b the REQUESTED border — the paths `Props.C11Svg.svg_colorful_picture` / `svg_paths_multicolor` (one path
    per colour, covering exactly the modules of that colour at that border) and `Props.C10.judge_accepts_model_svg_proved` (two
    colours) speak about -/
theorem serializer_honours_svg (kw : Config) (hdoc : DocumentedSer "svg" kw) (so : SerOut)
    (hso : (fullEnv svc vs rt M w h rest).ser "svg" kw = .ok so) :
    ∃ text paths, so = .text text.toList (some ((optStrV (val "svg" kw "encoding")).getD "utf-8"))
      ∧ Svg.writeSvg M w h (makeColormap w h (darkOf "svg" kw) (lightOf "svg" kw) (typeOptsV (val "svg" kw))) (svgOptsV svc w h (val "svg" kw)) = .ok text
      ∧ (svgOptsV svc w h (val "svg" kw)).scale = scaleV svc (val "svg" kw "scale")
      ∧ Svg.svgPaths M w h (makeColormap w h (darkOf "svg" kw) (lightOf "svg" kw) (typeOptsV (val "svg" kw))) (svgOptsV svc w h (val "svg" kw))
          (borderOf w h "svg" kw) = .ok paths := by
  have hbo := val_typed "svg" kw hdoc "border" .border (by decide)
  rw [ser_eq_read svc vs rt M w h rest "svg" kw hdoc] at hso
  have hso' : (if refusedFloat (val "svg" kw "border") then (.error .valueError : R SerOut)
      else svgDoc M w h (SvgArgs.mk (colV (val "svg" kw "dark")) (colV (val "svg" kw "light")) (typeOptsV (val "svg" kw))
        (svgOptsV svc w h (val "svg" kw)))) = .ok so := hso
  cases hf : refusedFloat (val "svg" kw "border") with
  | true => rw [hf] at hso'; cases hso'
  | false =>
    rw [hf] at hso'
    simp only [Bool.false_eq_true, if_false] at hso'
    unfold svgDoc at hso'
    have hsave : Svg.saveSvg M w h (some (colV (val "svg" kw "dark"))) (some (colV (val "svg" kw "light"))) (typeOptsV (val "svg" kw))
        (svgOptsV svc w h (val "svg" kw))
        = Svg.writeSvg M w h (makeColormap w h (darkOf "svg" kw) (lightOf "svg" kw) (typeOptsV (val "svg" kw))) (svgOptsV svc w h (val "svg" kw)) := rfl
    rw [hsave] at hso'
    cases hw : Svg.writeSvg M w h (makeColormap w h (darkOf "svg" kw) (lightOf "svg" kw) (typeOptsV (val "svg" kw))) (svgOptsV svc w h (val "svg" kw)) with
    | error e => rw [hw] at hso'; cases hso'
    | ok text =>
      rw [hw] at hso'
      simp only [bind, Except.bind, pure, Except.pure, Except.ok.injEq] at hso'
      subst hso'
      have hb : effBorder w h (svgOptsV svc w h (val "svg" kw)).border = borderOf w h "svg" kw := effBorder_eq w h _ hbo hf
      have h1 : scaleBad (svgOptsV svc w h (val "svg" kw)).scale = false := by
        cases hc : scaleBad (svgOptsV svc w h (val "svg" kw)).scale with
        | false => rfl
        | true => rw [Proofs.C14Ser.Vec.writeSvg_bad M w h _ _ (Or.inl hc)] at hw; cases hw
      have h2 : borderBad (svgOptsV svc w h (val "svg" kw)).border = false := by
        cases hc : borderBad (svgOptsV svc w h (val "svg" kw)).border with
        | false => rfl
        | true => rw [Proofs.C14Ser.Vec.writeSvg_bad M w h _ _ (Or.inr hc)] at hw; cases hw
      obtain ⟨F, hF⟩ := Proofs.C14Ser.Vec.writeSvg_good M w h (makeColormap w h (darkOf "svg" kw) (lightOf "svg" kw) (typeOptsV (val "svg" kw)))
        (svgOptsV svc w h (val "svg" kw)) h1 h2
      rw [hF, hb] at hw
      split at hw
      · cases hw
      · cases hp : Svg.svgPaths M w h (makeColormap w h (darkOf "svg" kw) (lightOf "svg" kw) (typeOptsV (val "svg" kw)))
            (svgOptsV svc w h (val "svg" kw)) (borderOf w h "svg" kw) with
        | error e => rw [hp] at hw; cases hw
        | ok paths => exact ⟨text, paths, rfl, rfl, rfl, rfl⟩

end honours


/-! ### the refusals of the property text, one by one (corollaries of `serializer_refuses_exactly`) -/

section corollaries
variable (svc : Services) (vs : VecServices) (rt : Runtime) (M : List (List Nat)) (w h : Nat) (rest : String → Config → R SerOut)

/-- a negative or fractional border is part of every kind's table -/
theorem malformed_of_border (key : String) (kw : Config) (hk : key ∈ kinds) (hb : borderRefused (val key kw "border") = true) :
    Malformed M w h key kw := by
  simp only [kinds, List.mem_cons, List.not_mem_nil, or_false] at hk
  rcases hk with rfl | rfl | rfl | rfl | rfl | rfl | rfl | rfl | rfl | rfl | rfl | rfl | rfl <;> simp [Malformed, hb]

/-- **negative or fractional borders are refused** — by every serialiser -/
theorem border_refused (hs : SymbolShaped M w h) (hset : SetOrderOK svc.setOrder) (key : String) (kw : Config) (hdoc : DocumentedSer key kw)
    (hfit : key = "png" → PngFits svc M w h kw) (hb : borderRefused (val key kw "border") = true) :
    (fullEnv svc vs rt M w h rest).ser key kw = .error .valueError :=
  (serializer_refuses_exactly svc vs rt M w h rest hs hset key kw hdoc hfit).2 (malformed_of_border M w h key kw hdoc.1 hb)

/-- **non-positive scales are refused** by the writers that convert the scale to an int first (`int(0.5) == 0` is refused as well) … -/
theorem scale_refused_raster (hs : SymbolShaped M w h) (hset : SetOrderOK svc.setOrder) (key : String) (kw : Config) (hdoc : DocumentedSer key kw)
    (hk : key ∈ ["png", "pbm", "pam", "ppm", "xbm", "xpm"]) (hfit : key = "png" → PngFits svc M w h kw)
    (hsc : scaleRefusedRaster (val key kw "scale") = true) :
    (fullEnv svc vs rt M w h rest).ser key kw = .error .valueError := by
  apply (serializer_refuses_exactly svc vs rt M w h rest hs hset key kw hdoc hfit).2
  simp only [List.mem_cons, List.not_mem_nil, or_false] at hk
  rcases hk with rfl | rfl | rfl | rfl | rfl | rfl <;> simp [Malformed, hsc]

/-- … and by the writers that accept a float scale -/
theorem scale_refused_vector (hs : SymbolShaped M w h) (hset : SetOrderOK svc.setOrder) (key : String) (kw : Config) (hdoc : DocumentedSer key kw)
    (hk : key ∈ ["svg", "eps", "pdf", "tex"]) (hsc : scaleRefusedVector (val key kw "scale") = true) :
    (fullEnv svc vs rt M w h rest).ser key kw = .error .valueError := by
  have hfit : key = "png" → PngFits svc M w h kw := by
    intro hp; subst hp; simp at hk
  apply (serializer_refuses_exactly svc vs rt M w h rest hs hset key kw hdoc hfit).2
  simp only [List.mem_cons, List.not_mem_nil, or_false] at hk
  rcases hk with rfl | rfl | rfl | rfl <;> simp [Malformed, hsc]

/-- **malformed colours are refused** — `dark` / `light` of the writers with two colours (pam, xpm, eps, pdf): a value outside the
    colour grammar is neither opaque nor black (`isBlack_wellformed`) nor `None` -/
theorem malformed_dark_light_refused (hs : SymbolShaped M w h) (hset : SetOrderOK svc.setOrder) (key : String) (kw : Config)
    (hdoc : DocumentedSer key kw) (hk : key ∈ ["pam", "xpm", "eps", "pdf"])
    (hbad : malformed (darkOf key kw) = true ∨ malformed (lightOf key kw) = true) :
    (fullEnv svc vs rt M w h rest).ser key kw = .error .valueError := by
  have hfit : key = "png" → PngFits svc M w h kw := by
    intro hp; subst hp; simp at hk
  apply (serializer_refuses_exactly svc vs rt M w h rest hs hset key kw hdoc hfit).2
  have hop : ∀ c, malformed c = true → opaqueCol c = false ∧ c ≠ .none := by
    intro c hc
    constructor
    · cases ho : opaqueCol c with
      | false => rfl
      | true => rw [opaque_wellformed c ho] at hc; cases hc
    · intro h0; subst h0; cases hc
  simp only [List.mem_cons, List.not_mem_nil, or_false] at hk
  have hblk : ∀ c, malformed c = true → Svg.isBlack c = false := by
    intro c hc
    cases hb : Svg.isBlack c with
    | false => rfl
    | true => rw [isBlack_wellformed c hb] at hc; cases hc
  rcases hk with rfl | rfl | rfl | rfl
  · rcases hbad with hd | hl
    · have : malformed (colV (val "pam" kw "dark")) = true := hd
      simp [Malformed, this]
    · have : malformed (colV (val "pam" kw "light")) = true := hl
      simp [Malformed, this]
  · rcases hbad with hd | hl
    · have h1 := hop _ hd
      have e1 : opaqueCol (colV (val "xpm" kw "dark")) = false := h1.1
      have e2 : colV (val "xpm" kw "dark") ≠ .none := h1.2
      simp [Malformed, e1, e2]
    · have h1 := hop _ hl
      have e1 : opaqueCol (colV (val "xpm" kw "light")) = false := h1.1
      have e2 : colV (val "xpm" kw "light") ≠ .none := h1.2
      simp [Malformed, e1, e2]
  · rcases hbad with hd | hl
    · have hbk := hblk _ hd
      have e1 : opaqueCol (colV (val "eps" kw "dark")) = false := (hop _ hd).1
      have e2 : Svg.isBlack (colV (val "eps" kw "dark")) = false := hbk
      simp [Malformed, e1, e2]
    · have h1 := hop _ hl
      have e1 : opaqueCol (colV (val "eps" kw "light")) = false := h1.1
      have e2 : colV (val "eps" kw "light") ≠ .none := h1.2
      simp [Malformed, e1, e2]
  · rcases hbad with hd | hl
    · have hbk := hblk _ hd
      have e1 : opaqueCol (colV (val "pdf" kw "dark")) = false := (hop _ hd).1
      have e2 : Svg.isBlack (colV (val "pdf" kw "dark")) = false := hbk
      simp [Malformed, e1, e2]
    · have h1 := hop _ hl
      have e1 : opaqueCol (colV (val "pdf" kw "light")) = false := h1.1
      have e2 : colV (val "pdf" kw "light") ≠ .none := h1.2
      simp [Malformed, e1, e2]

/-- … and every colour that reaches the colour map of the writers with module colours (png: malformed; ppm: not opaque): `dark` when the
    colour of the dark data modules is not given separately, `light` when the quiet zone's is not, every module colour of a module type
    the symbol size has -/
theorem malformed_colormap_refused (hs : SymbolShaped M w h) (hset : SetOrderOK svc.setOrder) (kw : Config) (hdoc : DocumentedSer "png" kw)
    (hfit : PngFits svc M w h kw)
    (hbad : ∃ e ∈ makeColormap w h (darkOf "png" kw) (lightOf "png" kw) (typeOptsV (val "png" kw)), malformed e.2 = true) :
    (fullEnv svc vs rt M w h rest).ser "png" kw = .error .valueError := by
  apply (serializer_refuses_exactly svc vs rt M w h rest hs hset "png" kw hdoc (fun _ => hfit)).2
  obtain ⟨e, he, hm⟩ := hbad
  have : ∃ e ∈ makeColormap w h (colV (val "png" kw "dark")) (colV (val "png" kw "light")) (typeOptsV (val "png" kw)), malformed e.2 = true :=
    ⟨e, he, hm⟩
  simp only [Malformed]
  simp [this]

end corollaries

/-! ### non-vacuity: a symbol, services, requests of every sort (kernel evaluation of the models through the keyword binding) -/

section examples

/-- the matrix of `segno.make('C14', micro=False)`: version 1 -/
def exSymbol : List (List Nat) :=
  [[1,1,1,1,1,1,1,0,0,1,1,0,0,0,1,1,1,1,1,1,1],
   [1,0,0,0,0,0,1,0,1,1,0,1,1,0,1,0,0,0,0,0,1],
   [1,0,1,1,1,0,1,0,0,0,1,0,0,0,1,0,1,1,1,0,1],
   [1,0,1,1,1,0,1,0,0,0,1,0,1,0,1,0,1,1,1,0,1],
   [1,0,1,1,1,0,1,0,0,1,1,1,1,0,1,0,1,1,1,0,1],
   [1,0,0,0,0,0,1,0,1,0,1,0,1,0,1,0,0,0,0,0,1],
   [1,1,1,1,1,1,1,0,1,0,1,0,1,0,1,1,1,1,1,1,1],
   [0,0,0,0,0,0,0,0,1,1,1,0,0,0,0,0,0,0,0,0,0],
   [0,0,0,0,1,1,1,1,0,1,1,0,0,0,1,1,0,0,0,1,0],
   [1,0,0,0,1,1,0,1,1,0,0,1,1,1,0,1,0,0,1,0,1],
   [1,0,1,0,0,1,1,1,0,1,0,1,1,1,1,1,1,0,0,1,1],
   [0,0,0,0,1,1,0,0,0,1,0,0,1,1,1,0,1,1,0,1,0],
   [0,1,0,1,0,0,1,1,0,0,0,0,1,1,0,0,0,0,1,1,1],
   [0,0,0,0,0,0,0,0,1,0,1,0,0,0,1,0,0,0,1,1,0],
   [1,1,1,1,1,1,1,0,1,1,1,1,1,0,0,0,0,1,0,0,1],
   [1,0,0,0,0,0,1,0,1,1,1,1,0,1,1,1,0,1,0,1,0],
   [1,0,1,1,1,0,1,0,1,1,0,1,0,1,0,1,1,0,1,1,1],
   [1,0,1,1,1,0,1,0,0,0,0,0,0,1,0,1,0,1,0,1,1],
   [1,0,1,1,1,0,1,0,0,0,0,0,1,1,0,1,1,1,1,0,0],
   [1,0,0,0,0,0,1,0,0,1,1,1,1,0,1,0,1,0,1,0,1],
   [1,1,1,1,1,1,1,0,0,1,0,1,1,0,0,0,0,0,1,1,1]]

example : SymbolShaped exSymbol 21 21 :=
  ⟨rfl, ⟨1, by decide, by decide, by decide⟩, by decide, by decide, by decide, by decide⟩

def exSvc : Services :=
  { floatStr := fun _ _ => "2.5", mulStr := fun _ _ _ => "72.5", setOrder := fun l => l.eraseDups, deflate := fun _ b => 120 :: 156 :: b,
    ppm := fun i => (i * 10000 / 254).toNat }
def exVec : VecServices := { texDate := "2024-02-29T13:14:15", epsDate := "2024-02-29 13:14:15", pdfDate := "20240229131415", chan := fun _ => "0.5" }
def exRt : Runtime :=
  { codec := fun _ s => .ok (s.map Char.toNat), decode := fun _ b => .ok (b.map Char.ofNat), defaultEnc := "utf-8",
    gzipCheck := fun _ => .ok (), gzip := fun _ b => b }
def exEnv : Env := fullEnv exSvc exVec exRt exSymbol 21 21 (fun _ _ => .error .assertionError)

example : SetOrderOK exSvc.setOrder := Proofs.Png.setOrderOK_eraseDups

def cls (r : R SerOut) : String := match r with | .ok _ => "ok" | .error e => e.name

/-- requests of the documented domain: accepted … -/
example : DocumentedSer "png" [("scale", .float 5 2), ("border", .int 0), ("dark", .str "darkblue"), ("finder_dark", .str "#123"), ("light", .none), ("dpi", .int 300)]
    ∧ DocumentedSer "svg" [("scale", .float 5 2), ("unit", .str "mm"), ("svgversion", .float 2 1), ("dark", .str "#09080780"), ("draw_transparent", .bool true)]
    ∧ DocumentedSer "txt" [("dark", .str "X"), ("light", .none)] ∧ DocumentedSer "compact" [("border", .float 3 2)] := by decide
example : [cls (exEnv.ser "png" [("scale", .int 2), ("dark", .str "darkblue"), ("light", .none)]), cls (exEnv.ser "pbm" [("plain", .bool true)]),
           cls (exEnv.ser "svg" [("scale", .float 5 2), ("dark", .str "#09080780")]), cls (exEnv.ser "eps" [("light", .str "#fff")]),
           cls (exEnv.ser "pdf" []), cls (exEnv.ser "tex" [("unit", .str "mm")]), cls (exEnv.ser "xpm" [("dark", .none)]),
           cls (exEnv.ser "pam" [("light", .none)]), cls (exEnv.ser "ppm" [("data_dark", .str "red")]), cls (exEnv.ser "txt" [("dark", .str "X")]),
           cls (exEnv.ser "ans" []), cls (exEnv.ser "compact" [("border", .int 0)]), cls (exEnv.ser "xbm" [("name", .str "qr")])]
    = List.replicate 13 "ok" := by decide +kernel
/-- … or refused with ValueError, one request per clause of the table (each is `Malformed`) -/
example : [cls (exEnv.ser "png" [("scale", .float 1 2)]), cls (exEnv.ser "pbm" [("border", .int (-1))]), cls (exEnv.ser "txt" [("border", .float 3 2)]),
           cls (exEnv.ser "svg" [("border", .float (-1) 2)]), cls (exEnv.ser "svg" [("unit", .str "mm"), ("omitsize", .bool true)]),
           cls (exEnv.ser "svg" [("dark", .str "#12")]), cls (exEnv.ser "png" [("dpi", .int (-1))]), cls (exEnv.ser "png" [("alignment_dark", .str "#12")]),
           cls (exEnv.ser "ppm" [("light", .none)]), cls (exEnv.ser "pam" [("dark", .none)]), cls (exEnv.ser "xpm" [("dark", .str "#0008")]),
           cls (exEnv.ser "eps" [("dark", .none)]), cls (exEnv.ser "pdf" [("light", .str "#01020380")]), cls (exEnv.ser "tex" [("scale", .int 0)])]
    = List.replicate 14 "ValueError" := by decide +kernel
example : Malformed exSymbol 21 21 "svg" [("dark", .str "#12")] ∧ Malformed exSymbol 21 21 "png" [("alignment_dark", .str "#12")]
    ∧ Malformed exSymbol 21 21 "xpm" [("dark", .str "#0008")] ∧ ¬ Malformed exSymbol 21 21 "png" [("version_dark", .str "#12")] := by decide +kernel
/-- outside the documented domain the models show what the real code does: a float border with an integral value ends in TypeError in the
    raster writers, an unknown keyword is Python's TypeError, a colour of a module type the symbol does not have is never looked at -/
example : ¬ DocumentedSer "pbm" [("border", .float 2 1)] ∧ cls (exEnv.ser "pbm" [("border", .float 2 1)]) = "TypeError"
    ∧ cls (exEnv.ser "pbm" [("dark", .str "red")]) = "TypeError" ∧ cls (exEnv.ser "png" [("version_dark", .str "#12")]) = "ok" := by decide +kernel

end examples

end Props.C14Ser
