/-
  C14 (completion of `no_crash`) — `_encode` (Model.encodeCore) never ends in IndexError / KeyError /
  TypeError / AssertionError on segments that fit, hence the full statement `NoCrash`.
  Property theorems only; helper lemmas live in Proofs/EncodeCoreTotal.lean.
-/
import Props.C14
import Proofs.EncodeCoreTotal

namespace Props.C14
open Model Proofs.ArgsLemmas Proofs.EncodeStages

/-- `_encode` on fitting segments, a mask in range and a valid level ends in a symbol or in a refusal
    (the only refusal possible is ValueError for an unknown ECI assignment number) -/
theorem encodeCore_crash_free : EncodeCoreCrashFree := by
  intro ps segs er v mask eci boost f e _ hfit hmask _ h
  rw [Proofs.EncodeCoreTotal.encodeCore_err segs er v mask eci boost f e hfit hmask h]
  rfl

/-- sharper form: the only error `_encode` can end in on such input is ValueError — an unknown ECI assignment
    number in `write_segment`; the two other ValueErrors of the model (`levels.index(error)` in `boost_error_level`
    for a level the version does not know, bits left over in `add_codewords`) are not excluded here, they are
    refusals, not crashes.  Neither the origin of the segments (`prepareData`) nor the validity of the level
    constant is needed: `Fits` alone gives the version range, the character count indicators and the table rows. -/
theorem encodeCore_value_error_only (segs : List Segment) (er : Option Nat) (v : Int) (mask : Option Nat)
    (eci boost : Bool) (f : String → Option Nat) (e : PyErr) (hfit : Fits segs er eci v) (hmask : MaskOk v mask)
    (h : encodeCore segs (defaultLevel er v) v mask eci boost f = .error e) : e = .valueError :=
  Proofs.EncodeCoreTotal.encodeCore_err segs er v mask eci boost f e hfit hmask h

/-- **no crash**: on the documented argument domain the model of make / make_qr / make_micro /
    make_sequence never ends in IndexError, KeyError, TypeError or AssertionError -/
theorem no_crash : NoCrash := no_crash_partial encodeCore_crash_free

end Props.C14

#print axioms Props.C14.encodeCore_crash_free
#print axioms Props.C14.encodeCore_value_error_only
#print axioms Props.C14.no_crash
