/-
  C11, alignment tie per version (kernel-evaluated, see Proofs/Align.lean `alignCheck`): the matrix that
  `add_alignment_patterns` fills (Model.alignmentMatrix?, table `consts.ALIGNMENT_POS` regenerated in Gen/Align.lean)
  is 2 outside the Annex E blocks, 0 / 1 inside, and the blocks lie in the ISO alignment region.
-/
import Proofs.Align

namespace Props.C11Align

open Proofs.Align

theorem align_vm3 : alignCheck (-3) = true := by decide +kernel
theorem align_v4 : alignCheck (4) = true := by decide +kernel
theorem align_v15 : alignCheck (15) = true := by decide +kernel
theorem align_v18 : alignCheck (18) = true := by decide +kernel
theorem align_v26 : alignCheck (26) = true := by decide +kernel
theorem align_v39 : alignCheck (39) = true := by decide +kernel

end Props.C11Align
