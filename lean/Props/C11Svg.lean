/-
  C11 — the colourful (per-type colour) SVG output paints each module with the colour configured for its type.
  Property theorems about the multicolour branch of the model of `write_svg` (Model/SvgDoc.lean: `vrowGo`,
  `vlinesGo` = `matrix_to_lines_verbose`, `accumulate` = the `xy` / `coordinates` loop, `colorfulLines`), tied to the
  real code by the whole-document correspondence of harness/vecdocs.py.  Reference semantics: `Spec.Vector.svgAbs`
  (relative `m dx dy h len` sequences, the same that `Props.C10.rel_abs` uses) and `Spec.Vector.coverAt` (the judge's
  coverage count).  Helper lemmas: Proofs/SvgColorful.lean.  Mathlib-free.
-/
import Proofs.SvgColorful
import Proofs.Raster

namespace Props.C11Svg

open Model Model.Svg Model.Lines Spec.Vector Proofs.Lines Proofs.SvgColorful

/-- `svg_colorful_paths` (unbounded: every grid of colour objects with non-empty rows, every notion of equality
    `key` of colour objects — Python's `==` is `pyKey`).  Let `d` be the dict `coordinates` after the loop over
    `matrix_to_lines_verbose()` — one entry per `<path>`.  Then
    (1) the colour keys of the entries are pairwise distinct (one path per colour);
    (2) absolutising the relative triples of an entry with the reference semantics `svgAbs` (pen at the origin) and
        counting, with the judge's `coverAt`, the segments on the centre line of grid row i: a cell (i, j) of the grid
        is covered exactly once if its colour equals the entry's colour, and not at all otherwise — so the path of a
        colour covers exactly the cells of that colour, every one once, and paths of different colours are disjoint;
    (3) nothing is covered right of a row, and no segment lies on a line that is not the centre line of a row;
    (4) every cell's colour has an entry — the union of the paths is the whole grid. -/
theorem svg_colorful_paths {α κ : Type} [DecidableEq κ] (key : α → κ) (rows : List (List α))
    (lines : List (α × Int × Int × Int)) (hl : verboseLines key rows = some lines) :
    let d := accumulate key lines
    (d.map (fun e => key e.obj)).Nodup
    ∧ (∀ e ∈ d, ∀ (i : Nat) (hi : i < rows.length) (j : Nat),
          ((hj : j < (rows[i]).length) →
            coverAt (rowSegs (svgAbs 0 0 e.coords) i) j = if key ((rows[i])[j]) = key e.obj then 1 else 0)
          ∧ ((rows[i]).length ≤ j → coverAt (rowSegs (svgAbs 0 0 e.coords) i) j = 0))
    ∧ (∀ e ∈ d, ∀ t ∈ svgAbs 0 0 e.coords, ∃ i : Nat, i < rows.length ∧ t.2.1 = 2 * (i : Int) + 1)
    ∧ (∀ (i : Nat) (hi : i < rows.length) (j : Nat) (hj : j < (rows[i]).length), ∃ e ∈ d, key e.obj = key ((rows[i])[j])) := by
  intro d
  obtain ⟨hnd, hent, hall⟩ := inv_accumulate key lines
  have hrows := vlinesGo_rows key rows (-1) lines hl
  have hcov : ∀ e ∈ d, ∀ (i : Nat) (hi : i < rows.length) (j : Nat),
      coverAt (rowSegs (svgAbs 0 0 e.coords) i) j = colAt key 0 (rows[i]) (key e.obj) j := by
    intro e he i hi j
    obtain ⟨rs, hrs, hseg⟩ := hrows i hi
    rw [(hent e he).1, rowSegs_sel]
    have e1 : (2 * (i : Int) + 1) = -1 + 2 * ((i : Int) + 1) := by omega
    rw [e1, hseg (key e.obj)]
    exact vrowRuns_cover key _ rs hrs _ j
  refine ⟨hnd, ?_, ?_, ?_⟩
  · intro e he i hi j
    constructor
    · intro hj
      rw [hcov e he i hi j, colAt_inside key _ 0 _ j (by omega) (by simpa using hj)]
      simp
    · intro hj
      rw [hcov e he i hi j]
      exact colAt_ge key _ 0 _ j (by omega)
  · intro e he t ht
    rw [(hent e he).1] at ht
    simp only [sel, List.mem_map, List.mem_filter] at ht
    obtain ⟨l, ⟨hl', _⟩, rfl⟩ := ht
    obtain ⟨i, hi, hy⟩ := vlinesGo_heights key rows (-1) lines hl l hl'
    exact ⟨i, hi, by rw [hy]; omega⟩
  · intro i hi j hj
    obtain ⟨rs, hrs, hseg⟩ := hrows i hi
    -- the cell is covered by the runs of its own colour, so a line of that colour exists
    have hc : coverAt (selRuns key (key ((rows[i])[j])) rs) j = 1 := by
      rw [vrowRuns_cover key _ rs hrs, colAt_inside key _ 0 _ j (by omega) (by simpa using hj)]
      simp
    have hne : segsAt key (key ((rows[i])[j])) (-1 + 2 * ((i : Int) + 1)) lines ≠ [] := by
      rw [hseg]
      intro h0
      rw [h0, coverAt_nil] at hc
      cases hc
    unfold segsAt at hne
    rw [Ne, List.map_eq_nil_iff, List.filter_eq_nil_iff] at hne
    have : ∃ l ∈ lines, key l.1 = key ((rows[i])[j]) := by
      apply Classical.byContradiction
      intro hno
      apply hne
      intro l hl' hp
      simp only [decide_eq_true_eq] at hp
      exact hno ⟨l, hl', hp.1⟩
    obtain ⟨l, hl', hk⟩ := this
    obtain ⟨e, he, hek⟩ := hall l hl'
    exact ⟨e, he, hek.trans hk⟩

/-- non-vacuity: a 2 × 3 grid with three colours (colours are numbers here, equality is equality) -/
example : verboseLines (fun (c : Nat) => c) [[7, 7, 8], [9, 7, 7]] = some [(7, 0, 1, 2), (8, 2, 1, 3), (9, 0, 3, 1), (7, 1, 3, 3)] := by decide
example : (accumulate (fun (c : Nat) => c) [(7, 0, 1, 2), (8, 2, 1, 3), (9, 0, 3, 1), (7, 1, 3, 3)]).map (fun e => (e.obj, e.coords))
    = [(7, [(0, 1, 2), (-1, 2, 2)]), (8, [(2, 1, 1)]), (9, [(0, 3, 1)])] := by decide

/-- `svg_colorful_picture` (C11; unbounded: every matrix of a symbol size w = h, every colour map, every border b).
    If the multicolour branch of the model of `write_svg` produces its lines, then with `A` the alignment-pattern
    matrix and `d` the dict `coordinates` (one entry per `<path>`, colour object `e.obj`, relative triples `e.coords`
    — exactly the numbers printed into the `d` attribute by `pathD`):
    (1) the entries have pairwise different colours (Python equality of the colour objects = `pyKey`);
    (2) every position (i, j) of the (h+2b) × (w+2b) page has a module type `verboseCell M A w h b i j` — the value
        `matrix_iter_verbose` reports, the ISO type by `Props.C11.types_iso_partial` (D8 excepted), the quiet zone
        type outside the symbol — to which the colour map assigns a colour `c`, and the path of an entry, absolutised
        by `svgAbs` (cf. `Props.C10.rel_abs`) and rasterised by the judge's `coverAt` on the centre line of row i,
        covers (i, j) exactly once if `c` is the entry's colour and not at all otherwise: the runs of the path
        painted in colour c cover exactly the modules whose type the colour map sends to c, the paths are pairwise
        disjoint, and the path of `c` exists — their union is the whole page;
    (3) nothing is covered right of the page and no segment lies off the centre lines of the h+2b rows. -/
theorem svg_colorful_picture (M : List (List Nat)) (w h b : Nat) (cm : List (Nat × ColorArg))
    (lines : List (ColorArg × Int × Int × Int)) (hl : colorfulLines M w h b cm = .ok lines) :
    ∃ A, alignmentMatrix w = .ok A ∧
      let d := accumulate pyKey lines
      (d.map (fun e => pyKey e.obj)).Nodup
      ∧ (∀ i j, i < h + 2 * b → j < w + 2 * b →
          ∃ c, cmGet cm (verboseCell M A w h b i j) = some c
            ∧ (∃ e ∈ d, pyKey e.obj = pyKey c)
            ∧ ∀ e ∈ d, coverAt (rowSegs (svgAbs 0 0 e.coords) i) j = if pyKey c = pyKey e.obj then 1 else 0)
      ∧ (∀ e ∈ d, ∀ i j, i < h + 2 * b → w + 2 * b ≤ j → coverAt (rowSegs (svgAbs 0 0 e.coords) i) j = 0)
      ∧ (∀ e ∈ d, ∀ t ∈ svgAbs 0 0 e.coords, ∃ i : Nat, i < h + 2 * b ∧ t.2.1 = 2 * (i : Int) + 1) := by
  unfold colorfulLines at hl
  have hb0 : ¬ ((b : Int) < 0) := by omega
  -- the rows of `matrix_iter_verbose(matrix, matrix_size, scale=1, border=b)`
  cases hA : alignmentMatrix w with
  | error e => simp [matrixIterVerbose, checkValidBorder, Num.isFractional, Num.isNegative, Num.toInt, checkValidScale, borderForRange, hA, hb0, bind, Except.bind, pure, Except.pure] at hl
  | ok A =>
    have hrows : matrixIterVerbose M w h (.int 1) (some (.int b)) = .ok (iterWith (verboseCell M A w h b) w h 1 b) := by
      simp [matrixIterVerbose, checkValidBorder, Num.isFractional, Num.isNegative, Num.toInt, checkValidScale, borderForRange, hA, hb0, bind, Except.bind, pure, Except.pure]
    rw [hrows] at hl
    simp only [bind, Except.bind] at hl
    split at hl
    · cases hl
    · rename_i crows hc
      split at hl
      · rename_i lines' hv
        simp only [pure, Except.pure, Except.ok.injEq] at hl
        subst hl
        refine ⟨A, rfl, ?_⟩
        intro d
        obtain ⟨hnd, hcell, hoff, hexist⟩ := svg_colorful_paths pyKey crows lines' hv
        -- shape of the type grid
        have hgrid := Proofs.Raster.iterWith_eq (verboseCell M A w h b) w h 1 b (by omega)
        simp only [Nat.mul_one, Nat.div_one] at hgrid
        obtain ⟨hlen, hel⟩ := mapM_ok _ _ _ hc
        have hlenT : (iterWith (verboseCell M A w h b) w h 1 b).length = h + 2 * b := by rw [hgrid]; simp
        have hclen : crows.length = h + 2 * b := by rw [hlen, hlenT]
        have hrow : ∀ (i : Nat) (hi : i < h + 2 * b),
            (iterWith (verboseCell M A w h b) w h 1 b)[i]'(by omega) = (List.range (w + 2 * b)).map (fun x => verboseCell M A w h b i x) := by
          intro i hi
          simp [hgrid]
        -- row i of the colour grid
        have hcrow : ∀ (i : Nat) (hi : i < h + 2 * b), (crows[i]'(by omega)).length = w + 2 * b
            ∧ ∀ (j : Nat) (hj : j < w + 2 * b) (hj' : j < (crows[i]'(by omega)).length),
                cmGet cm (verboseCell M A w h b i j) = some ((crows[i]'(by omega))[j]) := by
          intro i hi
          have h1 := hel i (by omega) (by omega)
          rw [hrow i hi] at h1
          obtain ⟨hl2, hel2⟩ := mapM_ok _ _ _ h1
          refine ⟨by simpa using hl2, ?_⟩
          intro j hj hj'
          have h2 := hel2 j (by simpa using hj) hj'
          simp only [List.getElem_map, List.getElem_range] at h2
          cases hg : cmGet cm (verboseCell M A w h b i j) with
          | none => rw [hg] at h2; cases h2
          | some c =>
            rw [hg] at h2
            simp only [pure, Except.pure, Except.ok.injEq] at h2
            rw [h2]
        refine ⟨hnd, ?_, ?_, ?_⟩
        · intro i j hi hj
          obtain ⟨hwl, hget⟩ := hcrow i hi
          have hj' : j < (crows[i]'(by omega)).length := by omega
          refine ⟨_, hget j hj hj', hexist i (by omega) j hj', ?_⟩
          intro e he
          have := (hcell e he i (by omega) j).1 hj'
          rw [this]
        · intro e he i j hi hj
          obtain ⟨hwl, _⟩ := hcrow i hi
          exact (hcell e he i (by omega) j).2 (by omega)
        · intro e he t ht
          obtain ⟨i, hi, hy⟩ := hoff e he t ht
          exact ⟨i, by omega, hy⟩
      · cases hl

/-- non-vacuity: an (all dark) M1-sized matrix, border 1, red finder patterns, light modules transparent: 49 lines in three colours -/
example : (match colorfulLines (List.replicate 11 (List.replicate 11 1)) 11 11 1
    [(Gen.TYPE_FINDER_PATTERN_DARK, .str "red"), (Gen.TYPE_FINDER_PATTERN_LIGHT, .none), (Gen.TYPE_DATA_DARK, .str "#000"), (Gen.TYPE_DATA_LIGHT, .none),
     (Gen.TYPE_TIMING_DARK, .str "#000"), (Gen.TYPE_TIMING_LIGHT, .none), (Gen.TYPE_FORMAT_DARK, .str "#000"), (Gen.TYPE_FORMAT_LIGHT, .none),
     (Gen.TYPE_SEPARATOR, .none), (Gen.TYPE_QUIET_ZONE, .none)] with
    | .ok l => (l.length, (accumulate pyKey l).map (fun (e : Entry ColorArg) => (e.obj, e.coords.length)))
    | .error _ => (0, [])) = (49, [(.none, 31), (.str "red", 7), (.str "#000", 11)]) := by
  decide +kernel

/-- `svg_paths_multicolor` (the link from `svg_colorful_picture` to the text of the document): in the multicolour branch the
    `<path …/>` elements of the model's document are exactly one element per entry of the dict `coordinates` after the loop
    (`accumulate`; without `draw_transparent` the entry of `None` removed) — the element of an entry is the common opening `p`
    (transform / class), the stroke attributes of the entry's colour (`toWebColor`; none for `None`), and the `d` attribute
    `pathD e.coords` printing the entry's relative triples — ordered by `sorted(…, key=len)` -/
theorem svg_paths_multicolor (M : List (List Nat)) (w h b : Nat) (cm : List (Nat × ColorArg)) (o : Opts) (qz : ColorArg)
    (lines : List (ColorArg × Int × Int × Int)) (hm : isMulticolor cm = true) (hq : cmGet cm Gen.TYPE_QUIET_ZONE = some qz)
    (hl : colorfulLines M w h b cm = .ok lines) :
    svgPaths M w h cm o b =
      (pathElems (match o.svgversion with | some v => !v.lt2 | none => false)
          ("<path" ++ "" ++ (match o.lineclass with | some c => if c.isEmpty then "" else " class=" ++ quoteattr c | none => ""))
          (if !o.drawTransparent then dictDel pyKey (accumulate pyKey lines) .none else accumulate pyKey lines)).map
        (fun paths => sortByLen (paths.map (·.2))) := by
  have hp0 : (if !o.scale.notOne then (if o.scale.notOne then " transform=\"scale(" ++ o.scale.text ++ ")\"" else "") else "") = "" := by
    cases o.scale.notOne <;> rfl
  unfold svgPaths
  simp only [hq, hm, hl, bind, Except.bind, pure, Except.pure, Bool.not_true, Bool.false_and, Bool.false_eq_true, if_false, if_true,
    Bool.or_true, Bool.and_true, Bool.false_or, hp0]
  cases hp : pathElems (match o.svgversion with | some v => !v.lt2 | none => false)
      ("<path" ++ "" ++ (match o.lineclass with | some c => if c.isEmpty then "" else " class=" ++ quoteattr c | none => ""))
      (if !o.drawTransparent then dictDel pyKey (accumulate pyKey lines) .none else accumulate pyKey lines) with
  | error e => simp [hp, Except.map]
  | ok ps => simp [hp, Except.map]

/-- `svg_draw_transparent`: without `draw_transparent` the entry of the colour `None` is deleted (`del coordinates[None]`)
    and nothing else — the modules whose type is mapped to `None` are not painted, all other paths stay -/
theorem svg_draw_transparent (d : List (Entry ColorArg)) (e : Entry ColorArg) :
    e ∈ dictDel pyKey d .none ↔ e ∈ d ∧ e.obj ≠ .none := by
  unfold dictDel
  rw [List.mem_filter]
  have : pyKey e.obj = pyKey .none ↔ e.obj = .none := by
    cases h : e.obj with
    | none => simp
    | str s => simp [pyKey]
    | ints l => simp [pyKey]
    | floatAlpha r g bb k =>
      simp only [pyKey]
      split <;> simp
  simp [this]

/-- `svg_two_tone_uniform` (completes `svg_colorful_picture` for the other branch): whenever the model of `write_svg` does
    NOT take the multicolour branch, all dark module types of the colour map carry one colour and all light ones
    (separator and quiet zone included) one colour (as Python values) — so painting the dark modules in the colour of the
    dark data modules and the page in the colour of the quiet zone, which is what the two-colour branch does (Props/C10),
    IS painting every module in the colour configured for its type -/
theorem svg_two_tone_uniform (cm : List (Nat × ColorArg)) (hm : isMulticolor cm = false)
    (t1 t2 : Nat) (c1 c2 : ColorArg) (h1 : cmGet cm t1 = some c1) (h2 : cmGet cm t2 = some c2)
    (hsame : (t1 >>> 8 != 0) = (t2 >>> 8 != 0)) : pyKey c1 = pyKey c2 := by
  unfold isMulticolor at hm
  simp only [Bool.or_eq_false_iff, Bool.not_eq_false'] at hm
  have htt := hm.2
  unfold Svg.isTwoTone at htt
  simp only [Bool.and_eq_true, beq_iff_eq] at htt
  have mem : ∀ t c, cmGet cm t = some c → (t, c) ∈ cm := by
    intro t c h
    unfold cmGet at h
    cases hf : cm.find? (fun x => x.1 == t) with
    | none => rw [hf] at h; cases h
    | some e =>
      rw [hf] at h
      simp only [Option.map_some, Option.some.injEq] at h
      have hm := List.mem_of_find?_eq_some hf
      have hp := List.find?_some hf
      simp only [beq_iff_eq] at hp
      have : e = (t, c) := by rw [← hp, ← h]
      rw [← this]; exact hm
  by_cases hd : (t1 >>> 8 != 0) = true
  · have hd2 : (t2 >>> 8 != 0) = true := by rw [← hsame]; exact hd
    apply distinct_one pyKey _ htt.1 c1 c2
    · exact List.mem_map.2 ⟨(t1, c1), List.mem_filter.2 ⟨mem _ _ h1, hd⟩, rfl⟩
    · exact List.mem_map.2 ⟨(t2, c2), List.mem_filter.2 ⟨mem _ _ h2, hd2⟩, rfl⟩
  · have hd2 : ¬ (t2 >>> 8 != 0) = true := by rw [← hsame]; exact hd
    apply distinct_one pyKey _ htt.2 c1 c2
    · exact List.mem_map.2 ⟨(t1, c1), List.mem_filter.2 ⟨mem _ _ h1, by simpa using hd⟩, rfl⟩
    · exact List.mem_map.2 ⟨(t2, c2), List.mem_filter.2 ⟨mem _ _ h2, by simpa using hd2⟩, rfl⟩

/-- Python's `==` on colour values, as far as `ColorArg` expresses them: `(r, g, b, 1.0) == (r, g, b, 1)` -/
example : pyKey (.floatAlpha 1 2 3 1000) = pyKey (.ints [1, 2, 3, 1]) := by decide
example : pyKey (.floatAlpha 1 2 3 500) ≠ pyKey (.ints [1, 2, 3, 0]) := by decide
example : isMulticolor [(Gen.TYPE_DATA_DARK, .str "#000"), (Gen.TYPE_QUIET_ZONE, .none)] = false := by decide
example : isMulticolor [(Gen.TYPE_DATA_DARK, .str "#000"), (Gen.TYPE_FINDER_PATTERN_DARK, .str "black"), (Gen.TYPE_QUIET_ZONE, .none)] = true := by decide

end Props.C11Svg
