/-
  C11 — per-type colouring: the module type → colour map of `writers._make_colormap`.
  Property theorems only (helpers: Proofs/Colormap.lean).  `Model.makeColormap` is the hand-written model of `_make_colormap` (tied to
  the real code by the PNG / PPM correspondence of `./check C11` and `./check C09`, where the map decides
  palette, bit depth and every colour index), `Spec.typeCode` / `Spec.Kind` / `Spec.kind` the ISO
  regions and their public type codes.
-/
import Proofs.Colormap

namespace Props.C11Colormap

open Model Spec Proofs.Colormap

/-- `colormap_fallback` (every assignment of the 15 options and dark / light, every matrix size,
    any colour type): the map gives the type code of region `k` in the variant of the module value
    `val` the colour configured for it if one is given, else the dark resp. light colour — and has no
    entry exactly when the size class lacks the region -/
theorem colormap_fallback {α : Type} (w h : Nat) (dark light : α) (o : TypeOpts α) (k : Kind) (val : Nat) :
    cmGet (makeColormap w h dark light o) (typeCode k val) =
      if lacks w h k then none
      else some ((optionFor o k val).getD (if isDarkType (typeCode k val) then dark else light)) := by
  rw [makeColormap_eq]
  generalize hlv : lacks w h .version = lv
  generalize hla : lacks w h .alignment = la
  generalize hld : lacks w h .darkmodule = ld
  have l1 : lacks w h .finder = false := rfl
  have l2 : lacks w h .separator = false := rfl
  have l3 : lacks w h .timing = false := rfl
  have l4 : lacks w h .format = false := rfl
  have l5 : lacks w h .data = false := rfl
  by_cases hv : val = 0 <;> cases k <;> cases lv <;> cases la <;> cases ld <;>
    simp [cmGet, optionFor, typeCode, typeQuietZone, isDarkType, hv, hlv, hla, hld, l1, l2, l3, l4, l5]

/-- the quiet zone (type 18): the colour configured for it, else the light colour; never dropped -/
theorem colormap_quiet_zone {α : Type} (w h : Nat) (dark light : α) (o : TypeOpts α) :
    cmGet (makeColormap w h dark light o) typeQuietZone = some (o.quiet_zone.getD light) := by
  rw [makeColormap_eq]
  cases lacks w h .version <;> cases lacks w h .alignment <;> cases lacks w h .darkmodule <;>
    simp [cmGet, typeCode, typeQuietZone]

/-- the map has no other keys: every key is the quiet zone or the type code of a region the size
    class has -/
theorem colormap_keys {α : Type} (w h : Nat) (dark light : α) (o : TypeOpts α) (e : Nat × α)
    (he : e ∈ makeColormap w h dark light o) :
    e.1 = typeQuietZone ∨ ∃ k val, e.1 = typeCode k val ∧ lacks w h k = false := by
  rw [makeColormap_eq] at he
  cases hlv : lacks w h .version <;> cases hla : lacks w h .alignment <;> cases hld : lacks w h .darkmodule <;>
    simp only [hlv, hla, hld, if_true, if_false, Bool.false_eq_true, List.mem_append, List.mem_cons, List.not_mem_nil, or_false, or_assoc] at he <;>
    (repeat' (first | (rcases he with he' | he; subst he') | subst he)) <;>
    dsimp only <;>
    first
    | (left; rfl)
    | (right; refine ⟨_, _, rfl, ?_⟩; first | rfl | assumption)

/-- `dropped_keys_unused` (all 44 versions, every module): the region ISO assigns to a module of a
    version `v` symbol is never one whose key `_make_colormap` drops for the symbol's size — the colour
    look-up of a module of the right type cannot fail -/
theorem dropped_keys_unused (v : Int) (h1 : -3 ≤ v) (h2 : v ≤ 40) (i j : Nat) :
    lacks (size v) (size v) (kind v i j) = false := by
  unfold kind
  by_cases hm : isMicro v = true
  · simp only [hm, if_true]
    repeat' split
    all_goals rfl
  · have hv : 1 ≤ v := by unfold isMicro at hm; simp at hm; omega
    have hs : size v = (17 + 4 * v).toNat := by unfold size; simp [show v > 0 by omega]
    simp only [hm]
    repeat' split
    all_goals simp_all [lacks]
    all_goals omega

/-- the version keys are dropped EXACTLY for the sizes without version information (below version 7) -/
theorem version_key_exact (v : Int) (h1 : -3 ≤ v) (h2 : v ≤ 40) :
    lacks (size v) (size v) .version = false ↔ ∃ i j, i < size v ∧ j < size v ∧ kind v i j = .version := by
  constructor
  · intro h
    have hs : 45 ≤ size v := by simpa [lacks] using h
    have hv : 7 ≤ v := size_ge v h1 45 7 (by decide) (by decide) hs
    have hw := version_witness_all
    rw [List.all_eq_true] at hw
    have hk := hw (v - 7).toNat (List.mem_range.2 (by omega))
    have e : (((v - 7).toNat : Nat) : Int) + 7 = v := by omega
    rw [e] at hk
    exact ⟨0, size v - 11, by omega, by omega, by simpa using hk⟩
  · rintro ⟨i, j, _, _, hk⟩
    have := dropped_keys_unused v h1 h2 i j
    rwa [hk] at this

/-- the dark module key is dropped EXACTLY for the sizes without dark module (Micro QR Codes) -/
theorem darkmodule_key_exact (v : Int) (h1 : -3 ≤ v) (h2 : v ≤ 40) :
    lacks (size v) (size v) .darkmodule = false ↔ ∃ i j, i < size v ∧ j < size v ∧ kind v i j = .darkmodule := by
  constructor
  · intro h
    have hs : 21 ≤ size v := by simpa [lacks] using h
    have hv : 1 ≤ v := size_ge v h1 21 1 (by decide) (by decide) hs
    have hw := darkmodule_witness_all
    rw [List.all_eq_true] at hw
    have hk := hw (v - 1).toNat (List.mem_range.2 (by omega))
    have e : (((v - 1).toNat : Nat) : Int) + 1 = v := by omega
    rw [e] at hk
    exact ⟨size v - 8, 8, by omega, by omega, by simpa using hk⟩
  · rintro ⟨i, j, _, _, hk⟩
    have := dropped_keys_unused v h1 h2 i j
    rwa [hk] at this

/-- the alignment keys are dropped exactly for Micro QR Codes; they are kept for version 1, the one
    QR Code version without alignment pattern (an unused entry: every symbol of version ≥ 2 has one) -/
theorem alignment_key (v : Int) (h1 : -3 ≤ v) (h2 : v ≤ 40) :
    (lacks (size v) (size v) .alignment = false ↔ 1 ≤ v)
    ∧ ((∃ i j, i < size v ∧ j < size v ∧ kind v i j = .alignment) → lacks (size v) (size v) .alignment = false)
    ∧ (2 ≤ v → ∃ i j, i < size v ∧ j < size v ∧ kind v i j = .alignment) := by
  refine ⟨?_, ?_, ?_⟩
  · constructor
    · intro h
      have hs : 21 ≤ size v := by simpa [lacks] using h
      exact size_ge v h1 21 1 (by decide) (by decide) hs
    · intro hv
      have : size v = (17 + 4 * v).toNat := by unfold size; simp [show v > 0 by omega]
      simp [lacks]; omega
  · rintro ⟨i, j, _, _, hk⟩
    have := dropped_keys_unused v h1 h2 i j
    rwa [hk] at this
  · intro hv
    have hs : size v = (17 + 4 * v).toNat := by unfold size; simp [show v > 0 by omega]
    have hw := alignment_witness_all
    rw [List.all_eq_true] at hw
    have hk := hw (v - 2).toNat (List.mem_range.2 (by omega))
    have e : (((v - 2).toNat : Nat) : Int) + 2 = v := by omega
    rw [e] at hk
    exact ⟨size v - 7, size v - 7, by omega, by omega, by simpa using hk⟩

/-! non-vacuity -/
example : cmGet (makeColormap 21 21 "black" "white" { finder_dark := some "red" }) (typeCode .finder 1) = some "red" := by decide
example : cmGet (makeColormap 21 21 "black" "white" { finder_dark := some "red" }) (typeCode .data 1) = some "black" := by decide
example : cmGet (makeColormap 21 21 "black" "white" { version_dark := some "red" }) (typeCode .version 1) = none := by decide
example : cmGet (makeColormap 45 45 "black" "white" { version_dark := some "red" }) (typeCode .version 1) = some "red" := by decide
example : lacks (size (-2)) (size (-2)) .alignment = true := by decide
example : kind 7 0 34 = .version := by decide

end Props.C11Colormap
