/-
  C01 (part 2) — stream level: the reference parser applied to the data bit stream the model builds
  (mode indicator, character count indicator, optional ECI header, payload, ISO tail) recovers
  exactly the segments.  Property theorems only; helper lemmas live in Proofs/StreamParse.lean.
-/
import Spec.Decode
import Spec.Sizing
import Model.Encoder
import Props.C01
import Props.C04
import Props.C13
import Proofs.StreamParse

namespace Props.C01

/-- what the reference reader should report for a model segment -/
def expectedSegment (eciNum : Option Nat) (s : Model.Segment) (data : List Nat) : Spec.Segment :=
  { mode := s.mode, eci := eciNum, count := s.charCount, bytes := data }

/-- **single segment, no ECI**: header ++ payload ++ ISO tail parses back to exactly that segment,
    and the parser stops exactly where the segment ends (so nothing in the tail can be taken for a
    further segment — the last clause of C13) -/
theorem stream_roundtrip_single (data : List Nat) (mode : Option Nat) (enc : String) (s : Model.Segment)
    (v : Int) (cap : Nat) (bits : List Nat) (f : String → Option Nat)
    (h1 : -3 ≤ v) (h2 : v ≤ 40) (hc : Props.C13.CapOf v cap) (hd : ∀ b ∈ data, b < 256) (hne : data ≠ [])
    (hm : mode ∈ [none, some 1, some 2, some 4, some 8, some 13])
    (hs : Model.makeSegment data mode enc = .ok s)
    (hw : Model.writeSegment s v false f = .ok bits) (hfit : bits.length ≤ cap)
    (hcount : ∀ w, Spec.cciBits s.mode v = some w → s.charCount < 2 ^ w) :
    Spec.parseStream v (bits ++ Spec.isoTail v cap bits.length)
      = .ok { sa := none, segments := [expectedSegment none s data], endPos := bits.length } := by
  obtain ⟨e, hc⟩ := hc
  exact Proofs.StreamParse.single_tail data mode enc s v bits _ f h1 h2 hd hne hm hs hw hcount
    (Proofs.StreamParse.isoTail_stop v cap bits.length e hc hfit)

/-- the same for the deviation D1 of the pinned code (one extra zero codeword before the pads) -/
theorem stream_roundtrip_single_d1 (data : List Nat) (mode : Option Nat) (enc : String) (s : Model.Segment)
    (v : Int) (cap : Nat) (bits : List Nat) (f : String → Option Nat)
    (h1 : -3 ≤ v) (h2 : v ≤ 40) (hc : Props.C13.CapOf v cap) (hd : ∀ b ∈ data, b < 256) (hne : data ≠ [])
    (hm : mode ∈ [none, some 1, some 2, some 4, some 8, some 13])
    (hs : Model.makeSegment data mode enc = .ok s)
    (hw : Model.writeSegment s v false f = .ok bits) (hfit : bits.length ≤ cap)
    (hcount : ∀ w, Spec.cciBits s.mode v = some w → s.charCount < 2 ^ w) :
    Spec.parseStream v (bits ++ Spec.d1Tail v cap bits.length)
      = .ok { sa := none, segments := [expectedSegment none s data], endPos := bits.length } := by
  obtain ⟨e, hc⟩ := hc
  exact Proofs.StreamParse.single_tail data mode enc s v bits _ f h1 h2 hd hne hm hs hw hcount
    (Proofs.StreamParse.d1Tail_stop v cap bits.length e hc hfit)

/-- **with ECI** (QR only): a byte segment in a non-default encoding is preceded by the ECI header
    with the assignment number of its codec, and the reader reports that number -/
theorem stream_roundtrip_single_eci (data : List Nat) (enc : String) (s : Model.Segment)
    (v : Int) (cap n : Nat) (bits : List Nat) (f : String → Option Nat)
    (h1 : 1 ≤ v) (h2 : v ≤ 40) (hc : Props.C13.CapOf v cap) (hd : ∀ b ∈ data, b < 256) (hne : data ≠ [])
    (hs : Model.makeSegment data (some 4) enc = .ok s) (henc : enc ≠ "iso-8859-1")
    (hf : f enc = some n) (hn : n < 128)
    (hw : Model.writeSegment s v true f = .ok bits) (hfit : bits.length ≤ cap)
    (hcount : ∀ w, Spec.cciBits s.mode v = some w → s.charCount < 2 ^ w) :
    Spec.parseStream v (bits ++ Spec.isoTail v cap bits.length)
      = .ok { sa := none, segments := [expectedSegment (some n) s data], endPos := bits.length } := by
  obtain ⟨e, hc⟩ := hc
  exact Proofs.StreamParse.single_tail_eci data enc s v n bits _ f h1 h2 hd hne hs henc hf hn hw hcount
    (Proofs.StreamParse.isoTail_stop v cap bits.length e hc hfit)

/-! ### several segments (bonus) -/

/-- the ECI designator `write_segment` emits in front of a segment (`none`: no ECI header) -/
def eciDesignator (s : Model.Segment) (eci : Bool) (f : String → Option Nat) : Option Nat :=
  if eci && s.mode == Gen.MODE_BYTE && s.encoding != some Gen.DEFAULT_BYTE_ENCODING then
    f (s.encoding.getD "")
  else none

/-- **any number of segments** (each one a direct result of `make_segment`, written one after the other as
    `_encode` does: `segs.mapM write_segment`, concatenated), with or without ECI headers, followed by
    the ISO tail: the reference parser returns exactly these segments, in order, each with its ECI
    designator, and stops exactly at the end of the last one. -/
theorem stream_roundtrip_list (items : List (List Nat × Model.Segment)) (v : Int) (cap : Nat) (eci : Bool)
    (f : String → Option Nat) (segBits : List (List Nat))
    (h1 : -3 ≤ v) (h2 : v ≤ 40) (hc : Props.C13.CapOf v cap) (hev : eci = true → 1 ≤ v)
    (hd : ∀ x ∈ items, (∀ b ∈ x.1, b < 256) ∧ x.1 ≠ [])
    (hs : ∀ x ∈ items, ∃ mode enc, mode ∈ [none, some 1, some 2, some 4, some 8, some 13] ∧
      Model.makeSegment x.1 mode enc = .ok x.2)
    (hw : (items.map (·.2)).mapM (fun s => Model.writeSegment s v eci f) = .ok segBits)
    (hfit : segBits.flatten.length ≤ cap)
    (hcount : ∀ x ∈ items, ∀ w, Spec.cciBits x.2.mode v = some w → x.2.charCount < 2 ^ w)
    (hn : ∀ x ∈ items, ∀ n, eciDesignator x.2 eci f = some n → n < 128) :
    Spec.parseStream v (segBits.flatten ++ Spec.isoTail v cap segBits.flatten.length)
      = .ok { sa := none,
              segments := items.map (fun x => expectedSegment (eciDesignator x.2 eci f) x.2 x.1),
              endPos := segBits.flatten.length } := by
  obtain ⟨e, hc⟩ := hc
  exact Proofs.StreamParse.list_tail v eci f items segBits _ h1 h2 hev
    (fun x hx => ⟨(hd x hx).1, (hd x hx).2, hs x hx, hcount x hx, hn x hx⟩) hw
    (Proofs.StreamParse.isoTail_stop v cap _ e hc hfit)

/-- the same with the D1 tail of the pinned code -/
theorem stream_roundtrip_list_d1 (items : List (List Nat × Model.Segment)) (v : Int) (cap : Nat) (eci : Bool)
    (f : String → Option Nat) (segBits : List (List Nat))
    (h1 : -3 ≤ v) (h2 : v ≤ 40) (hc : Props.C13.CapOf v cap) (hev : eci = true → 1 ≤ v)
    (hd : ∀ x ∈ items, (∀ b ∈ x.1, b < 256) ∧ x.1 ≠ [])
    (hs : ∀ x ∈ items, ∃ mode enc, mode ∈ [none, some 1, some 2, some 4, some 8, some 13] ∧
      Model.makeSegment x.1 mode enc = .ok x.2)
    (hw : (items.map (·.2)).mapM (fun s => Model.writeSegment s v eci f) = .ok segBits)
    (hfit : segBits.flatten.length ≤ cap)
    (hcount : ∀ x ∈ items, ∀ w, Spec.cciBits x.2.mode v = some w → x.2.charCount < 2 ^ w)
    (hn : ∀ x ∈ items, ∀ n, eciDesignator x.2 eci f = some n → n < 128) :
    Spec.parseStream v (segBits.flatten ++ Spec.d1Tail v cap segBits.flatten.length)
      = .ok { sa := none,
              segments := items.map (fun x => expectedSegment (eciDesignator x.2 eci f) x.2 x.1),
              endPos := segBits.flatten.length } := by
  obtain ⟨e, hc⟩ := hc
  exact Proofs.StreamParse.list_tail v eci f items segBits _ h1 h2 hev
    (fun x hx => ⟨(hd x hx).1, (hd x hx).2, hs x hx, hcount x hx, hn x hx⟩) hw
    (Proofs.StreamParse.d1Tail_stop v cap _ e hc hfit)

end Props.C01

#print axioms Props.C01.stream_roundtrip_single
#print axioms Props.C01.stream_roundtrip_single_d1
#print axioms Props.C01.stream_roundtrip_single_eci
#print axioms Props.C01.stream_roundtrip_list
#print axioms Props.C01.stream_roundtrip_list_d1
