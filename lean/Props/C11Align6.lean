/-
  C11, alignment tie per version (kernel-evaluated, see Proofs/Align.lean `alignCheck`): the matrix that
  `add_alignment_patterns` fills (Model.alignmentMatrix?, table `consts.ALIGNMENT_POS` regenerated in Gen/Align.lean)
  is 2 outside the Annex E blocks, 0 / 1 inside, and the blocks lie in the ISO alignment region.
-/
import Proofs.Align

namespace Props.C11Align

open Proofs.Align

theorem align_v5 : alignCheck (5) = true := by decide +kernel
theorem align_v11 : alignCheck (11) = true := by decide +kernel
theorem align_v22 : alignCheck (22) = true := by decide +kernel
theorem align_v30 : alignCheck (30) = true := by decide +kernel
theorem align_v35 : alignCheck (35) = true := by decide +kernel

end Props.C11Align
