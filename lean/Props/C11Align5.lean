/-
  C11, alignment tie per version (kernel-evaluated, see Proofs/Align.lean `alignCheck`): the matrix that
  `add_alignment_patterns` fills (Model.alignmentMatrix?, table `consts.ALIGNMENT_POS` regenerated in Gen/Align.lean)
  is 2 outside the Annex E blocks, 0 / 1 inside, and the blocks lie in the ISO alignment region.
-/
import Proofs.Align

namespace Props.C11Align

open Proofs.Align

theorem align_v7 : alignCheck (7) = true := by decide +kernel
theorem align_v12 : alignCheck (12) = true := by decide +kernel
theorem align_v21 : alignCheck (21) = true := by decide +kernel
theorem align_v29 : alignCheck (29) = true := by decide +kernel
theorem align_v36 : alignCheck (36) = true := by decide +kernel

end Props.C11Align
