/-
  C03 (part 1) — the tables the Reed-Solomon encoder computes with are the ISO ones.
  `Gen.*` = regenerated from segno/consts.py on every run.
-/
import Spec.GF
import Spec.Tables
import Spec.Decode
import Gen.Tables

namespace Props.C03

/-- powers of α: 1, α, α², … (n entries) -/
def alphaPowers : Nat → Nat → List Nat
  | 0, _ => []
  | n + 1, a => a :: alphaPowers n (Spec.xtime a)

/-- `GALIOS_EXP` (510 entries) is α⁰, α¹, …, α⁵⁰⁹ in GF(2⁸)/0x11d -/
theorem exp_table_is_alpha_powers : Gen.GALIOS_EXP = alphaPowers 510 1 := by decide +kernel

/-- `GALIOS_LOG` inverts it on 1..255, with logarithms < 255 -/
theorem log_table_is_inverse :
    (List.range 255).all (fun k => let a := k + 1
      Gen.GALIOS_LOG.getD a 999 < 255 && Gen.GALIOS_EXP.getD (Gen.GALIOS_LOG.getD a 999) 0 == a) = true
    ∧ Gen.GALIOS_LOG.length = 256 := by decide +kernel

/-- every generator polynomial of `GEN_POLY` (stored as logarithms, leading coefficient omitted) is
    ∏_{i<n} (x − αⁱ) -/
theorem gen_poly_is_product_of_roots :
    Gen.GEN_POLY.all (fun (n, g) => g.map (fun l => Gen.GALIOS_EXP.getD l 0) == (Spec.genPoly n).tail
      && g.all (· < 255) && g.length == n) = true := by decide +kernel

/-- every EC length occurring in Table 9 has a generator polynomial -/
theorem gen_poly_covers_table9 :
    Gen.ECC.all (fun e => e.2.2.all (fun b => (Gen.GEN_POLY.find? (·.1 == b.2.1 - b.2.2)).isSome)) = true := by
  decide +kernel

/-- Table 9 as segno holds it = frozen ISO copy -/
theorem ecc_table_is_iso : Gen.ECC = Spec.eccTable := by decide +kernel

/-- Table 7 as segno holds it = frozen ISO copy -/
theorem capacity_table_is_iso : Gen.SYMBOL_CAPACITY = Spec.capacityTable := by decide +kernel

/-- Table 7 is derived from Table 9: capacity = 8 · Σ data codewords (− 4 bits in M1/M3) -/
theorem capacity_is_8_times_data :
    Spec.eccTable.all (fun e =>
      Spec.capacityOf e.1 e.2.1 ==
        some (8 * (e.2.2.map (fun b => b.1 * b.2.2)).foldl (· + ·) 0 - (if Spec.fourBitFinal e.1 then 4 else 0))) = true
    ∧ Spec.eccTable.length = Spec.capacityTable.length := by decide +kernel

/-- structure of Table 9: at most two groups, the second has one more data codeword and the same
    number of EC codewords; every block has at most 255 codewords and at least 2 EC codewords -/
theorem table9_group_structure :
    Spec.eccTable.all (fun e =>
      match e.2.2 with
      | [(c, t, d)] => c ≥ 1 && d < t && t ≤ 255 && t - d ≥ 2
      | [(c1, t1, d1), (c2, t2, d2)] =>
          c1 ≥ 1 && c2 ≥ 1 && d1 < t1 && t2 ≤ 255 && d2 == d1 + 1 && t2 == t1 + 1 && t1 - d1 ≥ 2
      | _ => false) = true := by decide +kernel

/-- all levels of one version have the same total number of codewords -/
theorem table9_total_constant_per_version :
    Spec.eccTable.all (fun e => Spec.eccTable.all (fun f =>
      e.1 != f.1 || (e.2.2.map (fun b => b.1 * b.2.1)).foldl (· + ·) 0
                 == (f.2.2.map (fun b => b.1 * b.2.1)).foldl (· + ·) 0)) = true := by decide +kernel

end Props.C03
