-- placeholder, theorems follow
import Spec.Decode
namespace Props.C01
theorem placeholder : True := trivial
end Props.C01
