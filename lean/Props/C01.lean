/-
  C01 — every symbol decodes back to exactly the content that was given (segment level).
  Property theorems only; helper lemmas live in Proofs/Roundtrip.lean.
  `Spec.parseChars` is the reference reader of one segment's characters, `Model.makeSegment` the
  encoder's bit packing.  (The layers below — placement, masking, interleaving, RS — are C02/C03/C06.)
-/
import Spec.Decode
import Spec.Sizing
import Model.Encoder
import Proofs.Roundtrip

namespace Props.C01

/-- MSB-first bit fields read back: `bitsToNat (appendBits v w) = v` for v < 2^w -/
theorem bits_roundtrip (v w : Nat) (h : v < 2 ^ w) : Spec.bitsToNat (Model.appendBits v w) = v := by
  exact Proofs.Roundtrip.bits_roundtrip w v h

theorem appendBits_length (v w : Nat) : (Model.appendBits v w).length = w := by
  exact Proofs.Roundtrip.appendBits_length v w

/-- reading a field of w bits at position |pre| of pre ++ appendBits v w ++ post -/
theorem takeBits_appendBits (pre post : List Nat) (v w : Nat) (h : v < 2 ^ w) :
    Spec.takeBits (pre ++ Model.appendBits v w ++ post) pre.length w = some (v, pre.length + w) := by
  exact Proofs.Roundtrip.takeBits_appendBits pre post v w h

/-- **segment round trip**: for every byte string and every mode in which `make_segment` accepts it,
    the reference reader applied to the emitted bits (embedded anywhere in a stream) returns exactly
    the original bytes and stops exactly at the end of the segment.
    Numeric: groups of 10/7/4 bits; alphanumeric: 11/6 bits; byte: 8; kanji / hanzi: 13 bits with the
    ISO offset arithmetic — injective only because trail bytes are validated. -/
theorem segment_roundtrip (data : List Nat) (mode : Option Nat) (enc : String) (s : Model.Segment)
    (pre post : List Nat) (hd : ∀ b ∈ data, b < 256)
    (hm : mode ∈ [none, some 1, some 2, some 4, some 8, some 13])
    (h : Model.makeSegment data mode enc = .ok s) :
    Spec.parseChars (pre ++ s.bits ++ post) s.mode s.charCount pre.length []
      = .ok (data, pre.length + s.bits.length) := by
  exact Proofs.Roundtrip.segment_roundtrip data mode enc s pre post hd hm h

/-- **no counter overflow**: a segment whose bits fit the capacity of (v, level) has a character
    count that fits its character count indicator, so the count field cannot wrap -/
theorem count_fits_indicator :
    Spec.capacityTable.all (fun e => ([1, 2, 4, 8, 13] : List Nat).all (fun m =>
      match Spec.cciBits m e.1 with
      | none => true
      | some w =>
        -- the smallest count that does NOT fit the indicator needs more bits than the capacity
        Spec.modeBits e.1 + w + Spec.payloadBits m (2 ^ w) > e.2.2)) = true := by
  decide +kernel

/-- payload bits are monotone in the character count (so the check above covers all larger counts) -/
theorem payloadBits_mono (m a b : Nat) (h : a ≤ b) : Spec.payloadBits m a ≤ Spec.payloadBits m b := by
  exact Proofs.Roundtrip.payloadBits_mono m a b h

end Props.C01

#print axioms Props.C01.bits_roundtrip
#print axioms Props.C01.appendBits_length
#print axioms Props.C01.takeBits_appendBits
#print axioms Props.C01.segment_roundtrip
#print axioms Props.C01.count_fits_indicator
#print axioms Props.C01.payloadBits_mono
