/-
  C11, alignment tie per version (kernel-evaluated, see Proofs/Align.lean `alignCheck`): the matrix that
  `add_alignment_patterns` fills (Model.alignmentMatrix?, table `consts.ALIGNMENT_POS` regenerated in Gen/Align.lean)
  is 2 outside the Annex E blocks, 0 / 1 inside, and the blocks lie in the ISO alignment region.
-/
import Proofs.Align

namespace Props.C11Align

open Proofs.Align

theorem align_v0 : alignCheck (0) = true := by decide +kernel
theorem align_v1 : alignCheck (1) = true := by decide +kernel
theorem align_v9 : alignCheck (9) = true := by decide +kernel
theorem align_v24 : alignCheck (24) = true := by decide +kernel
theorem align_v32 : alignCheck (32) = true := by decide +kernel
theorem align_v33 : alignCheck (33) = true := by decide +kernel

end Props.C11Align
