/-
  C14 — the ROUTE layer and the COMMAND LINE TOOL: documented arguments never produce anything but the result, ValueError, or an
  error of the codec service.  Property theorems only (helpers: Proofs/C14Route.lean, Proofs/C14Cli.lean, vocabulary:
  Proofs/C14RouteDefs.lean).

  The objects: `Model.Routes` (Model/Routes.lean: `save`, `svgInline`, `svgDataUri`, `pngDataUri`, `terminal`, `seqSave`, `cliMain`
  — tied to the real code by `./check C12`: plan, keyword maps, targets and results of every route) over the complete serialiser
  environment `Model.RoutesVec.fullEnv` (`docEnv` with the document models of all thirteen serialisers, Props/C14Serializers.lean).

  How a route may end (`RouteClean`): with its result; with ValueError (a refusal: unknown kind / extension, a malformed option,
  gzip refusing the compression level); with UnicodeError — a ValueError — or LookupError when the codec service cannot encode the
  document / does not know the `encoding` (`RuntimeOK`: that is all a codec may do; with a codec that knows its encodings
  (`CodecKnows`) LookupError is excluded too).  NEVER with TypeError (incl. AttributeError), IndexError, KeyError, AssertionError.

  The TypeErrors that remain are Python's own, raised by the keyword binding before any code of segno runs — stated exactly:
    * a keyword that is not a parameter of the serialiser (`route_unknown_keyword`, `keyword_binding_exact`),
    * a keyword that names a parameter of `QRCode.save` / `writers.save` itself (`save_reserved_keyword`),
  and the documented misuses: a stream without `name` and without `kind` (AttributeError), a text serialiser on a binary stream or
  the reverse (`SinkOK`), `svg_inline` with one of the three keywords it sets itself.
-/
import Proofs.C14Route
import Proofs.C14Cli
import Props.C14NoCrash
import Props.C12Routes

namespace Props.C14Routes

open Gen (PyV)
open Model Model.Cli Model.Routes Model.RoutesDocs Model.RoutesVec Model.Args
open Proofs.C14Ser Proofs.C14Route Proofs.Routes Proofs.Png

/-- what `RouteClean` excludes: every crash class of the models' error type -/
theorem clean_never_crashes {α : Type} (r : R α) (hc : RouteClean r) (e : PyErr) (he : r = .error e) :
    e ≠ .typeError ∧ e ≠ .indexError ∧ e ≠ .keyError ∧ e ≠ .assertionError ∧ e ≠ .dataOverflow := by
  rcases hc with ⟨x, hx⟩ | hx | hx | hx <;> rw [hx] at he <;> cases he <;> simp

section
variable (svc : Services) (vs : VecServices) (rt : Runtime) (M : List (List Nat)) (w h : Nat) (rest : String → Config → R SerOut)

/-- **`route_no_crash`** (every symbol-shaped matrix, all services that keep their contract): on documented arguments
    `QRCode.save` (file name / named stream / `kind`; every kind incl. svgz), `svg_inline`, `svg_data_uri`, `png_data_uri` and
    `QRCode.terminal` end with their result, with ValueError, or with UnicodeError / LookupError of the codec service -/
theorem route_no_crash (hs : SymbolShaped M w h) (hset : SetOrderOK svc.setOrder) (hrt : RuntimeOK rt) :
    (∀ out kind kw, DocumentedSave svc M w h out kind kw → RouteClean (save (fullEnv svc vs rt M w h rest) out kind kw))
    ∧ (∀ kw, DocumentedInline kw → RouteClean (svgInline (fullEnv svc vs rt M w h rest) kw))
    ∧ (∀ kw, DocumentedSvgUri kw → RouteClean (svgDataUri (fullEnv svc vs rt M w h rest) kw))
    ∧ (∀ kw, DocumentedSer "png" kw → PngFits svc M w h kw → RouteClean (pngDataUri (fullEnv svc vs rt M w h rest) kw))
    ∧ (∀ out border compact, DocumentedTerminal out border → RouteClean (terminal (fullEnv svc vs rt M w h rest) out border compact)) :=
  ⟨fun out kind kw hd => save_clean svc vs rt M w h rest hs hset hrt out kind kw hd,
   fun kw hd => svgInline_clean svc vs rt M w h rest hs hset hrt kw hd,
   fun kw hd => svgDataUri_clean svc vs rt M w h rest hs hset hrt kw hd,
   fun kw hd hf => pngDataUri_clean svc vs rt M w h rest hs hset hrt kw hd hf,
   fun out border compact hd => terminal_clean svc vs rt M w h rest hs hset hrt out border compact hd⟩

/-- the plan level, for every route at once: a plan whose serialiser call is documented, whose target suits the serialiser and
    whose post-processing has a buffer and a str encoding executes cleanly; with a codec that knows its encodings not even
    LookupError is left -/
theorem plan_no_crash (hs : SymbolShaped M w h) (hset : SetOrderOK svc.setOrder) (hrt : RuntimeOK rt) (p : Plan)
    (hdoc : DocumentedSer p.key p.kw) (hfit : p.key = "png" → PngFits svc M w h p.kw) (ht : TargetOK p) (hp : PostOK p) :
    RouteClean (execute (fullEnv svc vs rt M w h rest) p)
    ∧ (CodecKnows rt → execute (fullEnv svc vs rt M w h rest) p ≠ .error .lookupError) :=
  ⟨execute_clean svc vs rt M w h rest hs hset hrt p hdoc hfit ht hp,
   fun hk => execute_clean_known svc vs rt M w h rest hs hset hrt hk p hdoc hfit ht hp⟩

end

/-- `QRCodeSequence.save`: if saving every symbol to its n-th name is clean (`route_no_crash` for each symbol of the sequence),
    so is the whole loop -/
theorem sequence_save_no_crash (envs : List Env) (out : OutArg) (kind : Option Str) (kw : Config)
    (hall : ∀ env ∈ envs, ∀ n, RouteClean (save env (seqOut out envs.length n) kind kw)) :
    RouteClean (seqSave envs out kind kw) :=
  seqSave_clean envs out kind kw hall

/-! ### the TypeErrors Python itself raises -/

/-- **unknown keyword**: a keyword that is not an option of the serialiser makes the serialiser call end in TypeError
    ("got an unexpected keyword argument"), whatever the environment -/
theorem route_unknown_keyword (env : Env) (key : String) (kw : Config) (hk : key ∈ kinds)
    (hu : ∃ e ∈ kw, ∀ p ∈ optTypes key, p.1 ≠ e.1) : env.ser key kw = .error .typeError :=
  ser_unknown_keyword env key kw hk hu

/-- exactly: the keyword binding of a serialiser call fails — with TypeError — iff some keyword is not an option of the serialiser -/
theorem keyword_binding_exact (key : String) (kw : Config) (hk : key ∈ kinds) :
    completeKw key kw = .error .typeError ↔ ∃ e ∈ kw, ∀ p ∈ optTypes key, p.1 ≠ e.1 :=
  completeKw_typeError_iff key kw hk

/-- a keyword that names a parameter of `QRCode.save` / `writers.save` (`self`, `out`, `kind`, `matrix`, `matrix_size`):
    "got multiple values for argument" -/
theorem save_reserved_keyword (env : Env) (out : OutArg) (kind : Option Str) (kw : Config) (h : ¬ Free saveReserved kw) :
    save env out kind kw = .error .typeError :=
  save_refused env out kind kw h

/-! ### the command line tool -/

section cli
variable (svc : Services) (vs : VecServices) (rt : Runtime) (M : List (List Nat)) (w h : Nat) (rest : String → Config → R SerOut)

/-- `DocumentedSer` only shrinks with the keyword map -/
theorem documented_cpop (key : String) (kw : Config) (k : String) (hd : DocumentedSer key kw) : DocumentedSer key (cpop kw k) :=
  ⟨hd.1, fun e he => hd.2 e (List.mem_filter.1 he).1⟩

/-- `build_config` never hands over a keyword that names a parameter of `QRCode.save` / `writers.save` itself: no list of
    `_EXT_TO_KW_MAPPING` contains one (kernel check of the regenerated table) and nothing else is passed (`Props.C12.kwargs_supported`) -/
theorem cli_kwargs_free (parsed : Config) (out : Str) : Free saveReserved (cliKwargs Gen.EXT_TO_KW_MAPPING parsed out) := by
  intro k hk
  cases hc : cget (cliKwargs Gen.EXT_TO_KW_MAPPING parsed out) k with
  | none => rfl
  | some v =>
    exfalso
    have hs := Props.C12.kwargs_supported Gen.EXT_TO_KW_MAPPING (mainConfig parsed) out (k, v) (cget_mem hc)
    have htab : ∀ row ∈ Gen.EXT_TO_KW_MAPPING, ∀ k ∈ row.2, k ∉ saveReserved := by decide +kernel
    unfold supportedKeywords at hs
    cases hf : Gen.EXT_TO_KW_MAPPING.find? (·.1 == configExt out) with
    | none => simp [hf] at hs
    | some row =>
      simp only [hf, Option.map_some, Option.getD_some, List.contains_eq_mem, decide_eq_true_eq] at hs
      exact htab row (List.mem_of_find?_eq_some hf) k hs hk

/-- **`cli_no_crash`, the serialisation stage** (`cli.main` after `make_code`): for every namespace the argparse table can produce
    (`ArgparseAccepted`: Gen.CLI_ARGS, Gen.CLI_ARG_TYPES — argparse itself is a runtime service), `main` ends by writing the output —
    the file `output`, or the terminal text on stdout — or with ValueError (a serialiser refusal: `--scale 0`, `--border -1`,
    `--dark "#12"`, an unknown extension) resp. an error of the codec service; `build_config` never hands over a keyword the
    serialiser does not know or a value of an undocumented type -/
theorem cli_no_crash (hs : SymbolShaped M w h) (hset : SetOrderOK svc.setOrder) (hrt : RuntimeOK rt) (parsed : Config)
    (hp : ArgparseAccepted parsed)
    (hfit : ∀ out, cget parsed "output" = some (.str out) → PngFits svc M w h (cliKwargs Gen.EXT_TO_KW_MAPPING parsed out.toList)) :
    RouteClean (cliMain (fullEnv svc vs rt M w h rest) Gen.EXT_TO_KW_MAPPING parsed)
    ∧ ∀ r, cliMain (fullEnv svc vs rt M w h rest) Gen.EXT_TO_KW_MAPPING parsed = .ok r → ∃ wr, r = .written wr := by
  obtain ⟨hout, b, hb⟩ := cli_output_cases parsed hp
  rcases hout with hnone | ⟨o, ho⟩
  · -- no output file: the terminal
    rw [Props.C12Routes.cli_main_eq_terminal _ _ _ b hnone hb]
    refine ⟨terminal_clean svc vs rt M w h rest hs hset hrt none b _ ⟨cli_border_typed parsed hp b hb, fun nm hx => by cases hx⟩, ?_⟩
    intro r hr
    exact execute_written (terminalPlan none b ((cget parsed "compact").getD (.bool false))) rfl r _ hr
  · rw [Props.C12Routes.cli_main_eq_save _ _ _ o ho]
    have hdoc : DocumentedSave svc M w h (.path o.toList) none (cliKwargs Gen.EXT_TO_KW_MAPPING parsed o.toList) := by
      refine ⟨fun _ b hx => (by cases hx), cli_kwargs_free parsed o.toList, ?_⟩
      intro key gz hd
      have hd' : dispatch validKeys o.toList false none = .ok (key, gz) := hd
      obtain ⟨h1, h2⟩ := cliKwargs_documented parsed hp o.toList key gz hd'
      refine ⟨?_, rfl, ?_, fun _ => hfit o ho⟩
      · cases gz with
        | false => simp only [Bool.false_eq_true, if_false]; exact h1
        | true => simp only [if_true]; exact documented_cpop key _ _ h1
      · intro _
        refine ⟨by simp [OutArg.sink], ?_⟩
        intro v hv
        rw [h2] at hv; cases hv
    refine ⟨save_clean svc vs rt M w h rest hs hset hrt _ none _ hdoc, ?_⟩
    intro r hr
    have hfree : Free saveReserved (cliKwargs Gen.EXT_TO_KW_MAPPING parsed o.toList) := cli_kwargs_free parsed o.toList
    unfold save at hr
    cases hpl : savePlan (.path o.toList) none (cliKwargs Gen.EXT_TO_KW_MAPPING parsed o.toList) with
    | error e => rw [hpl] at hr; cases hr
    | ok p =>
      rw [hpl] at hr
      have hpost : p.post = .nothing := by
        rw [savePlan_free _ _ _ hfree] at hpl
        cases hdd : dispatchOf (.path o.toList) none with
        | error e => rw [hdd] at hpl; cases hpl
        | ok kg =>
          rw [hdd] at hpl
          simp only [Except.map, Except.ok.injEq] at hpl
          rw [← hpl]
          unfold planOfKey
          split <;> rfl
      exact execute_written p hpost r _ hr

/-- how a run of `cli.main` ends -/
inductive CliEnd where
  /-- `return 0` after the output was written -/
  | exit0 (written : Written)
  /-- a refusal while the symbol is created: `sys.stderr.writelines([str(ex), …]); sys.exit(1)` -/
  | exit1Message
  /-- an exception leaves `main`: the interpreter prints the traceback, whose last line is the message, and exits with status 1 -/
  | escapes (e : PyErr)

/-- `main`: `make_code(config)` inside `try … except ValueError` (DataOverflowError and UnicodeError are ValueErrors), then the
    serialisation stage -/
def cliRun (make : R Outcome) (serialise : R Result) : CliEnd :=
  match make with
  | .error e => if e == .valueError || e == .dataOverflow || e == .unicodeError then .exit1Message else .escapes e
  | .ok _ =>
    match serialise with
    | .ok (.written wr) => .exit0 wr
    | .ok (.value _) => .escapes .assertionError      -- `main` never computes a value (excluded by `cli_no_crash`)
    | .error e => .escapes e

/-- **`cli_no_crash`** (the make stage by `Props.C14.no_crash`, the serialisation stage by the theorem above): for a documented
    call of the make family `c` (what `make_code` issues for the namespace) and a namespace argparse can produce, `cli.main` ends with
    exit status 0 AFTER the output was written, or with status 1 and the library's message — printed by `main` for a refusal of the
    make stage; as the last line of the traceback for a ValueError of a serialiser (`--scale 0`), a UnicodeError of the codec, or a
    LookupError for an unknown codec name (`--encoding` / `--svgencoding`).  No TypeError, IndexError, KeyError or AssertionError. -/
theorem cli_run_no_crash (hs : SymbolShaped M w h) (hset : SetOrderOK svc.setOrder) (hrt : RuntimeOK rt) (c : Call) (hc : Props.C14.Documented c)
    (parsed : Config) (hp : ArgparseAccepted parsed)
    (hfit : ∀ out, cget parsed "output" = some (.str out) → PngFits svc M w h (cliKwargs Gen.EXT_TO_KW_MAPPING parsed out.toList)) :
    match cliRun (api c) (cliMain (fullEnv svc vs rt M w h rest) Gen.EXT_TO_KW_MAPPING parsed) with
    | .exit0 _ => True
    | .exit1Message => ∃ e, api c = .error e ∧ (e = .valueError ∨ e = .dataOverflow ∨ e = .unicodeError)
    | .escapes e => e = .valueError ∨ e = .unicodeError ∨ e = .lookupError := by
  obtain ⟨hclean, hwr⟩ := cli_no_crash svc vs rt M w h rest hs hset hrt parsed hp hfit
  unfold cliRun
  cases ha : api c with
  | error e =>
    have hcr := Props.C14.no_crash c hc e ha
    cases e <;> simp_all [Props.C14.isCrash]
  | ok sym =>
    simp only
    cases hm : cliMain (fullEnv svc vs rt M w h rest) Gen.EXT_TO_KW_MAPPING parsed with
    | error e =>
      rw [hm] at hclean
      rcases hclean with ⟨x, hx⟩ | hx | hx | hx <;> cases hx <;> simp
    | ok r =>
      obtain ⟨wr, rfl⟩ := hwr r hm
      trivial

end cli

/-! ### non-vacuity: the hypotheses are satisfiable, the routes run (kernel evaluation through the keyword binding and the document models) -/

section examples
open Props.C14Ser

example : RuntimeOK exRt :=
  ⟨fun _ s => Or.inl ⟨_, rfl⟩, fun _ b => Or.inl ⟨_, rfl⟩, fun _ => Or.inl rfl⟩
example : CodecKnows exRt := ⟨fun _ _ h => (by cases h), fun _ _ h => (by cases h)⟩

/-- namespaces argparse can produce: `segno -o out.png …`, `segno --scale 2.5 --border 0 --dark transparent -o x.svgz …`, `segno --compact …` -/
def exParsed (over : Config) : Config := over.foldl (fun c e => cset c e.1 e.2) Gen.CLI_DEFAULT_CONFIG
example : ArgparseAccepted (exParsed [("output", .str "out.png")])
    ∧ ArgparseAccepted (exParsed [("output", .str "x.svgz"), ("scale", .float 5 2), ("border", .int 0), ("dark", .str "transparent"), ("micro", .none)])
    ∧ ArgparseAccepted (exParsed [("compact", .bool true)])
    ∧ ¬ ArgparseAccepted (exParsed [("svgencoding", .none)]) ∧ ¬ ArgparseAccepted (exParsed [("xmldecl", .none)]) := by
  unfold ArgparseAccepted; decide +kernel

def clsR (r : R Result) : String :=
  match r with
  | .ok (.written (.bytes _)) => "written:bytes" | .ok (.written (.chars _)) => "written:chars" | .ok (.value _) => "value"
  | .error e => e.name

/-- the routes on the version 1 symbol of Props/C14Serializers.lean: accepted requests … -/
example : [clsR (save exEnv (.stream true none) (some "PNG".toList) [("scale", .int 2)]), clsR (save exEnv (.path "q.svgz".toList) none [("compresslevel", .int 3)]),
           clsR (save exEnv (.stream false (some "a.b.EPS".toList)) none []), clsR (svgInline exEnv [("scale", .float 5 2)]),
           clsR (svgDataUri exEnv [("encode_minimal", .bool true)]), clsR (pngDataUri exEnv []), clsR (terminal exEnv none (.int 1) (.bool true)),
           clsR (cliMain exEnv Gen.EXT_TO_KW_MAPPING (exParsed [("output", .str "out.pbm"), ("scale", .int 2)])),
           clsR (cliMain exEnv Gen.EXT_TO_KW_MAPPING (exParsed []))]
    = ["written:bytes", "written:bytes", "written:chars", "value", "value", "value", "written:chars", "written:bytes", "written:chars"] := by
  decide +kernel
/-- … refusals (ValueError), and the TypeErrors of Python's keyword binding and of the documented misuses -/
example : [clsR (save exEnv (.path "q.foo".toList) none []), clsR (save exEnv (.stream true none) (some "png".toList) [("scale", .int 0)]),
           clsR (svgInline exEnv [("border", .float 3 2)]), clsR (terminal exEnv none (.int (-1)) (.bool false)),
           clsR (cliMain exEnv Gen.EXT_TO_KW_MAPPING (exParsed [("output", .str "out.png"), ("dark", .str "#12")])),
           clsR (save exEnv (.stream true none) none []), clsR (save exEnv (.stream true none) (some "eps".toList) []),
           clsR (save exEnv (.path "q.png".toList) none [("unit", .str "mm")]), clsR (svgInline exEnv [("nl", .bool true)]),
           clsR (save exEnv (.path "q.png".toList) none [("kind", .str "png")])]
    = ["ValueError", "ValueError", "ValueError", "ValueError", "ValueError", "TypeError", "TypeError", "TypeError", "TypeError", "TypeError"] := by
  decide +kernel

end examples

end Props.C14Routes
