/-
  C06 — a requested mask is used; the automatic mask minimises the ISO 7.8.3 penalty score.
  Property theorems only; helper lemmas live in Proofs/Mask.lean.
-/
import Spec.Penalty
import Model.Encoder
import Proofs.Mask

namespace Props.C06

set_option linter.unusedVariables false  -- `hb` hypotheses are part of the given statements but not needed

/-- the data mask predicates translated from `get_data_mask_functions` (fn0 … fn7) are the ISO
    Table 10 conditions, for every row i and column j -/
theorem mask_conditions (p i j : Nat) (hp : p < 8) : Model.maskFn p i j = Spec.maskCond p i j := by
  exact Proofs.Mask.maskFn_eq_maskCond p i j hp

/-- Micro QR patterns 0..3 are QR patterns 1, 4, 6, 7; QR patterns are 0..7 in order -/
theorem mask_order : Gen.maskOrderMicro = [1, 4, 6, 7] ∧ Gen.maskOrderQR = [0, 1, 2, 3, 4, 5, 6, 7] := by
  exact Proofs.Mask.mask_order

/-- square 0/1 matrix of size n -/
def Square (m : Model.Matrix) : Prop := ∀ i, i < m.size → (m.getD i #[]).size = m.size

/-- **score = ISO penalty** (QR): the model of `mask_scores` (N1 by run counting with the −2
    encoding, N2 over every 2×2 window, N3 by the find-loop that resumes 4 modules after each
    occurrence, N4 in exact integer arithmetic) equals the ISO 7.8.3.1 penalty of the specification
    (every run ≥ 5, every 2×2 block, EVERY occurrence of 1011101 with four light modules — or the
    symbol edge — on a side, 10 points per 5 % deviation) -/
theorem score_eq_iso (m : Model.Matrix) (hs : Square m) (hb : ∀ i j, Model.get2 m i j ≤ 1) :
    Model.evaluateMask m = Spec.penaltyQR m := by
  exact Proofs.Mask.score_eq m hs

/-- **score = ISO score** (Micro QR) -/
theorem micro_score_eq_iso (m : Model.Matrix) : Model.evaluateMicroMask m = Spec.scoreMicro m := by
  exact Proofs.Mask.micro_score m

/-- generic: the candidate loop of `find_and_apply_best_mask` (strict comparison, first best wins)
    returns the least index among the candidates of minimal score (QR) / maximal score (Micro) -/
def firstBest (isMicro : Bool) (scores : List Nat) : Option Nat :=
  match scores with
  | [] => none
  | _ => some (scores.idxOf (if isMicro then scores.foldl max 0 else scores.foldl min (scores.headD 0)))

/-- **automatic mask**: the pattern returned is the lowest-numbered one among those whose masked
    symbol has the minimal (Micro: maximal) model score, and the matrix returned is that candidate -/
theorem auto_is_first_best (m : Model.Matrix) (fm : Model.Matrix) (k : Nat) (bm : Model.Matrix)
    (hfm : Model.functionMatrix m.size = .ok fm)
    (h : Model.findAndApplyBestMask m none = .ok (k, bm)) :
    let isMicro := decide (m.size < 21)
    let cands := (Model.maskPatterns isMicro).map (fun pat => Model.applyMask m fm pat)
    let scores := cands.map (fun c => if isMicro then Model.evaluateMicroMask c else Model.evaluateMask c)
    firstBest isMicro scores = some k ∧ cands[k]? = some bm := by
  obtain ⟨hne, hk, hc⟩ := Proofs.Mask.auto_first_best m fm k bm hfm h
  intro isMicro cands scores
  refine ⟨?_, hc⟩
  have hfb : ∀ (b : Bool) (l : List Nat), l ≠ [] →
      firstBest b l = some (l.idxOf (if b then l.foldl max 0 else l.foldl min (l.headD 0))) := by
    intro b l hl
    cases l with
    | nil => exact absurd rfl hl
    | cons a t => rfl
  rw [hfb isMicro scores hne, hk]

/-- **requested mask**: exactly that pattern is applied, no evaluation takes place -/
theorem requested_mask_applied (m fm : Model.Matrix) (p : Nat)
    (hfm : Model.functionMatrix m.size = .ok fm) (hp : p < (Model.maskPatterns (decide (m.size < 21))).length) :
    Model.findAndApplyBestMask m (some p)
      = .ok (p, Model.applyMask m fm ((Model.maskPatterns (decide (m.size < 21))).getD p 0)) := by
  exact Proofs.Mask.requested m fm p hfm hp

/-- masking twice with the same pattern is the identity (so the reader's unmasking recovers the data) and
    only modules of the encoding region (function matrix value > 1) are touched -/
theorem applyMask_involutive_on_bits (m fm : Model.Matrix) (p i j : Nat) (hb : Model.get2 m i j ≤ 1) :
    Model.get2 (Model.applyMask (Model.applyMask m fm p) fm p) i j = Model.get2 m i j := by
  exact Proofs.Mask.applyMask_involutive m fm p i j

theorem applyMask_leaves_function_modules (m fm : Model.Matrix) (p i j : Nat) (h : Model.get2 fm i j ≤ 1) :
    Model.get2 (Model.applyMask m fm p) i j = Model.get2 m i j := by
  exact Proofs.Mask.applyMask_leaves m fm p i j h

end Props.C06

#print axioms Props.C06.mask_conditions
#print axioms Props.C06.mask_order
#print axioms Props.C06.score_eq_iso
#print axioms Props.C06.micro_score_eq_iso
#print axioms Props.C06.auto_is_first_best
#print axioms Props.C06.requested_mask_applied
#print axioms Props.C06.applyMask_involutive_on_bits
#print axioms Props.C06.applyMask_leaves_function_modules
