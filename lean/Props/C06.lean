-- placeholder, theorems follow
import Spec.Decode
namespace Props.C06
theorem placeholder : True := trivial
end Props.C06
