/-
  C10 — whole documents: the TeX / PGF writer and the PDF file structure.
  Property theorems about the document models `Model.Tex.writeTex` (Model/Tex.lean) and `Model.VectorDocs.pdfFile`
  (Model/VectorDocs.lean), which are tied to the real `write_tex` / `write_pdf` by the byte-for-byte document
  correspondence of harness/vecdocs.py.  Helper lemmas: Proofs/TexDocs.lean, Proofs/Lines.lean,
  Proofs/VectorAccept*.lean.  Mathlib-free.
-/
import Props.C10Accept
import Proofs.TexDocs
import Model.VectorDocs
import Proofs.SvgText
import Proofs.WrapLines

namespace Props.C10Docs
open Model Model.Lines Model.Tex Model.VectorDocs Spec.Vector Proofs.Lines Proofs.VectorAccept Proofs.TexDocs Proofs.SvgText Proofs.WrapLines

/-! ### TeX / PGF -/

/-- `tex_picture` (unbounded: every matrix of any shape and cell values, every border).  The PGF path the model of
    `write_tex` emits is one `\pgfpathmoveto` / `\pgfpathlineto` pair per line; reading the commands back with the
    reference semantics `texRead` gives the model's lines `(x1, y, x2)` (in modules; the factor `scale` is applied when a
    coordinate is printed), the lines are, row by row, a group of runs at y = −(border + i) — the centre line of grid row
    border + i, where the judge expects it (`judgeTex`: "grid row i is centred at y = −i·scale") — and the runs of row i
    expand (judge's `coverAt`) to exactly that row starting at column `border`: every dark module once, no light module,
    nothing left or right of the symbol. -/
theorem tex_picture (m : List (List Nat)) (b : Nat) :
    texRead (texCmds (texLines m b)) = some (texLines m b)
    ∧ ∃ rows : List (List (Nat × Nat)),
        rows.length = m.length
        ∧ texLines m b = texAttach (-(b : Int)) rows
        ∧ ∀ (i : Nat) (h : i < m.length) (h' : i < rows.length),
            (List.range (m[i]).length).map (fun k => coverAt (rows[i]) (b + k)) = (m[i]).map dark01
            ∧ ∀ j, (j < b ∨ b + (m[i]).length ≤ j) → coverAt (rows[i]) j = 0 := by
  refine ⟨texRead_texCmds _, rowsGo b 1 m, rowsGo_length b m 1, texLines_rows m b, ?_⟩
  intro i h h'
  constructor
  · rw [← darkAt_expand (m[i]) b]
    apply List.map_congr_left
    intro k _
    exact rowsGo_cover b m 1 i h h' (b + k)
  · intro j hj
    rw [rowsGo_cover b m 1 i h h' j]
    rcases hj with hj | hj
    · exact darkAt_lt _ _ _ hj
    · exact darkAt_ge _ _ _ hj

example : texLines [[1, 0, 1], [0, 0, 0], [0, 1, 1]] 2 = [(2, -2, 3), (4, -2, 5), (3, -4, 5)] := by decide
example : texCmds [(2, -2, 3), (4, -2, 5)] = [.moveto 2 (-2), .lineto 3 (-2), .moveto 4 (-2), .lineto 5 (-2)] := by decide

/-- `tex_coordinates_read` (every integer scale, every coordinate, every unit that does not begin with a digit, `.` or an
    exponent): the text `<v·scale><unit>` the model prints inside `\pgfqpoint{…}{…}` is read by the judge's exact decimal
    reader `numUnit?` as the number v·scale and the unit -/
theorem tex_coordinates_read (o : Tex.Opts) (i : Int) (hs : o.scale = .int i) (v : Int) (hu : unitOk o.unit.toList = true) :
    numUnit? (coordText o v ++ o.unit) = some (((v * i : Int) : Rat), o.unit) := by
  unfold coordText
  rw [hs]
  exact numUnit_int (v * i) o.unit hu

example : unitOk "pt".toList = true ∧ unitOk "mm".toList = true ∧ unitOk "em".toList = true ∧ unitOk "ex".toList = true
    ∧ unitOk "e3".toList = false := by decide

/-- FULL STATEMENT for TeX: the judge accepts the model's PGF path of every square 0/1 matrix, every border and every
    positive rational scale.  `judgeTex` (Spec/Vector.lean) has its interpreter inlined in a `for` loop over the request
    tokens; stated here for the semantic core of that loop — `texPath` applies, command by command, the same
    `PathSt.moveTo` / `PathSt.lineTo` to the coordinates x·s, y·s — followed by the judge's own `strokeRects` (half width
    s/2 = the requested line width), `gridSegs` (y-up, top = s/2, tolerance `relTol`) and `checkCoverage`: the result is
    the model's non-empty runs at grid rows border + i, every dark module covered once, no light one.
    Not covered: the splitting of the request line into tokens (`splitOn`), units / colour / line width bookkeeping of
    `judgeTex` (for the coordinate texts see `tex_coordinates_read`). -/
def judge_accepts_model_tex : Prop :=
  ∀ (m : List (List Nat)) (b : Nat) (s : Rat), 0 < s → m ≠ [] → (∀ row ∈ m, row.length = m.length ∧ ∀ c ∈ row, c ≤ 1) →
    ∃ segs,
      (do
        let p ← texPath s (texCmds (texLines m b)) {}
        let rects ← strokeRects (s / 2) p.done
        let segs ← gridSegs s relTol (m.length + 2 * b) true (s / 2) rects
        checkCoverage { m := m, size := m.length, b := b, s := s, dark := some { r := 0, g := 0, b := 0 }, light := none } segs
        pure segs) = Except.ok segs

theorem judge_accepts_model_tex_proved : judge_accepts_model_tex := by
  intro m b s hs _ hm
  exact ⟨_, tex_core m b s hs (fun row hr => (hm row hr).1)⟩

example : ∃ segs,
    (do
      let p ← texPath (3 / 2) (texCmds (texLines [[1, 0], [0, 1]] 1)) {}
      let rects ← strokeRects ((3 / 2 : Rat) / 2) p.done
      let segs ← gridSegs (3 / 2) relTol (2 + 2 * 1) true ((3 / 2 : Rat) / 2) rects
      checkCoverage { m := [[1, 0], [0, 1]], size := 2, b := 1, s := 3 / 2, dark := some { r := 0, g := 0, b := 0 }, light := none } segs
      pure segs) = Except.ok segs :=
  judge_accepts_model_tex_proved [[1, 0], [0, 1]] 1 (3 / 2) (by decide +kernel) (by decide) (by decide)

/-! ### PDF: the file structure -/

/-- `pdf_file_offsets` (every page, every compressed stream, every date text): in the file the model of `write_pdf`
    assembles, the i-th recorded offset (`object_pos[i]`, printed as the i-th in-use entry of the cross-reference table by
    `pdfTail`) is the position of the first byte of piece i+1 — the bytes from there on are the remaining objects followed
    by the cross-reference section.  (Instance of `Props.C10.pdf_offsets` for the whole file.) -/
theorem pdf_file_offsets (p : PdfPage) (graphic : List Nat) (date : String) (i : Nat) (h : i < 6) :
    let pieces := pdfFilePieces p graphic date
    ∃ (h' : i < (pdfObjectPos pieces).length),
      (pdfFile p graphic date).drop ((pdfObjectPos pieces)[i]) = ((pieces.drop (i + 1)).flatten) ++ pdfTail (pdfObjectPos pieces) := by
  intro pieces
  have hlen : pieces.length = 6 := rfl
  have h' : i < (pdfObjectPos pieces).length := by
    unfold pdfObjectPos; rw [prefixSums_length, List.length_map, hlen]; exact h
  refine ⟨h', ?_⟩
  have hoff := Props.C10.pdf_offsets pieces i (by omega) h'
  have hle : (pdfObjectPos pieces)[i] ≤ pieces.flatten.length := by
    have : ((pieces.flatten).drop ((pdfObjectPos pieces)[i])).length = ((pieces.drop (i + 1)).flatten).length := by
      unfold pdfObjectPos; rw [hoff]
    rw [List.length_drop] at this
    -- the remaining pieces are not empty unless i = 5; in both cases the offset is within the file
    by_cases hc : (pdfObjectPos pieces)[i] ≤ pieces.flatten.length
    · exact hc
    · exfalso
      have h0 : pieces.flatten.length - (pdfObjectPos pieces)[i] = 0 := by omega
      rw [h0] at this
      have hnil : (pieces.drop (i + 1)).flatten = [] := List.eq_nil_of_length_eq_zero this.symm
      -- then the offset is the total length (prefix sum of all pieces)
      have hsum : ∀ (l : List (List Nat)) (a k : Nat) (hk : k < (prefixSums a (l.map List.length)).length),
          (prefixSums a (l.map List.length))[k] ≤ a + l.flatten.length := by
        intro l
        induction l with
        | nil => intro a k hk; simp [prefixSums] at hk
        | cons x r ih =>
          intro a k hk
          cases k with
          | zero => simp [prefixSums]
          | succ k' =>
            simp only [List.map_cons, prefixSums, List.getElem_cons_succ, List.flatten_cons, List.length_append]
            have := ih (a + x.length) k' (by simpa [prefixSums] using hk)
            omega
      have := hsum pieces 0 i h'
      unfold pdfObjectPos at hc
      omega
  unfold pdfFile
  show (pieces.flatten ++ pdfTail (pdfObjectPos pieces)).drop ((pdfObjectPos pieces)[i]) = _
  rw [List.drop_append_of_le_length hle]
  unfold pdfObjectPos at hoff ⊢
  rw [hoff]

/-- `pdf_startxref`: the number after `startxref` (the last recorded position, `xref_location`) is the position of the
    keyword `xref`: the file from there on is exactly the cross-reference section, trailer and `startxref` -/
theorem pdf_startxref (p : PdfPage) (graphic : List Nat) (date : String) :
    let pieces := pdfFilePieces p graphic date
    (pdfFile p graphic date).drop ((pdfObjectPos pieces).getLastD 0) = pdfTail (pdfObjectPos pieces) := by
  intro pieces
  obtain ⟨h', hd⟩ := pdf_file_offsets p graphic date 5 (by omega)
  have hl : (pdfObjectPos pieces).length = 6 := by
    unfold pdfObjectPos; rw [prefixSums_length, List.length_map]; rfl
  rw [getLastD_six _ hl, hd]
  have : (pieces.drop (5 + 1)).flatten = [] := by
    have hlen : pieces.length = 6 := rfl
    rw [List.drop_of_length_le (by omega)]; rfl
  rw [this, List.nil_append]

/-- `pdf_stream_length`: the number printed after `/Length` is the number of bytes between `stream\r\n` and
    `\r\nendstream` (object 4 is built around the stream it is given) -/
theorem pdf_stream_length (p : PdfPage) (graphic : List Nat) (date : String) :
    (pdfFilePieces p graphic date)[4]? = some (asciiBytes ("4 0 obj <</Length " ++ toString graphic.length ++ " /Filter /FlateDecode>>\r\nstream\r\n")
      ++ graphic ++ asciiBytes "\r\nendstream\r\nendobj\r\n") := rfl

/-- the offsets of the model's file for a concrete page: a 22-byte stream, date of 21 characters -/
example : pdfObjectPos (pdfFilePieces { width := "29", height := "29", content := "" } (List.replicate 22 0) "20260930120000+00'00'")
    = [16, 65, 122, 207, 303, 465] := by decide +kernel

/-- `pdf_content_default`: with the default colours at scale 1 the content stream of the model's document is the token
    stream `Model.Lines.pdfOps` (the one `Props.C10.judge_accepts_model_pdf_scale1_proved` speaks about) joined by blanks,
    and the page is (size + 2·border) square -/
theorem pdf_content_default (m : List (List Nat)) (w h : Nat) (b : Nat) :
    pdfContent m w h { border := some (b : Int) }
      = .ok { width := toString (((w + 2 * b : Nat) : Int) * 1), height := toString (((h + 2 * b : Nat) : Int) * 1),
              content := " ".intercalate (pdfOps m b) } := by
  have hb : ¬ ((b : Int) < 0) := by omega
  have hblack : Svg.isBlack (.str "#000") = true := by decide +kernel
  simp [pdfContent, hb, VColor.isNone, VColor.isBlack, hblack, Svg.Scale.notOne, bind, Except.bind, pure, Except.pure]

/-! ### EPS: the line breaking (`textwrap.wrap(content, 254)`, "Postscript: Max. 255 characters per line") -/

/-- `eps_wrap_keeps_words` (every text): the model of `write_line` breaks a text into lines without losing, duplicating or
    reordering a word — the words (maximal runs of non-blank characters) of all lines, in order, are the words of the text; so
    the PostScript token stream of the wrapped program is the token stream before wrapping (`Model.Lines.epsPath`, the one
    `Props.C10.judge_accepts_model_eps_proved` speaks about) -/
theorem eps_wrap_keeps_words (s : String) :
    wrap 254 s = (wrapLines 254 ((chunksOf s.toList).length + 1) true (chunksOf s.toList)).map (fun l => String.ofList l.flatten)
    ∧ wordsOf (wrapLines 254 ((chunksOf s.toList).length + 1) true (chunksOf s.toList)).flatten = wordsOf (chunksOf s.toList) :=
  ⟨rfl, wrapLines_words 254 _ true _ (Nat.lt_succ_self _)⟩

/-- `eps_lines_short` (every text without a word of more than 254 characters): no line the model writes is longer than 254
    characters -/
theorem eps_lines_short (s : String) (h : ∀ ch ∈ chunksOf s.toList, ch.length ≤ 254) : ∀ line ∈ wrap 254 s, line.length ≤ 254 := by
  intro line hl
  unfold wrap wrapChunks at hl
  simp only [List.mem_map] at hl
  obtain ⟨l, hmem, rfl⟩ := hl
  have := wrapLines_length 254 _ true _ h l hmem
  simpa [total, List.length_flatten] using this

example : wrap 12 "1 2.5 moveto 7 0 l 1 0 m 1 0 l" = ["1 2.5 moveto", "7 0 l 1 0 m", "1 0 l"] := by decide +kernel

/-! ### SVG: the text of `<title>`, `<desc>` and of the attribute values -/

/-- `svg_text_escaped` (every title / description): what the model of `write_svg` writes between `<title>` and `</title>`
    (`xml.sax.saxutils.escape`) contains no `<` and no `>` — it cannot end the element or open another one —, and the
    reference decoder of XML character data (`xmlDecode`: `&amp;` `&lt;` `&gt;` …) reads the original text back -/
theorem svg_text_escaped (s : List Char) :
    xmlDecode (Svg.escape s) = s ∧ ∀ c ∈ Svg.escape s, c ≠ '<' ∧ c ≠ '>' := by
  rw [escape_eq]
  refine ⟨decode_flatMap false false s, ?_⟩
  intro c hc
  have := mem_flatMap_enc false false s c hc
  exact ⟨this.1, this.2.1⟩

/-- `svg_attribute_quoted` (every class / id / encoding / version / colour / opacity text): `quoteattr` produces
    `q body q` with q one of the two quote characters, q does not occur in the body, the body contains no `<`, `>`, and no
    literal line break or tab (they would be normalised away by an XML reader), and decoding the body gives the original
    value back -/
theorem svg_attribute_quoted (s : String) :
    ∃ (q : Char) (body : List Char), (Svg.quoteattr s).toList = q :: body ++ [q] ∧ (q = '"' ∨ q = '\'') ∧ q ∉ body
      ∧ (∀ c ∈ body, c ≠ '<' ∧ c ≠ '>' ∧ c ≠ '\n' ∧ c ≠ '\r' ∧ c ≠ '\t') ∧ xmlDecode body = s.toList := by
  unfold Svg.quoteattr
  simp only [stage2_eq]
  have clean := mem_flatMap_enc true false s.toList
  by_cases h1 : (s.toList.flatMap (enc true false)).contains '"' = true
  · by_cases h2 : (s.toList.flatMap (enc true false)).contains '\'' = true
    · simp only [h1, h2, if_true]
      rw [stage3_eq]
      have clean2 := mem_flatMap_enc true true s.toList
      refine ⟨'"', s.toList.flatMap (enc true true), by simp, Or.inl rfl, ?_, ?_, decode_flatMap true true _⟩
      · intro hm; exact (clean2 _ hm).2.2.1 rfl rfl
      · intro c hc
        have := clean2 c hc
        exact ⟨this.1, this.2.1, this.2.2.2 rfl⟩
    · simp only [h1, h2, if_true]
      refine ⟨'\'', s.toList.flatMap (enc true false), by simp, Or.inr rfl, ?_, ?_, decode_flatMap true false _⟩
      · intro hm; apply h2; simpa using hm
      · intro c hc
        have := clean c hc
        exact ⟨this.1, this.2.1, this.2.2.2 rfl⟩
  · simp only [h1]
    refine ⟨'"', s.toList.flatMap (enc true false), by simp, Or.inl rfl, ?_, ?_, decode_flatMap true false _⟩
    · intro hm; apply h1; simpa using hm
    · intro c hc
      have := clean c hc
      exact ⟨this.1, this.2.1, this.2.2.2 rfl⟩

example : Svg.quoteattr "a\"b" = "'a\"b'" ∧ Svg.quoteattr "a\"'<b" = "\"a&quot;'&lt;b\"" := by decide

end Props.C10Docs
