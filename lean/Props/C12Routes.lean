/-
  C12 — all output routes give the same document: the ROUTE LAYER.  Property theorems only
  (helpers: Proofs/RoutesCodec.lean, Proofs/Routes.lean, Proofs/RoutesExec.lean, Proofs/RoutesUri.lean).

  Subject: Model/Routes.lean — `QRCode.save` / `writers.save` (kind / extension, svgz, file name vs. stream,
  `writable`), `svg_inline`, `svg_data_uri`, `png_data_uri`, `QRCodeSequence.save`, `cli.main` — tied to the real
  code call by call (harness/routes_model.py: the keyword map that really reaches the serialiser, its target and
  the result of every route).  The theorems hold for EVERY serialiser environment `env` (behaviour of the
  serialisers on their bound parameters, codec, gzip); `Model.RoutesDocs.docEnv` — the whole-document models
  of Model/SvgDoc.lean, Model/RasterDocs.lean as serialisers of one symbol — is one such environment (see the
  `…_document` theorems and the examples at the end), so each statement speaks about every symbol and every
  option set.  Reference readers: Spec/Decoders.lean (base64, percent-encoding; independent of the encoders).
-/
import Model.Routes
import Model.RoutesDocs
import Spec.Decoders
import Spec.Routes
import Proofs.RoutesCodec
import Proofs.RoutesExec
import Proofs.RoutesUri
import Proofs.RoutesProps
import Props.C12

namespace Props.C12Routes
open Gen (PyV)
open Model Model.Cli Model.Routes Spec.Decoders Proofs.RoutesCodec Proofs.Routes

/-! ### the signatures the model was written against (Tie A: `Gen.ROUTE_SIGS` is regenerated from the repository) -/

def routeSig (name : String) : Option (List String × Config × Bool) := (Gen.ROUTE_SIGS.find? (·.1 == name)).map (·.2)

/-- **route_signatures** — kernel check: the parameters, defaults and `**kw` of the route wrappers in the repository
    are the ones Model/Routes.lean follows (`svgDataUriSig`, `asSvgDataUriSig`, `asPngDataUriSig`, the names refused by
    `savePlan` / `svgInlinePlan` / `pngDataUriPlan`, the parameters of `terminal`, of `write_terminal_compact` and of
    `QRCodeSequence.save`) -/
theorem route_signatures :
    routeSig "QRCode.save" = some (["self", "out"], [("kind", .none)], true)
    ∧ routeSig "writers.save" = some (["matrix", "matrix_size", "out"], [("kind", .none)], true)
    ∧ routeSig "QRCode.svg_inline" = some (["self"], [], true)
    ∧ routeSig "QRCode.svg_data_uri" = some (svgDataUriSig.positional, svgDataUriSig.params, svgDataUriSig.varkw)
    ∧ routeSig "writers.as_svg_data_uri" = some (asSvgDataUriSig.positional, asSvgDataUriSig.params, asSvgDataUriSig.varkw)
    ∧ routeSig "QRCode.png_data_uri" = some (["self"], [], true)
    ∧ routeSig "writers.as_png_data_uri" = some (asPngDataUriSig.positional, asPngDataUriSig.params, asPngDataUriSig.varkw)
    ∧ routeSig "QRCode.terminal" = some (["self"], [("out", .none), ("border", .none), ("compact", .bool false)], false)
    ∧ (routeSig "writers.write_terminal_compact").map (·.2.1) = serializerDefaults "compact"
    ∧ routeSig "QRCodeSequence.save" = routeSig "QRCode.save"
    ∧ (routeSig "QRCodeSequence.terminal").map (·.2) = (routeSig "QRCode.terminal").map (·.2) := by
  refine ⟨?_, ?_, ?_, ?_, ?_, ?_, ?_, ?_, ?_, ?_, ?_⟩ <;> decide +kernel

/-! ### the container encodings -/

/-- **base64_decode_encode** — reading the model's base64 text back gives the bytes, for EVERY byte string
    (all three padding cases included) -/
theorem base64_decode_encode (bs : List Nat) (h : ∀ b ∈ bs, b < 256) : b64decode (b64encode bs) = some bs :=
  b64_roundtrip bs h

/-- **percent_decode_encode** — percent-decoding the model's encoded text gives the document back, for every
    byte string, with the normal safe set (`safe=b""`), the `encode_minimal` one (`safe=b" :/='"`) and every
    other safe set that does not contain `%` -/
theorem percent_decode_encode (bs : List Nat) (h : ∀ b ∈ bs, b < 256) :
    pctDecode (pctEncode safeNormal bs) = bs ∧ pctDecode (pctEncode safeMinimal bs) = bs
    ∧ ∀ safe : List Nat, isSafe safe 37 = false → pctDecode (pctEncode safe bs) = bs :=
  ⟨pct_roundtrip safeNormal (by decide) bs h, pct_roundtrip safeMinimal (by decide) bs h,
   fun safe h37 => pct_roundtrip safe h37 bs h⟩

/-- **replace_quotes_spec** (the recorded finding D12, exactly) — `_replace_quotes` keeps the length; position by
    position a byte is unchanged or a `"` that became `'`; and the document is changed AT ALL iff it contains
    `="…"` with a non-empty value free of `"` (`Spec.Decoders.HasQuotedAttr`): outside that set of documents the
    data-URI route and the file route are byte-identical after decoding, inside they differ -/
theorem replace_quotes_spec (d : List Nat) :
    Pointwise QuoteStep d (replaceQuotes d) ∧ (replaceQuotes d = d ↔ ¬ HasQuotedAttr d) := by
  refine ⟨rq_pointwise d, ?_, ?_⟩
  · intro h hq
    exact rq_changed_of_attr d hq h
  · exact rq_fixed_of_no_attr d

/-- the judge recognises D12 by recomputing the rewriting (`Spec.Routes.rewriteQuotes`): it is the model's function -/
theorem judge_d12_eq_model (d : List Nat) : Spec.Routes.rewriteQuotes (d.length + 1) d = replaceQuotes d :=
  judge_rewrite_eq (d.length + 1) d (Nat.lt_succ_self _)

/-! ### `kind=` vs. file extension, letter case -/

/-- **kind_eq_extension_document** — the same result (document or refusal) whether the serialiser is selected by
    the extension of the file name `stem.EXT` or by `kind=` (any letter case, any other file name), for every
    environment, keyword map and — with `svgz` — compression included -/
theorem kind_eq_extension_document (env : Env) (stem other ext kind : Str) (kw : Config)
    (hd : '.' ∉ ext) (hc : lower kind = lower ext) :
    save env (.path (stem ++ '.' :: ext)) none kw = save env (.path other) (some kind) kw := by
  unfold save
  by_cases hf : Free saveReserved kw
  · rw [savePlan_free _ _ _ hf, savePlan_free _ _ _ hf]
    have : dispatchOf (.path (stem ++ '.' :: ext)) none = dispatchOf (.path other) (some kind) := by
      simp only [dispatchOf]
      exact (Props.C12.dispatch_kind_eq_extension validKeys stem [] ext kind false hd hc).symm
    rw [this]
    rfl
  · rw [savePlan_refused _ _ _ hf, savePlan_refused _ _ _ hf]

/-- the letter case of the extension does not matter -/
theorem extension_case_document (env : Env) (stem stem' ext ext' : Str) (kw : Config)
    (hd : '.' ∉ ext) (hc : lower ext' = lower ext) :
    save env (.path (stem' ++ '.' :: ext')) none kw = save env (.path (stem ++ '.' :: ext)) none kw := by
  unfold save
  by_cases hf : Free saveReserved kw
  · rw [savePlan_free _ _ _ hf, savePlan_free _ _ _ hf]
    have : dispatchOf (.path (stem' ++ '.' :: ext')) none = dispatchOf (.path (stem ++ '.' :: ext)) none := by
      simp only [dispatchOf]
      exact Props.C12.dispatch_case_insensitive validKeys stem stem' ext ext' hd hc
    rw [this]
    rfl
  · rw [savePlan_refused _ _ _ hf, savePlan_refused _ _ _ hf]

/-! ### stream vs. file -/

/-- **stream_eq_file** — with `kind=` given, the bytes written to a binary stream are the content of the file; a
    text stream (only the serialisers that write `str` without an encoding accept one) receives the text whose
    encoding in the locale's default encoding (`open(path, 'wt')`) is the file; and every file arises in one of
    these two ways.  (svgz included: the gzip member; a text stream is refused there.) -/
theorem stream_eq_file (env : Env) (file : Str) (nm : Option Str) (kind : Str) (kw : Config) :
    (∀ b, save env (.stream true nm) (some kind) kw = .ok (.written (.bytes b)) →
        save env (.path file) (some kind) kw = .ok (.written (.bytes b)))
    ∧ (∀ s, save env (.stream false nm) (some kind) kw = .ok (.written (.chars s)) →
        save env (.path file) (some kind) kw = (env.codec env.defaultEnc s).map (fun b => .written (.bytes b)))
    ∧ (∀ b, save env (.path file) (some kind) kw = .ok (.written (.bytes b)) →
        save env (.stream true nm) (some kind) kw = .ok (.written (.bytes b))
        ∨ ∃ s, save env (.stream false nm) (some kind) kw = .ok (.written (.chars s)) ∧ env.codec env.defaultEnc s = .ok b) := by
  by_cases hf : Free saveReserved kw
  · simp only [save_free _ _ _ _ hf, dispatchOf, OutArg.sink]
    cases dispatch validKeys [] false (some kind) with
    | error e =>
      refine ⟨fun b h => ?_, fun s h => ?_, fun b h => ?_⟩ <;> exact absurd h (by simp [bind, Except.bind])
    | ok key =>
      simp only [bind, Except.bind]
      exact ⟨fun b h => saveCore_bin_file env kw key b h, fun s h => saveCore_txt_file env kw key s h,
             fun b h => saveCore_file_cases env kw key b h⟩
  · simp only [save_refused _ _ _ _ hf]
    refine ⟨fun b h => ?_, fun s h => ?_, fun b h => ?_⟩ <;> exact absurd h (by simp)

/-! ### svgz -/

/-- **svgz_gunzip_eq_svg** — gzip is a runtime service (`env.gzip`): what `save('name.svgz', **kw)` writes is the
    gzip member — at the level `compresslevel` (default 9) — of EXACTLY the bytes `save(BytesIO(), kind='svg')`
    writes for the same keywords without `compresslevel`; and conversely, whenever gzip accepts the level, that
    SVG document is what ends up compressed in the file. -/
theorem svgz_gunzip_eq_svg (env : Env) (stem : Str) (kw : Config) :
    (∀ r, save env (.path (stem ++ '.' :: "svgz".toList)) none kw = .ok r →
        ∃ d, save env (.stream true none) (some "svg".toList) (cpop kw "compresslevel") = .ok (.written (.bytes d))
          ∧ r = .written (.bytes (env.gzip (gzLevel kw) d)))
    ∧ (∀ d, env.gzipCheck (gzLevel kw) = .ok () →
        save env (.stream true none) (some "svg".toList) (cpop kw "compresslevel") = .ok (.written (.bytes d)) →
        save env (.path (stem ++ '.' :: "svgz".toList)) none kw = .ok (.written (.bytes (env.gzip (gzLevel kw) d)))) := by
  have hfree : Free saveReserved (cpop kw "compresslevel") ↔ Free saveReserved kw := free_cpop _ _ _ (by decide)
  by_cases hf : Free saveReserved kw
  · rw [save_free _ _ _ _ hf, save_free _ _ _ _ (hfree.2 hf), dispatch_svgz, dispatch_svg_kind]
    simp only [bind, Except.bind, saveCore, if_true, Bool.false_eq_true, if_false, OutArg.sink, gzLevel]
    have hne : (Sink.file == Sink.txt) = false := by decide
    simp only [hne, Bool.false_eq_true, if_false, pure, Except.pure]
    constructor
    · intro r h
      cases hg : env.gzipCheck ((cget kw "compresslevel").getD (.int 9)) with
      | error e => rw [hg] at h; exact absurd h (by simp)
      | ok u =>
        rw [hg] at h
        simp only at h
        cases hs : env.ser "svg" (cpop kw "compresslevel") with
        | error e => rw [hs] at h; exact absurd h (by simp)
        | ok so =>
          rw [hs] at h
          simp only at h ⊢
          rw [writable_bin]
          cases hw : writableBin env so with
          | error e => rw [hw] at h; exact absurd h (by simp)
          | ok b =>
            rw [hw] at h
            simp only [Except.ok.injEq] at h
            exact ⟨b, rfl, h.symm⟩
    · intro d hg h
      rw [hg]
      simp only
      cases hs : env.ser "svg" (cpop kw "compresslevel") with
      | error e => rw [hs] at h; exact absurd h (by simp)
      | ok so =>
        rw [hs] at h
        simp only at h ⊢
        rw [writable_bin] at h
        cases hw : writableBin env so with
        | error e => rw [hw] at h; exact absurd h (by simp [Except.map])
        | ok b =>
          rw [hw] at h
          simp only [Except.map, Except.ok.injEq, Result.written.injEq, Written.bytes.injEq] at h
          rw [h]
  · rw [save_refused _ _ _ _ hf, save_refused _ _ _ _ (fun h => hf (hfree.1 h))]
    exact ⟨fun r h => absurd h (by simp), fun d _ h => absurd h (by simp)⟩

/-! ### sequences -/

/-- **sequence_save_each** — `QRCodeSequence.save(out, kind, **kw)` of m symbols succeeds with m writes; the n-th
    write goes to `seqOut out m n` (the file `stem-MM-NN.ext` for a file name with a dot and m > 1) and is exactly
    what `save` of the n-th symbol alone writes there -/
theorem sequence_save_each (envs : List Env) (out : OutArg) (kind : Option Str) (kw : Config) (l : List (OutArg × Result))
    (h : seqSave envs out kind kw = .ok l) :
    l.length = envs.length
    ∧ ∀ (i : Nat) (env : Env), envs[i]? = some env →
        ∃ r, save env (seqOut out envs.length (i + 1)) kind kw = .ok r ∧ l[i]? = some (seqOut out envs.length (i + 1), r) := by
  refine ⟨seqSaveGo_length _ _ _ _ envs 1 l h, fun i env hi => ?_⟩
  obtain ⟨r, h1, h2⟩ := seqSaveGo_get _ _ _ _ envs 1 l h i env hi
  have : 1 + i = i + 1 := by omega
  rw [this] at h1 h2
  exact ⟨r, h1, h2⟩

/-- … and the document in `stem-MM-NN.ext` is the one the symbol gives when saved alone under the original name
    (the file name matters only through its extension) -/
theorem sequence_file_document (env : Env) (stem ext : Str) (m n : Nat) (kw : Config) (hd : '.' ∉ ext) :
    save env (seqOut (.path (stem ++ '.' :: ext)) m n) none kw = save env (.path (stem ++ '.' :: ext)) none kw := by
  simp only [seqOut, seqFileName]
  by_cases hm : m > 1
  · simp only [hm, if_true, Proofs.CliLemmas.splitLastDot_append _ _ hd]
    have := extension_case_document env stem (stem ++ ['-'] ++ fmt02 m ++ ['-'] ++ fmt02 n) ext ext kw hd rfl
    simpa [List.append_assoc] using this
  · simp only [hm, if_false]

/-! ### svg_inline -/

/-- **svg_inline_eq_save** — `svg_inline(**kw)` is `save(BytesIO(), kind='svg', xmldecl=False, svgns=False, nl=False, **kw)`
    (a TypeError when `kw` repeats one of the three keywords), decoded with `kw.get('encoding', 'utf-8')`: same
    document, same refusals, for every environment and keyword map -/
theorem svg_inline_eq_save (env : Env) (kw : Config) :
    svgInline env kw =
      (callKw inlineForced kw >>= fun kw' => save env (.stream true none) (some "svg".toList) kw')
        >>= decodeResult env ((cget kw "encoding").getD (.str "utf-8")) := by
  unfold svgInline svgInlinePlan
  by_cases hk : kw.any (fun e => ["kind"].contains e.1) = true
  · -- `kind` twice: refused on both sides
    rw [refuseNames_err _ _ hk]
    have hnf : ¬ Free saveReserved (inlineForced ++ kw) := by
      intro hf
      obtain ⟨e, he, hc⟩ := List.any_eq_true.1 hk
      have hek : e.1 = "kind" := by simpa using hc
      have := hf "kind" (by decide)
      rw [cget_append] at this
      have hs : (cget kw "kind").isSome = true := by
        rw [isSome_cget_iff]; exact List.any_eq_true.2 ⟨e, he, by simp [hek]⟩
      have h0 : cget inlineForced "kind" = none := by decide
      rw [h0] at this
      simp only at this
      rw [this] at hs
      simp at hs
    unfold callKw
    by_cases hc : kw.any (fun e => inlineForced.any (·.1 == e.1)) = true
    · simp only [hc, if_true]
      rfl
    · simp only [hc, Bool.false_eq_true, if_false, bind, Except.bind, pure, Except.pure]
      rw [save_refused _ _ _ _ hnf]
  · have hk' : kw.any (fun e => ["kind"].contains e.1) = false := Bool.eq_false_iff.2 hk
    rw [(refuseNames_ok_iff _ _).2 hk']
    simp only [bind, Except.bind]
    cases hcall : callKw inlineForced kw with
    | error e => rfl
    | ok kw' =>
      simp only
      unfold save
      by_cases hf : Free saveReserved kw'
      · rw [savePlan_free _ _ _ hf, dispatch_svg_kind]
        simp only [Except.map, planOfKey, Bool.false_eq_true, if_false, OutArg.sink, execute, openTarget, runTarget, bind, Except.bind,
          pure, Except.pure]
        cases env.ser "svg" kw' with
        | error e => rfl
        | ok so =>
          simp only
          rw [writable_bin]
          cases hw : writableBin env so with
          | error e => rfl
          | ok b =>
            simp only [Except.map, decodeResult]
            cases henc : (cget kw "encoding").getD (.str "utf-8") with
            | str e =>
              simp only
            | none => rfl
            | bool _ => rfl
            | int _ => rfl
            | float _ _ => rfl
            | other _ => rfl
      · rw [savePlan_refused _ _ _ hf]
        rfl

/-! ### data URIs -/

/-- kernel check over the regenerated signatures (Gen.Sigs): the defaults of `as_png_data_uri` are the defaults of
    `write_png`, and the three keywords it names are keywords of `write_png` -/
theorem png_uri_defaults_agree :
    pngDefaults.all (fun d => !pngPasses.contains d.1 || (dflt asPngDataUriSig.params d.1 == (cget [] d.1).getD d.2)) = true
    ∧ pngPasses.all (hasKey pngDefaults) = true ∧ pngPasses.all (hasKey asPngDataUriSig.params) = true
    ∧ notPassed asPngDataUriSig pngPasses = [] := by decide +kernel

/-- `png_data_uri(**kw)` is `save(BytesIO(), kind='png', **kw)` followed by base64 and the prefix — same PNG bytes
    (zlib, the palette order … are the SAME parameters of `env` on both sides), same refusals -/
theorem png_data_uri_eq_save (env : Env) (kw : Config) (hf : Free saveReserved kw) :
    pngDataUri env kw = save env (.stream true none) (some "png".toList) kw >>= toPngUri := by
  obtain ⟨f1, f2, f3, f5⟩ := png_uri_defaults_agree
  have hsub := F2_of_all asPngDataUriSig.params pngPasses f3
  have hpos : kw.any (fun e => asPngDataUriSig.positional.contains e.1) = false :=
    any_names_false_of_free _ _ (free_mono hf (by simp [saveReserved, asPngDataUriSig]))
  obtain ⟨b, inner, hth⟩ := through_ok_of asPngDataUriSig pngPasses kw rfl hsub hpos
  have hcomp := through_complete "png" asPngDataUriSig pngPasses kw b inner pngDefaults [] hth pngDefaults_eq hsub
    (F1_of_all _ _ _ _ f1) (F2_of_all _ _ f2) (by intro k hk; simp [cget_nil] at hk)
  rw [f5, dropKeys_nil, withDefaults_nil] at hcomp
  have hdisp : dispatchOf (.stream true none) (some "png".toList) = .ok ("png", false) := by
    simp only [dispatchOf]; exact eq_of_okIs (by decide +kernel)
  unfold pngDataUri pngDataUriPlan
  rw [refuseNames_free _ _ (free_mono hf (by simp [saveReserved]))]
  simp only [bind, Except.bind]
  have hth' : through asPngDataUriSig ["scale", "border", "compresslevel"] kw = .ok (b, inner) := hth
  rw [hth', save_free _ _ _ _ hf, hdisp]
  simp only [pure, Except.pure, bind, Except.bind, saveCore, Bool.false_eq_true, if_false, OutArg.sink, execute, openTarget, runTarget,
    Env.ser, hcomp]
  cases completeKw "png" kw with
  | error e => rfl
  | ok full =>
    simp only
    cases env.sem "png" full with
    | error e => rfl
    | ok so =>
      simp only
      rw [writable_bin]
      cases writableBin env so <;> rfl

/-- **png_data_uri_decodes_to_save** — whenever `save(BytesIO(), kind='png', **kw)` writes the bytes `png`, the data URI
    is the prefix followed by a text that base64-decodes (reference reader) to exactly `png` -/
theorem png_data_uri_decodes_to_save (env : Env) (kw : Config) (png : List Nat) (hf : Free saveReserved kw)
    (hb : ∀ b ∈ png, b < 256)
    (hs : save env (.stream true none) (some "png".toList) kw = .ok (.written (.bytes png))) :
    ∃ payload, pngDataUri env kw = .ok (.value (dataUriPngHead ++ payload)) ∧ b64decode payload = some png := by
  refine ⟨b64encode png, ?_, b64_roundtrip png hb⟩
  rw [png_data_uri_eq_save env kw hf, hs]
  rfl

/-- kernel check over the regenerated signatures: every keyword `as_svg_data_uri` names is a keyword of `write_svg`
    with the SAME default, except the three of `uriDefaults`; `svg_data_uri` and `as_svg_data_uri` agree on their
    four common defaults -/
theorem svg_uri_defaults_agree :
    svgDefaults.all (fun d => !uriExplicit.contains d.1 || (dflt asSvgDataUriSig.params d.1 == (cget uriDefaults d.1).getD d.2)) = true
    ∧ uriExplicit.all (hasKey svgDefaults) = true ∧ uriExplicit.all (hasKey asSvgDataUriSig.params) = true
    ∧ uriDefaults.all (fun e => uriExplicit.contains e.1) = true
    ∧ notPassed asSvgDataUriSig uriExplicit = ["encode_minimal", "omit_charset"]
    ∧ uriFlags.all (hasKey svgDataUriSig.params) = true ∧ notPassed svgDataUriSig uriFlags = []
    ∧ uriFlags.all (fun k => dflt svgDataUriSig.params k == dflt asSvgDataUriSig.params k) = true
    ∧ svgDataUriSig.params.all (fun p => uriFlags.contains p.1) = true
    ∧ uriFlags.all (fun k => ["encode_minimal", "omit_charset"].contains k
        || cget uriDefaults k == some (dflt svgDataUriSig.params k)) = true := by decide +kernel

/-- `svg_data_uri(**kw)` is `save(BytesIO(), kind='svg', **uriSaveKw kw)` followed by `_replace_quotes`, the
    percent-encoding and the prefix: same document, same refusals, for every environment and keyword map -/
theorem svg_data_uri_eq_save (env : Env) (kw : Config) (hf : Free saveReserved kw) :
    svgDataUri env kw = save env (.stream true none) (some "svg".toList) (uriSaveKw kw)
      >>= toSvgUri ((cget kw "encoding").getD (.str "utf-8")) (truthy ((cget kw "encode_minimal").getD (.bool false)))
            (truthy ((cget kw "omit_charset").getD (.bool false))) := by
  obtain ⟨g1, g2, g3, g4, g5, g6, _, _, g9, g10⟩ := svg_uri_defaults_agree
  -- first wrapper: QRCode.svg_data_uri
  have hsub1 := F2_of_all svgDataUriSig.params uriFlags g6
  have hpos1 : kw.any (fun e => svgDataUriSig.positional.contains e.1) = false :=
    any_names_false_of_free _ _ (free_mono hf (by simp [saveReserved, svgDataUriSig]))
  obtain ⟨b1, call, h1⟩ := through_ok_of svgDataUriSig uriFlags kw rfl hsub1 hpos1
  obtain ⟨hc1, _, _⟩ := through_cget svgDataUriSig uriFlags kw b1 call h1 hsub1
  have hparams1 : ∀ k, uriFlags.contains k = false → hasKey svgDataUriSig.params k = false := by
    intro k hk
    cases hq : hasKey svgDataUriSig.params k with
    | false => rfl
    | true =>
      unfold hasKey at hq
      obtain ⟨p, hp, hpk⟩ := List.any_eq_true.1 hq
      have : p.1 = k := by simpa using hpk
      have := List.all_eq_true.1 g9 p hp
      simp only [‹p.1 = k›] at this
      rw [hk] at this
      exact absurd this (by simp)
  have hcall_other : ∀ k, uriFlags.contains k = false → cget call k = cget kw k := by
    intro k hk
    rw [hc1 k]
    simp only [hk, hparams1 k hk, Bool.false_eq_true, if_false]
  -- second wrapper: writers.as_svg_data_uri
  have hsub2 := F2_of_all asSvgDataUriSig.params uriExplicit g3
  have hpos2 : call.any (fun e => asSvgDataUriSig.positional.contains e.1) = false := by
    apply any_names_false_of_free
    intro k hk
    have hk' : k = "matrix" ∨ k = "matrix_size" := by simpa [asSvgDataUriSig] using hk
    have hfl : uriFlags.contains k = false := by rcases hk' with rfl | rfl <;> decide
    rw [hcall_other k hfl]
    exact hf k (by rcases hk' with rfl | rfl <;> simp [saveReserved])
  obtain ⟨b2, inner, h2⟩ := through_ok_of asSvgDataUriSig uriExplicit call rfl hsub2 hpos2
  obtain ⟨_, hb2, _⟩ := through_cget asSvgDataUriSig uriExplicit call b2 inner h2 hsub2
  have hcomp := through_complete "svg" asSvgDataUriSig uriExplicit call b2 inner svgDefaults uriDefaults h2 svgDefaults_eq hsub2
    (F1_of_all _ _ _ _ g1) (F2_of_all _ _ g2) (F4_of_all _ _ g4)
  rw [g5] at hcomp
  have hsame : ∀ k, cget (withDefaults uriDefaults (dropKeys ["encode_minimal", "omit_charset"] call)) k = cget (uriSaveKw kw) k := by
    intro k
    unfold uriSaveKw
    rw [cget_withDefaults, cget_withDefaults, cget_dropKeys, cget_dropKeys]
    cases hd : ["encode_minimal", "omit_charset"].contains k
    · simp only [Bool.false_eq_true, if_false]
      cases hfl : uriFlags.contains k
      · rw [hcall_other k hfl]
      · rw [hc1 k]
        simp only [hfl, if_true]
        have hmem : k ∈ uriFlags := by simpa using hfl
        have := List.all_eq_true.1 g10 k hmem
        simp only [hd, Bool.false_or, beq_iff_eq] at this
        cases cget kw k with
        | some v => rfl
        | none => simp only [Option.getD_none, this]
    · simp only [if_true]
  have hfull : completeKw "svg" inner = completeKw "svg" (uriSaveKw kw) := by
    rw [hcomp]
    exact completeKw_of_cget_eq "svg" _ _ hsame
  -- the arguments of the post-processing
  have henc : arg b2 "encoding" = (cget kw "encoding").getD (.str "utf-8") := by
    rw [hb2 "encoding" (by decide), hcall_other "encoding" (by decide)]
    rfl
  have hmin : arg b2 "encode_minimal" = (cget kw "encode_minimal").getD (.bool false) := by
    rw [hb2 "encode_minimal" (by decide), hc1 "encode_minimal"]
    simp only [show uriFlags.contains "encode_minimal" = true by decide, if_true, Option.getD_some]
    rfl
  have homit : arg b2 "omit_charset" = (cget kw "omit_charset").getD (.bool false) := by
    rw [hb2 "omit_charset" (by decide), hc1 "omit_charset"]
    simp only [show uriFlags.contains "omit_charset" = true by decide, if_true, Option.getD_some]
    rfl
  unfold svgDataUri svgDataUriPlan
  have h1' : through svgDataUriSig ["xmldecl", "nl", "encode_minimal", "omit_charset"] kw = .ok (b1, call) := h1
  simp only [bind, Except.bind, h1', h2, pure, Except.pure]
  rw [save_free _ _ _ _ (free_uriSaveKw kw hf), dispatch_svg_kind]
  simp only [bind, Except.bind, saveCore, Bool.false_eq_true, if_false, OutArg.sink, execute, openTarget, runTarget, Env.ser, hfull,
    henc, hmin, homit, pure, Except.pure]
  cases completeKw "svg" (uriSaveKw kw) with
  | error e => rfl
  | ok full =>
    simp only
    cases env.sem "svg" full with
    | error e => rfl
    | ok so =>
      simp only
      rw [writable_bin]
      cases writableBin env so with
      | error e => rfl
      | ok b =>
        simp only [Except.map, toSvgUri, bind, Except.bind, pure, Except.pure]

/-- **svg_data_uri_decodes_to_save** — whenever `save(BytesIO(), kind='svg', **uriSaveKw kw)` writes the document `doc`
    (and the charset can be written: `omit_charset`, or `encoding` is a str), the data URI is
    `data:image/svg+xml[;charset=<encoding>],<payload>` and percent-decoding the payload (reference reader) gives
    `doc` up to EXACTLY the D12 rewriting: it is `replaceQuotes doc`; position by position a byte of `doc` or a `"`
    turned into `'`; and it equals `doc` iff `doc` has no `="…"` attribute value (`HasQuotedAttr`).  Both safe sets. -/
theorem svg_data_uri_decodes_to_save (env : Env) (kw : Config) (doc : List Nat) (hf : Free saveReserved kw)
    (hb : ∀ b ∈ doc, b < 256)
    (hs : save env (.stream true none) (some "svg".toList) (uriSaveKw kw) = .ok (.written (.bytes doc)))
    (hcs : truthy ((cget kw "omit_charset").getD (.bool false)) = true ∨ ∃ e, (cget kw "encoding").getD (.str "utf-8") = .str e) :
    ∃ charset payload, svgDataUri env kw = .ok (.value (dataUriSvgHead ++ charset ++ [','] ++ payload))
      ∧ (charset = [] ∨ ∃ e, (cget kw "encoding").getD (.str "utf-8") = .str e ∧ charset = ";charset=".toList ++ e.toList)
      ∧ pctDecode payload = replaceQuotes doc
      ∧ Pointwise QuoteStep doc (pctDecode payload)
      ∧ (pctDecode payload = doc ↔ ¬ HasQuotedAttr doc) := by
  have hrq := replace_quotes_spec doc
  have hlt := pointwise_lt hrq.1 hb
  have hdec : ∀ safe, (safe = safeNormal ∨ safe = safeMinimal) → pctDecode (pctEncode safe (replaceQuotes doc)) = replaceQuotes doc := by
    intro safe hsafe
    rcases hsafe with rfl | rfl
    · exact (percent_decode_encode _ hlt).1
    · exact (percent_decode_encode _ hlt).2.1
  rw [svg_data_uri_eq_save env kw hf, hs]
  simp only [bind, Except.bind, toSvgUri, pure, Except.pure]
  cases hom : truthy ((cget kw "omit_charset").getD (.bool false))
  · rcases hcs with h | ⟨e, he⟩
    · rw [hom] at h; exact absurd h (by simp)
    · simp only [Bool.false_eq_true, if_false, he]
      refine ⟨";charset=".toList ++ e.toList, _, rfl, Or.inr ⟨e, rfl, rfl⟩, ?_⟩
      have := hdec (if truthy ((cget kw "encode_minimal").getD (.bool false)) = true then safeMinimal else safeNormal)
        (by cases truthy ((cget kw "encode_minimal").getD (.bool false)) <;> simp)
      rw [this]
      exact ⟨rfl, hrq.1, hrq.2⟩
  · simp only [if_true]
    refine ⟨[], _, rfl, Or.inl rfl, ?_⟩
    have := hdec (if truthy ((cget kw "encode_minimal").getD (.bool false)) = true then safeMinimal else safeNormal)
      (by cases truthy ((cget kw "encode_minimal").getD (.bool false)) <;> simp)
    rw [this]
    exact ⟨rfl, hrq.1, hrq.2⟩

/-! ### the command line tool -/

/-- `cli.main` with an output file is `qr.save(output, **build_config(config, filename=output))` … -/
theorem cli_main_eq_save (env : Env) (extToKw : List (String × List String)) (parsed : Config) (output : String)
    (h : cget parsed "output" = some (.str output)) :
    cliMain env extToKw parsed = save env (.path output.toList) none (cliKwargs extToKw parsed output.toList) := by
  unfold cliMain cliPlan save
  rw [h]

/-- … and without one `qr.terminal(border=config['border'], compact=config.get('compact', False))` on `sys.stdout` -/
theorem cli_main_eq_terminal (env : Env) (extToKw : List (String × List String)) (parsed : Config) (border : PyV)
    (h : cget parsed "output" = some .none) (hb : cget parsed "border" = some border) :
    cliMain env extToKw parsed = terminal env none border ((cget parsed "compact").getD (.bool false)) := by
  unfold cliMain cliPlan terminal
  rw [h, hb]
  rfl

/-- the parsed command line `segno -o out.<kind> content` (no other option): `vars(parse_args(...))` of Gen.Sigs -/
def cliDefaultConfig (kind : String) : Config := cset Gen.CLI_DEFAULT_CONFIG "output" (.str ("out." ++ kind))

/-- kernel check over the regenerated tables, 13 kinds: the plan of the command line tool and the plan of
    `qr.save('out.<kind>')` bind the same serialiser to the same keyword values (svgz: same compression level) -/
theorem cli_plan_eq_api_plan :
    Props.C12.kinds.all (fun kind =>
      planEquiv (cliPlan Gen.EXT_TO_KW_MAPPING (cliDefaultConfig kind)) (savePlan (.path ("out." ++ kind).toList) none [])) = true := by
  decide +kernel

/-- **cli_document_eq_api_document** — for each of the 13 kinds and EVERY serialiser environment (every symbol), the
    file written by `segno -o out.<kind> content` is the file `qr.save('out.<kind>')` writes: no option of the
    command line tool leaks into the document, none is lost (composition of `Model.Cli.buildConfig`, the dispatch
    and the keyword binding of the serialiser) -/
theorem cli_document_eq_api_document (env : Env) (kind : String) (hk : kind ∈ Props.C12.kinds) :
    cliMain env Gen.EXT_TO_KW_MAPPING (cliDefaultConfig kind) = save env (.path ("out." ++ kind).toList) none [] := by
  have := List.all_eq_true.1 cli_plan_eq_api_plan kind hk
  exact execute_of_planEquiv env _ _ this

/-! ### the whole-document models as serialisers (`Model.RoutesDocs.docEnv`) -/

open Model.RoutesDocs in
/-- what "the document `save(kind='svg')` writes" is for the environment of the document models: the text of
    `Model.Svg.saveSvg` (every character of `write_svg`) for the arguments read from the completed keyword map,
    through the codec of `encoding` -/
theorem save_svg_document (svc : Services) (rt : Runtime) (M : List (List Nat)) (w h : Nat) (other : String → Config → R SerOut)
    (kw c : Config) (a : SvgArgs) (hf : Free saveReserved kw) (hc : completeKw "svg" kw = .ok c) (ha : svgArgs svc w h c = some a) :
    save (docEnv svc rt M w h other) (.stream true none) (some "svg".toList) kw =
      (Svg.saveSvg M w h (some a.dark) (some a.light) a.to a.o) >>= fun s =>
        (rt.codec (a.o.encoding.getD "utf-8") s.toList) >>= fun b => pure (.written (.bytes b)) := by
  rw [save_free _ _ _ _ hf, dispatch_svg_kind]
  simp only [bind, Except.bind, saveCore, Bool.false_eq_true, if_false, Env.ser, hc, docEnv, docSem, beq_self_eq_true, if_true, svgSem, ha,
    Option.map_some, svgDoc, OutArg.sink]
  cases Svg.saveSvg M w h (some a.dark) (some a.light) a.to a.o with
  | error e => rfl
  | ok s =>
    simp only [pure, Except.pure, writable, writableBin, bind, Except.bind]
    cases rt.codec (a.o.encoding.getD "utf-8") s.toList <;> simp

/-- for `write_svg` an empty `unit` is no unit (`unit = unit or ''`): the `unit=''` default of `as_svg_data_uri`, the one entry of
    `uriDefaults` that is not a visible option, does not show in the document of the model -/
theorem svg_unit_empty_eq_none (M : List (List Nat)) (w h : Nat) (cm : List (Nat × ColorArg)) (o : Svg.Opts) :
    Svg.writeSvg M w h cm { o with unit := some "" } = Svg.writeSvg M w h cm { o with unit := none } := by
  unfold Svg.writeSvg Svg.svgPaths
  rfl

open Model.RoutesDocs in
/-- the instances a reader may want spelled out: for every symbol `M`, all services, every keyword map -/
theorem svg_inline_document (svc : Services) (rt : Runtime) (M : List (List Nat)) (w h : Nat) (other : String → Config → R SerOut) (kw : Config) :
    svgInline (docEnv svc rt M w h other) kw =
      (callKw inlineForced kw >>= fun kw' => save (docEnv svc rt M w h other) (.stream true none) (some "svg".toList) kw')
        >>= decodeResult (docEnv svc rt M w h other) ((cget kw "encoding").getD (.str "utf-8")) :=
  svg_inline_eq_save _ kw

/-! ### non-vacuity: the hypotheses are satisfiable, the statements speak about real documents -/

section examples
open Model.RoutesDocs

def exServices : Services :=
  { floatStr := fun _ _ => "2.5", mulStr := fun _ _ _ => "37.5", setOrder := id, deflate := fun _ b => 120 :: 156 :: b, ppm := fun _ => 11811 }

/-- UTF-8 restricted to ASCII, a recognisable "gzip" -/
def exRuntime : Runtime :=
  { codec := fun _ s => if s.all (·.toNat < 128) then .ok (s.map Char.toNat) else .error .unicodeError,
    decode := fun _ b => .ok (b.map Char.ofNat), defaultEnc := "utf-8",
    gzipCheck := fun l => if l == .int 10 then .error .valueError else .ok (), gzip := fun _ b => 31 :: 139 :: b }

/-- an 11 x 11 matrix (the size of M1) -/
def exMatrix : List (List Nat) :=
  (List.range 11).map (fun i => (List.range 11).map (fun j => if (i * 7 + j * 3) % 5 < 2 then 1 else 0))

def exEnv : Env := docEnv exServices exRuntime exMatrix 11 11 (fun _ _ => .error .assertionError)

def valueOf : R Result → String
  | .ok (.value s) => String.ofList s
  | .ok (.written (.chars s)) => "chars:" ++ String.ofList s
  | .ok (.written (.bytes b)) => "bytes:" ++ String.ofList (b.map Char.ofNat)
  | .error e => "error:" ++ e.name

example : b64encode [1] = "AQ==".toList ∧ b64encode [1, 2] = "AQI=".toList ∧ b64encode [1, 2, 3] = "AQID".toList
    ∧ b64decode "AQI=".toList = some [1, 2] ∧ b64decode "AQ=I".toList = none := by decide +kernel
example : String.ofList (pctEncode safeNormal ("<a b='1'/>".toList.map Char.toNat)) = "%3Ca%20b%3D%271%27%2F%3E"
    ∧ String.ofList (pctEncode safeMinimal ("<a b='1'/>".toList.map Char.toNat)) = "%3Ca b='1'/%3E" := by decide +kernel
example : replaceQuotes ("<p a=\"1\" b=\"\" c=\"x\"y\"/>".toList.map Char.toNat) = "<p a='1' b=\"\" c='x'y\"/>".toList.map Char.toNat := by
  decide +kernel
example : HasQuotedAttr ("<p a=\"1\"/>".toList.map Char.toNat) :=
  ⟨"<p a".toList.map Char.toNat, "=\"1\"/>".toList.map Char.toNat, by decide, [49], "/>".toList.map Char.toNat, by decide, by decide, by decide⟩
example : ¬ HasQuotedAttr ("<p a=''/>".toList.map Char.toNat) := by
  rw [← (replace_quotes_spec _).2]; decide +kernel
example : '.' ∉ "PnG".toList ∧ lower "pNg".toList = lower "PnG".toList := by decide

/-- two 3 x 3 "symbols" -/
def ex3 : Env := docEnv exServices exRuntime [[1, 0, 1], [0, 1, 0], [1, 1, 0]] 3 3 (fun _ _ => .error .assertionError)
def ex3b : Env := docEnv exServices exRuntime [[0, 0, 1], [0, 1, 1], [1, 0, 0]] 3 3 (fun _ _ => .error .assertionError)

/-- `svg_inline` on a document of the model: no XML declaration, no namespace, no line feed (kernel evaluation of
    Model.Svg.writeSvg through the route layer) -/
example : valueOf (svgInline ex3 [("border", .int 0), ("scale", .int 2)])
    = "<svg width=\"6\" height=\"6\" class=\"segno\"><path transform=\"scale(2)\" class=\"qrline\" stroke=\"#000\" d=\"M0 0.5h1m1 0h1m-2 1h1m-2 1h2\"/></svg>" := by
  decide +kernel

/-- `svg_data_uri`: the saved document has `="…"` attribute values, the payload has `='…'` (D12); `encode_minimal`
    leaves blank, `:`, `/`, `=`, `'`; a truthy `omit_charset` (here the int 1) drops the charset -/
example : valueOf (svgDataUri ex3 [("border", .int 0), ("encode_minimal", .bool true), ("omit_charset", .int 1)])
    = "data:image/svg+xml,%3Csvg xmlns='http://www.w3.org/2000/svg' width='3' height='3' class='segno'%3E%3Cpath class='qrline' stroke='%23000' d='M0 0.5h1m1 0h1m-2 1h1m-2 1h2'/%3E%3C/svg%3E" := by
  decide +kernel

/-- a text stream receives the text (`write_txt`); the command line tool with the default border writes the same
    serialiser's file; a sequence of two symbols goes to `my.seq-02-01.txt`, `my.seq-02-02.txt` -/
example : valueOf (save ex3 (.stream false none) (some "TXT".toList) [("border", .int 0)]) = "chars:101\n010\n110\n" := by decide +kernel
example : valueOf (cliMain ex3 Gen.EXT_TO_KW_MAPPING (cliDefaultConfig "txt"))
    = "bytes:0000000\n0000000\n0010100\n0001000\n0011000\n0000000\n0000000\n" := by decide +kernel
example : (match seqSave [ex3, ex3b] (.path "my.seq.txt".toList) none [("border", .int 0)] with
    | .ok l => l.map (fun e => (match e.1 with | .path n => String.ofList n | _ => "?", valueOf (.ok e.2)))
    | .error _ => []) = [("my.seq-02-01.txt", "bytes:101\n010\n110\n"), ("my.seq-02-02.txt", "bytes:001\n011\n100\n")] := by
  decide +kernel
/-- `png_data_uri`: prefix + base64 of the whole PNG file of the model (signature, IHDR, PLTE, IDAT with the `deflate` service, IEND
    and their CRCs); `q.SvgZ`: the gzip service applied to the SVG document (`31, 139` = the marker of `exRuntime.gzip`, then `<svg`) -/
example : valueOf (pngDataUri ex3 [("border", .int 0)])
    = "data:image/png;base64,iVBORw0KGgoAAAANSUhEUgAAAAMAAAADBAMAAACkBqiMAAAAHlBMVEUAAAAAAAAAAAAAAAD////////////////////////t5gLKAAAAC0lEQVR4nAAEAABAQAAAQMIuqo0AAAAASUVORK5CYII=" := by
  decide +kernel
example : (match save ex3 (.path "q.SvgZ".toList) none [("border", .int 0), ("xmldecl", .bool false), ("compresslevel", .int 3)] with
    | .ok (.written (.bytes b)) => b.take 6
    | _ => []) = [31, 139, 60, 115, 118, 103] := by decide +kernel

/-- refusals: gzip refuses the level (runtime service); a NAMED stream `x.svgz` is not compressed but refused -/
example : valueOf (save ex3 (.path "x.svgz".toList) none [("border", .int 0), ("compresslevel", .int 10)]) = "error:ValueError"
    ∧ valueOf (save ex3 (.stream true (some "x.svgz".toList)) none [("border", .int 0)]) = "error:ValueError"
    ∧ valueOf (svgInline ex3 [("nl", .bool true)]) = "error:TypeError"
    ∧ valueOf (save ex3 (.stream true none) none []) = "error:TypeError" := by decide +kernel

end examples

end Props.C12Routes
