/-
  C14 (serializer clause, colours) — the model of the colour parser of the serializers
  (`_color_to_rgba` with its helpers, as used by the PNG / PPM writers) accepts exactly the documented
  colour forms — CSS3 colour names in any letter case, #RGB, #RGBA, #RRGGBB, #RRGGBBAA (the # is
  optional), 3-tuples and 4-tuples of 8-bit values, a float alpha in 0..1 — with the documented meaning,
  and refuses everything else with ValueError.
  Property theorems only; helper lemmas live in Proofs/ColourGrammar.lean.
-/
import Spec.Raster
import Model.Png
import Props.C09
import Proofs.ColourGrammar

namespace Props.C14

/-- what the specification says a colour argument means (`none` = malformed: must be refused) -/
def specMeaning : Model.ColorArg → Option Spec.ColExp
  | .none => some .transparent
  | .str s => (Spec.parseColourString s).map .exact
  | .ints [r, g, b] => if r ≤ 255 ∧ g ≤ 255 ∧ b ≤ 255 then some (.exact ⟨r, g, b, 255⟩) else none
  | .ints [r, g, b, a] => if r ≤ 255 ∧ g ≤ 255 ∧ b ≤ 255 ∧ a ≤ 255 then some (.exact ⟨r, g, b, a⟩) else none
  | .ints _ => none
  | .floatAlpha r g b k => if r ≤ 255 ∧ g ≤ 255 ∧ b ≤ 255 ∧ k ≤ 1000 then some (.approx r g b k) else none

theorem specMeaning_eq : specMeaning = Proofs.ColourGrammar.meaning := rfl

/-- **colour grammar**: a colour argument (other than None) is accepted by the model exactly when the
    specification's grammar accepts it, the RGBA value returned is the one the specification assigns,
    and a malformed colour is refused with ValueError — never with another error -/
theorem colour_grammar (c : Model.ColorArg) (hc : c ≠ .none) :
    match specMeaning c with
    | some e => ∃ r g b a, Model.colorToRgba c = .ok (r, g, b, a) ∧ e.accepts ⟨r, g, b, a⟩ = true
    | none => Model.colorToRgba c = .error Model.PyErr.valueError := by
  rw [specMeaning_eq]; exact Proofs.ColourGrammar.grammar_core c hc

/-- the same for `png_color` (None = transparent placeholder; opaque colours lose their alpha) -/
theorem png_colour_grammar (c : Model.ColorArg) :
    match specMeaning c with
    | some e => ∃ p, Model.pngColor c = .ok p ∧
        (match p with
         | .transparent => c = .none
         | .rgb r g b => e.accepts ⟨r, g, b, 255⟩ = true
         | .rgba r g b a => a ≠ 255 ∧ e.accepts ⟨r, g, b, a⟩ = true)
    | none => Model.pngColor c = .error Model.PyErr.valueError := by
  rw [specMeaning_eq]; exact Proofs.ColourGrammar.png_core c

/-- letter case of colour names does not matter (ASCII) -/
theorem colour_name_case (s t : String) (h : Model.lowerAscii s = Model.lowerAscii t)
    (hs : (Model.nameToRgb s).isSome) : Model.colorToRgba (.str s) = Model.colorToRgba (.str t) :=
  Proofs.ColourGrammar.name_case s t h hs

/-! non-vacuity -/
example : Model.colorToRgba (.str "#AbC") = .ok (170, 187, 204, 255) := by rfl
example : Model.pngColor (.str "a1b2c3d4") = .ok (.rgba 161 178 195 212) := by rfl
example : Model.pngColor (.floatAlpha 1 2 3 500) = .ok (.rgba 1 2 3 128) := by rfl
example : Model.colorToRgba (.str "#abcde") = .error .valueError := by rfl
example : Model.colorToRgba (.str "ReD") = .ok (255, 0, 0, 255) := by rfl

end Props.C14

#print axioms Props.C14.colour_grammar
#print axioms Props.C14.png_colour_grammar
#print axioms Props.C14.colour_name_case
