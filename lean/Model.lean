import Model.Encoder
import Model.Driver
