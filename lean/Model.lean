import Model.Encoder
import Model.Driver
import Model.Dispatch
import Model.Lines
import Model.Helpers
import Model.HelpersDriver
