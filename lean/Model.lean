import Model.Encoder
import Model.Driver
import Model.Dispatch
import Model.Lines
